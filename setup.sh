#!/bin/sh
# Build the verification framework offline: regenerate Gen/ from /repo, build all Lean
# modules of all checks and the model drivers. Nothing is fetched.
cd "$(dirname "$0")" || exit 2
export METADOR_CORE_VERIF=1
export PYTHONPATH="$PWD${PYTHONPATH:+:$PYTHONPATH}"
exec /venv/bin/python -m harness.setup
