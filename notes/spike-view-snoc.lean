/-! Design-time experiment only (not part of the verification machinery):
    brute-force evaluation of the planned statement  view (r ++ [p]) = applyPatch p (view r)
    under the planned invariant, used to choose the statement in DESIGN.md §5 C01.
    Run with: lean spike-view-snoc.lean   (≈ 3.5 min) -/
abbrev Key := String
abbrev Path := List Key

inductive RKind where
  | vgroup | sgroup | data (v : Nat) | del
deriving Repr, DecidableEq, BEq

structure RNode where
  kind : RKind
  attrs : List (Key × Option Nat) := []
deriving Repr, DecidableEq, BEq

abbrev Cont := List (Path × RNode)
abbrev Rec := List Cont

def Cont.get? (c : Cont) (p : Path) : Option RNode := (c.find? (·.1 == p)).map (·.2)
def RKind.isVirtual : RKind → Bool | .vgroup => true | _ => false

inductive NKind where | group | data (v : Nat) deriving Repr, DecidableEq, BEq
structure Node where
  kind : NKind
  attrs : List (Key × Nat)
deriving Repr, DecidableEq, BEq

/-- fixed scan (newest first) -/
def scan (p : Path) : List (Nat × Cont) → Option Nat → Option Nat
  | [], acc => acc
  | (i, c) :: rest, acc =>
    match c.get? p with
    | none => scan p rest acc
    | some n => if n.kind.isVirtual then scan p rest (some i) else some i

def newestFrom (r : Rec) (c : Nat) : List (Nat × Cont) :=
  ((List.range r.length).zip r).reverse.filter (fun x => c ≤ x.1)

/-- attrs scan: first sighting (newest) of each key wins, among containers ≥ c that have path p (as any non-del entry) -/
def attrKeys (r : Rec) (p : Path) (c : Nat) : List Key :=
  ((newestFrom r c).flatMap fun (_, cont) => match cont.get? p with | some n => n.attrs.map (·.1) | none => []).eraseDups

def attrVal (p : Path) (k : Key) : List (Nat × Cont) → Option Nat
  | [] => none
  | (_, c) :: rest => match c.get? p with
    | none => attrVal p k rest
    | some n => match n.attrs.find? (·.1 == k) with
      | some (_, v) => v
      | none => attrVal p k rest

def attrsAt (r : Rec) (p : Path) (c : Nat) : List (Key × Nat) :=
  ((attrKeys r p c).filterMap fun k => (attrVal p k (newestFrom r c)).map (k, ·))

def insertSorted (x : Key × Nat) : List (Key × Nat) → List (Key × Nat)
  | [] => [x]
  | y :: ys => if x.1 < y.1 then x :: y :: ys else y :: insertSorted x ys
def sortKV (l : List (Key × Nat)) : List (Key × Nat) := l.foldr insertSorted []

/-- resolve: (creation idx, kind) -/
def resolveFrom (r : Rec) : Path → Path → Nat → Option (Nat × NKind)
  | _, [], c => some (c, .group)
  | pre, k :: rest, c =>
    match scan (pre ++ [k]) (newestFrom r c) none with
    | none => none
    | some i =>
      match (r.getD i []).get? (pre ++ [k]) with
      | some ⟨.del, _⟩ => none
      | some ⟨.data v, _⟩ => if rest.isEmpty then some (i, .data v) else none
      | some _ => if rest.isEmpty then some (i, .group) else resolveFrom r (pre ++ [k]) rest i
      | none => none

def view (r : Rec) (p : Path) : Option Node :=
  match resolveFrom r [] p 0 with
  | none => none
  | some (c, k) => some ⟨k, sortKV (attrsAt r p c)⟩

-- abstract apply
def prefixes (q : Path) : List Path := (List.range q.length).map (fun i => q.take (i+1))
def firstNonVirtual (p : Cont) (q : Path) : Bool :=
  (prefixes q).any fun pre => match p.get? pre with | some n => !n.kind.isVirtual | none => false
def plain (n : Option RNode) : Option Node :=
  match n with
  | none => none
  | some ⟨.del, _⟩ => none
  | some ⟨.data v, a⟩ => some ⟨.data v, sortKV (a.filterMap fun (k, x) => x.map (k, ·))⟩
  | some ⟨_, a⟩ => some ⟨.group, sortKV (a.filterMap fun (k, x) => x.map (k, ·))⟩
def overlayAttrs (pa : List (Key × Option Nat)) (ta : List (Key × Nat)) : List (Key × Nat) :=
  sortKV ((pa.filterMap fun (k, x) => x.map (k, ·)) ++ ta.filter (fun (k, _) => !(pa.any (·.1 == k))))
def applyPatch (p : Cont) (t : Path → Option Node) (q : Path) : Option Node :=
  if firstNonVirtual p q then plain (p.get? q)
  else match p.get? q with
    | none => t q
    | some vg => (t q).map fun n => { n with attrs := overlayAttrs vg.attrs n.attrs }

-- enumeration of small containers over paths [], [a], [a,b], [c]
def kinds : List (Option RNode) :=
  [none, some ⟨.vgroup, []⟩, some ⟨.sgroup, []⟩, some ⟨.data 1, []⟩, some ⟨.del, []⟩,
   some ⟨.vgroup, [("k", some 7)]⟩, some ⟨.vgroup, [("k", none)]⟩, some ⟨.data 2, [("k", some 8)]⟩]
def rootKinds : List RNode := [⟨.vgroup, []⟩, ⟨.vgroup, [("k", some 5)]⟩, ⟨.vgroup, [("k", none)]⟩]
def isGroupK : Option RNode → Bool | some ⟨.vgroup, _⟩ => true | some ⟨.sgroup, _⟩ => true | _ => false
def conts : List Cont := Id.run do
  let mut out := []
  for rt in rootKinds do
    for a in kinds do
      for ab in kinds do
        if ab.isSome && !isGroupK a then continue
        for c in kinds.take 5 do
          let mut cont : Cont := [([], rt)]
          if let some n := a then cont := cont ++ [(["a"], n)]
          if let some n := ab then cont := cont ++ [(["a","b"], n)]
          if let some n := c then cont := cont ++ [(["c"], n)]
          out := cont :: out
  return out
def allPaths : List Path := [[], ["a"], ["a","b"], ["c"], ["a","b","x"]]

/-- candidate invariant for the last container p over earlier view t -/
def hasDelOrNone (c : Cont) : Bool := c.any fun (_, n) => n.kind == .del || n.attrs.any (·.2.isNone)
def underS (p : Cont) (q : Path) : Bool := firstNonVirtual p q.dropLast  -- some proper prefix non-virtual (sgroup)
def invLast (p : Cont) (t : Path → Option Node) : Bool :=
  p.all fun (q, n) =>
    q == [] || underS p q ||
    (match n.kind with
       | .vgroup => (match t q with
            | some ⟨.group, _⟩ => true
            | some ⟨.data _, _⟩ => !(p.any fun (q', _) => q'.length > q.length && q'.take q.length == q)
            | none => false)
       | _ => (match t q.dropLast with | some ⟨.group, _⟩ => true | _ => q.length == 1) )

def baseOk (c : Cont) : Bool := !hasDelOrNone c && c.all (fun (_, n) => n.kind != .sgroup || true)

def check (maxN : Nat) : IO Unit := do
  let bases := conts.filter baseOk
  IO.println s!"conts={conts.length} bases={bases.length}"
  let mut tested := 0
  let mut bad := 0
  -- records of length 1..2 then patch
  let mut recs : List Rec := bases.map ([·])
  for _ in [0:maxN] do
    let mut next : List Rec := []
    for r in recs do
      let t := view r
      for p in conts do
        if invLast p t then
          tested := tested + 1
          let r' := r ++ [p]
          for q in allPaths do
            if view r' q != applyPatch p t q then
              bad := bad + 1
              if bad ≤ 5 then IO.println s!"CEX r={repr r} p={repr p} q={q} view={repr (view r' q)} apply={repr (applyPatch p t q)}"
          if next.length < 3000 then next := r' :: next
    recs := next
    IO.println s!"tested={tested} bad={bad} next={recs.length}"

#eval check 2
