"""./check <ID> [--tier quick|thorough] [--replay FILE]"""
import argparse
import importlib
import json
import os
import sys
import time
import traceback

from . import core, lean


def lean_phase(ctx, prop):
    """Translate, build, audit. Registers one obligation per property theorem (+ extras)."""
    L = getattr(prop, "LEAN", None)
    if not L:
        return
    modules = list(L.get("modules", []))
    theorems = list(L.get("theorems", []))
    drivers = list(L.get("drivers", []))
    # 1. translation (Gen/ regenerated from /repo on every run)
    if hasattr(prop, "translate"):
        try:
            info = prop.translate(ctx)
            ctx.obligation("translate:%s" % prop.ID, "translation of source functions into Gen/", True, str(info or ""))
        except Exception as e:  # the source no longer has the shape the translator understands
            ctx.obligation("translate:%s" % prop.ID, "translation of source functions into Gen/", False, "%s: %s" % (type(e).__name__, e))
    # 2. drivers (infrastructure; they import only models)
    if drivers:
        ok, log, dt = lean.lake_build(drivers)
        if not ok:
            raise lean.InfraError("driver build failed:\n" + log[-4000:])
    # 3. proofs
    built = lean.build_each(modules)
    # 4. audit
    hits, srcs = lean.grep_forbidden(modules)
    for m in modules:
        ok, log = built[m]
        if not ok:
            ctx.obligation("build:%s" % m, "lake build", False, log)
    good_mods = [m for m in modules if built[m][0]]
    axioms = {}
    if good_mods and theorems:
        axioms, raw = lean.print_axioms(good_mods, theorems, prop.ID)
    for t in theorems:
        ax = axioms.get(t)
        if ax is None:
            ctx.obligation(t, "theorem", False, "not proved (module does not build or theorem missing)")
        elif not ax <= lean.ALLOWED_AXIOMS:
            ctx.obligation(t, "theorem", False, "depends on axioms %s" % sorted(ax))
        else:
            ctx.obligation(t, "theorem", True, "axioms: %s" % sorted(ax))
    ctx.obligation("audit:no-sorry-no-own-axioms", "grep over %d source files" % len(srcs), not hits, "\n".join(hits))
    ctx.checker_cmd = "cd lean && lake build %s && lake env lean <#print axioms for %d theorems>; grep sorry|admit|axiom|native_decide|bv_decide|implemented_by|unsafe" % (
        " ".join(modules), len(theorems))
    if ctx.tier == "thorough" and good_mods and not os.environ.get("VERIF_NO_LEANCHECKER"):
        import subprocess
        with lean._Lock():
            p = subprocess.run(["lake", "env", "leanchecker"] + good_mods, cwd=lean.LEAN, stdout=subprocess.PIPE, stderr=subprocess.STDOUT, text=True, timeout=3000)
        ctx.obligation("leanchecker", "independent re-check of compiled modules", p.returncode == 0, p.stdout[-2000:])
        ctx.checker_cmd += "; lake env leanchecker " + " ".join(good_mods)


def main(argv=None):
    ap = argparse.ArgumentParser()
    ap.add_argument("pid")
    ap.add_argument("--tier", default=os.environ.get("VERIF_TIER", "quick"))
    ap.add_argument("--replay")
    a = ap.parse_args(argv)
    seed = int(os.environ.get("VERIF_SEED", "0") or 0)
    pid = a.pid.upper()
    tier = a.tier if a.tier in ("quick", "thorough") else "quick"
    os.chdir(core.VERIF)
    try:
        prop = importlib.import_module("harness.props.%s" % pid.lower())
    except ImportError as e:
        print("no check for %s: %s" % (pid, e))
        return 2
    ctx = core.Ctx(pid, tier, seed)
    try:
        if a.replay:
            rep = json.load(open(a.replay))
            return prop.replay(ctx, rep)
        lean_phase(ctx, prop)
        prop.run(ctx)
        return ctx.finish(prop)
    except lean.InfraError as e:
        print("INFRASTRUCTURE ERROR (%s): %s" % (pid, e))
        return 2
    except Exception:
        traceback.print_exc()
        print("INFRASTRUCTURE ERROR (%s): unexpected exception in the harness" % pid)
        return 2


if __name__ == "__main__":
    sys.exit(main())
