"""Python-AST -> Lean translation of the container bookkeeping (properties C06, C07, C20).

Regenerates `lean/MetadorModel/Gen/TocFns.lean` from the current source of `envshim.REPO`
(honours METADOR_REPO) on every `./check C06|C07|C20` (one generator for the three properties:
they share `Model/Container.lean`; it is called through `harness/props/ctr_common.translate`).
The bridge modules `lean/MetadorModel/Bridge/TocFns{Paths,Pkg,Schemas,Links,Meta,Wrap}.lean`
(re-checked by `lake build` on every run) prove the generated definitions equal to the functions
of the hand-written model, so that the theorems of `Props/C06.lean`, `Props/C07.lean`,
`Props/C20.lean` (which are about the model) are theorems about what the source says now.

How the translation works
-------------------------
* A Python method becomes a Lean definition in the model's state-and-exception monad `M` over the
  model's state `St` (raw tree + caches of TOCLinks / TOCSchemas / TOCPackages + uuid counter):
  every statement becomes one statement of a `do` block, in the same order. `if/elif/else` becomes
  `if … then … else`, a test `x is None` / `not x` / `if obj := …` on an Optional becomes a `match`
  that narrows `x`, `for` becomes `forEachM` (or `pyFoldM` when the body re-binds one local /
  `self`), a `visititems` callback that appends to a local list becomes the step function of a
  `pyFoldM`, a generator (`yield`) returns the list of what it yields, `return` / `continue` end
  the block (statements after an `if` that contains one are moved into the branches that fall
  through), `raise E(..)` becomes `raise <error class>` (the message text is dropped),
  `assert c` becomes `pyAssert c`. Expressions that can raise (`d[k]`, `raw[p]`, `x.attr` on an
  Optional, …) are bound by `let tmpN ← …` in Python's evaluation order; `and` / `or` / `a if c
  else b` whose later operands have effects become monadic conditionals (short circuit kept).
  Reads of `self._<cache>` go through a snapshot `let s ← getSt` that is renewed after every
  statement with an effect; a local that aliases an entry of a cache dict (`p = self._used[k]`)
  carries the value, and its mutation (`p.remove(x)`) is written back to the entry — the
  translator refuses (TranslateError) to use such an alias after the dict may have been changed
  by something else.
* Every *effectful* method a method calls (same class or another object) is a PARAMETER of the
  generated definition (`def TOCLinks.register (TOCSchemas___register : SRef → M Unit) (obj :
  Stored) : M Unit`); pure helpers (`_ep_name_for`, `_schema_ref_for`, `*_path_for`,
  `StoredMetadata.to_path`, `MetadorMeta._get_raw`) are called directly. The bridge theorem of a
  method instantiates the parameters with the MODEL's functions (`gen_link_register :
  TOCLinks.register (schemaRegister e) st = linkRegister e st.schema st.uuid st.path`). So each
  theorem ties the text of ONE method to the model, and the theorems chain along the call graph;
  where the callee's bridge is an unconditional equation the closed statement follows by rewriting
  (e.g. `gen_pkg_register_closed`). `self` of a `MetadorMeta` method is the model's `Handle`
  (`_base_dir`, `_objs`); a method that updates `self._objs` returns the new handle.
* Anything outside the shapes below raises `TranslateError` naming the construct (obligation
  `translate:<ID>` undischarged, never a crash); the function concerned is emitted as
  `untranslated` (a definition of the right type that is wrong on purpose), so exactly its bridge
  module stops building.

What is translated (line numbers of the pinned tree) -> bridge theorem(s), all in namespace
`MetadorModel.Bridge.TocFns`
--------------------------------------------------------------------------------------------
src/metador_core/container/interface.py
  _schema_ref_for 110-112, _ep_name_for 115-116, StoredMetadata.to_path 89-96,
  TOCLinks._link_path_for 431-432, TOCSchemas._schema_path_for 593-594,
  TOCSchemas._jsonschema_path_for 597-598, TOCPackages._pkginfo_path_for 822-823
                                -> gen_schema_ref_for, gen_ep_name_for, gen_to_path, gen_link_path_for,
                                   gen_schema_path_for, gen_jsonschema_path_for, gen_pkginfo_path_for
  TOCPackages._add_providers 825-830        -> gen_add_providers            (= addProviders, by induction)
  TOCPackages._register 832-836             -> gen_pkg_register(_closed)    (= pkgRegister)
  TOCPackages._unregister 838-851           -> gen_pkg_unregister           (Agree with pkgUnregister, under PClosed)
  TOCPackages.__init__ 853-870              -> gen_pkg_init                 (= loadPackages, under PkgTreeOK)
  TOCSchemas._update_parents_children 604-625 -> gen_upc_add (= upcAdd), gen_upc_remove (Agree with upcRemove)
  TOCSchemas._register 627-661              -> gen_schema_register          (= schemaRegister, unconditional)
  TOCSchemas._unregister 663-685            -> gen_schema_unregister        (= schemaUnregister, under PClosed)
  TOCSchemas.__init__ 687-723               -> gen_schemas_init             (= loadSchemas, under SchemaInitOK)
  TOCSchemas.parent_path 738-744, versions 746-761, children 763-774
                                -> gen_parent_path, gen_versions (= tocVersions), gen_children (same members as
                                   tocChildren / tocChildrenByName; the source returns a set)
  TOCLinks.__init__ 434-452                 -> gen_links_init               (= loadLinks, under LinkTreeOK)
  TOCLinks.resolve 466-470, update 472-476, register 478-487, unregister 489-517
                                -> gen_link_resolve, gen_link_update, gen_link_register, gen_link_unregister
                                   (= linkResolve / linkUpdate / linkRegister / linkUnregister, unconditional)
  TOCLinks.find_missing 538-562             -> gen_find_missing             (= findMissing, for an existing group)
  TOCLinks.repair_missing 564-583           -> gen_repair_missing           (= repairMissing, unconditional)
  MetadorMeta._require_schema 125-140, _get_raw 164-178, _set_raw 180-193, _del_raw 195-208,
  _destroy 212-216, __setitem__ 378-403, __delitem__ 405-419
                                -> gen_require_schema, gen_get_raw, gen_set_raw, gen_del_raw (the stored object is
                                   filed under its own schema name), gen_destroy, gen_setitem, gen_delitem
                                   (= Env.requireSchema, Handle.getRaw/setRaw/delRaw/destroy/set/del)
  MetadorMeta.__init__ 220-242              -> gen_meta_init                (= openHandle, under MetaDirOK)
  MetadorMeta.query 279-313, __contains__ 315-327, get 355-376
                                -> gen_query (same first element and same members as Handle.query, for a non-empty
                                   schema name and distinct keys of `_objs`), gen_contains (= Handle.contains),
                                   gen_get (= Handle.get when the first candidate can be read)
  MetadorContainerTOC.query 964-998         -> gen_toc_query                (= tocQuery, for an existing start node)
src/metador_core/container/wrappers.py   (translated for the container root: `self = mc`, names are absolute
                                          paths, source / destination of `copy` given as paths)
  MetadorNode._guard_path 171-177           -> gen_guard_path               (= guardPath)
  MetadorNode._destroy_meta 197-199         -> gen_node_destroy_meta        (= openHandle(..).destroy)
  MetadorGroup._destroy_meta 337-341        -> gen_group_destroy_meta       (this node, then every non-reserved child
                                                with the same `_unlink`; the recursion is a parameter)
  MetadorGroup.__delitem__ 421-429          -> gen_group_delitem            (= opDelete)
  MetadorGroup.move 431-457                 -> gen_group_move               (= opMove; hypothesis: the metadata
                                                directory of a moved dataset is a group — the source asserts it)
  MetadorGroup.copy 459-538                 -> gen_group_copy               (= opCopy; hypotheses: a raw copy keeps the
                                                node kind, the copied metadata directory is a group)

Conditional bridges. `Agree g m` (Bridge/TocFnsBase.lean): same outcome, same raw tree, same uuid
counter in every case, and the same state whenever the model does not raise. It is used where a loop
over a cache raises half-way (`KeyError` in the loops of `TOCPackages._unregister` and of
`_update_parents_children(ref, None)`): Python has then updated the entries visited so far, the
model's loops are pure functions whose partial result is dropped (unreachable under `Inv`).
`PClosed` (every node has its parent group; part of `Inv`) is needed where the source says
`raw.require_group(P)` for a `P` that exists because a child of it was just deleted. The load loops
need the shape of the `/metador_container` subtree (`PkgTreeOK`, `SchemaInitOK`, `LinkTreeOK`,
`MetaDirOK`: what `Inv`'s `TocRaw` / `MetaOK` say about it), because the source parses node names
and payloads and raises on anything else, where the model's loaders skip it.

Value dictionary (fixed; Lean side: `lean/MetadorModel/Py/CtrPy.lean`, same table with definitions)
--------------------------------------------------------------------------------------------------
    `self._raw`, `self._mc.__wrapped__`, `self.__wrapped__`        the raw tree `s.raw` of the state
    `self._pkginfos / _providers`                                  `s.c.pkginfos / providers` (`_pkginfos` keeps the
                                                                   schema plugins of the package info only)
    `self._schemas / _parents / _children / _used`, `_toc_path`    `s.c.schemas / parents / children / used / tocPath`
    `self._pkgs`, `self._toc_schemas`, `self._mc.metador._links`,
    `….metador.schemas`, `self._self_container`                    the same state (objects are wired by identity;
                                                                   `self._raw = raw_cont` etc. in `__init__` is skipped)
    `self._base_dir`, `self._objs` (MetadorMeta)                   `self_.baseDir`, `self_.objs` (Handle)
    dict `d[k]` / `d[k] = v` / `del d[k]` / `k in d` / `d.get(k[,x])`   dictGetItem (KeyError) / alSet / requireKey +
    / `d.pop(k)` / `d.keys()` / iteration                          alErase / (alGet d k).isSome / alGet(.getD) / … /
                                                                   map fst, in insertion order
    set `s.add(x)` / `s.discard(x)` / `s.remove(x)` / `x in s`     setAdd / setRemove / pySetRemove (KeyError) / ∈ ;
    `set().union(*ls)`, `{f(x) for x in l}`, `a.intersection(b)`   pyUnion, pySetOf, filter (∈ b): list-sets in
                                                                   insertion order (iteration order of a Python set is
                                                                   not modelled)
    `not x` / `if x` on dict, set, list, str, int, Optional object  isEmpty, != "", != 0, isSome (as Python)
    `raw[p]` / `raw[p] = v` / `del raw[p]` / `p in raw` / `raw.get(p)`  rawGetItem (KeyError) / rawSetItem (rawCreate) /
    / `raw.move(a,b)` / `raw.copy(a,b,…)` / `raw.require_group(p)`     rawDelItem (rawDel) / has / rawGet / rawMoveM /
                                                                   rawCopyM / rawRequireGroup (creates when missing)
    a node handle, `node.name`, `node.parent`                      its path, the path, `dropLast` (a group)
    `g.keys() / values() / items()`, `len(g)`, `g.visititems(f)`   groupKeys / groupValues / groupItems / groupLen /
                                                                   visitNodes (raw) resp. userVisit, userChildren
                                                                   (MetadorGroup: reserved names skipped)
    `isinstance(n, H5GroupLike | H5DatasetLike | MetadorDataset)`  isGroup / isDataset (statically true for `.parent`)
    `node[()]`, `.decode("utf-8")` of a link, `json.loads(..)` +
    `map(PluginRef.parse_obj, ·)`, `PluginPkgMeta.parse_raw(..)`   dsRead, Val.decodePath, Val.jsonRefs, Val.pkgMeta
    `bytes(info)`, `schema_cls.schema_json().encode(..)`,
    `json.dumps(list(map(lambda x: x.dict(), ps))).encode(..)`,
    `bytes(obj)`, `str(node.name)`                                 Val.pkginfo / Val.jsonschema / Val.compat / Val.data /
                                                                   Val.target
    f-strings `f"{P}/{to_ep_name(n,v)}"`, `f"{P}/{uuid}"`,
    `f"{P}/{ep}={uuid}"`, `f"{P}/jsonschema.json"`, `…/compat`     joinEp (a package below packages/, else a schema),
                                                                   joinUuid, joinObj, joinKey
    `M.METADOR_*_PATH` (evaluated from utils.py)                   tocP, linksP, schemasP, packagesP, versionP, uuidP
    `M.is_internal_path(p[, META_PREF])`, `M.is_meta_base_path`,
    `M.to_meta_base_path`                                          isInternal / inMeta, isMetaBase, metaBase (string
                                                                   level: property C08's translation)
    `to_ep_name(n, v)`, `from_ep_name(EPName(x))`, `UUID(x)`,
    `x.name.split("/")[-1]`, `StoredMetadata.from_node(n)`         the pair; Key.pkgName / Key.epName / Key.uuidOf /
                                                                   lastEpName / storedFromNode (string parsing of a
                                                                   node name: fails on a key of another constructor)
    `schemas.PluginRef(name=, version=)`, `ref.supports(r)`        SRef.mk, supports (C16's translation)
    `schemas.get / _get_unsafe / parent_path / provider`           envGet / envGetUnsafe / envParentPath / envProvider
                                                                   (the plugin environment `e : Env`)
    `plugin_args(schema, version)` on a (name, version) tuple      pluginArgs
    `self._parse_obj(cls, value)`                                  parseValue (pydantic accepts the value or not) /
                                                                   parseStored (class parsed with, bytes)
    `self._node._guard_acl(..)`, `self._guard_acl(..)`, `acl[..]`  no-op / false (access flags are property C15's)
    `self[name]`, `_wrap_method("__delitem__")(self, name)`        guard the path + rawGetItem / + rawDelItem
    `node.meta`                                                    a call of `MetadorMeta.__init__` (callee parameter)
    `kwargs.pop("without_meta", False)`; other keys, `if kwargs:`  the parameter; the default; false
    KeyError / ValueError / TypeError / AssertionError+AttributeError / pydantic ValidationError
                                                                   Err.key / value / type / other / validation
    `cast(T, x)`, `str(uuid)`, `list(x)`, `set(x)` (copy), `iter`  x

NOT translated (tied by the correspondence run only)
----------------------------------------------------
`TOCLinks.fresh_uuid` (uuid1 + while loop; the model's counter; NOTE: the source also reserves
`_toc_path[uuid] = None`, which the model does not record), `TOCLinks.find_broken` (no model function),
`TOCSchemas.provider/__getitem__/get/keys/…`, `MetadorMeta._parse_obj` (pydantic), `keys/values/items/
__getitem__`, `MetadorContainerTOC.__init__` (version check; the three constructor calls are bridged one by
one), the `meta` property itself (a fresh `MetadorMeta` per access), `_wrap_method`, `visititems/items` of
MetadorGroup (dictionary: `userVisit`, `userChildren`), relative names and node objects as `copy` source /
destination, `create_group / __setitem__` (plain `_wrap_method`), all access-flag logic, the flattening of the
`_destroy_meta` recursion into the model's up-front listing `userNodesFrom` (only its one-level shape is
bridged), the state of a `MetadorMeta` object after a method raised.

Behaviour-preserving edits (mutation-tested both ways, see the report): renamed locals / loop variables,
comments and docstrings, reordered independent statements, `a if c else b` <-> if statement, `elif` <-> `else:
if`, merged / split boolean conditions keep the tie green. Known to break it although harmless: a comparison
the dictionary does not have (`len(g) > 0` for `len(g)`), `d.get(k)` for `d.get(k, [])` in a truth test
(Optional set), in general any rewrite through a construct outside the table above (TranslateError), and a
rewrite that changes the ORDER of effects on the state even if no observer can tell.
Concurrency: `Gen/TocFns.lean` is shared by C06, C07 and C20 — never run checks of these properties against two
different METADOR_REPO values at the same time.
"""
import ast
import os

from . import envshim  # noqa: F401
from .translate import TranslateError, find_class, strip_doc

IFACE = "src/metador_core/container/interface.py"
WRAP = "src/metador_core/container/wrappers.py"
UTILS = "src/metador_core/container/utils.py"
NS = "MetadorModel.Gen.TocFns"

HEADER = """import MetadorModel.Py.CtrPy
/-! GENERATED on every run by harness/translate_c06.py from
    src/metador_core/container/interface.py and src/metador_core/container/wrappers.py.
    Do not edit. Value dictionary: Py/CtrPy.lean and the docstring of harness/translate_c06.py. -/
set_option linter.unusedVariables false
namespace MetadorModel.Gen.TocFns
open MetadorModel.Container MetadorModel.CtrPy
"""

# ----------------------------------------------------------------------------- types
LEAN_TY = {
    "sref": "SRef", "pkg": "PkgId", "uuid": "Nat", "path": "Path", "node": "Path", "group": "Path", "dataset": "Path",
    "str": "String", "ver": "Ver", "bool": "Bool", "unit": "Unit", "nat": "Nat", "key": "Key", "val": "Val",
    "stored": "Stored", "pkgmeta": "PkgMeta", "plugins_c": "List SRef", "sinfo": "SInfo", "epname": "EpName",
    "handle": "Handle", "skey": "String × Option Ver", "value": "Bool × String", "tok": "String",
    "parsed": "SRef × String", "wnode": "Path", "lastseg": "Option Key",
}
PATHLIKE = ("path", "node", "group", "dataset", "wnode")


def lty(t):
    if isinstance(t, tuple):
        if t[0] in ("list", "set"):
            return "List (%s)" % lty(t[1])
        if t[0] == "dict":
            return "List ((%s) × (%s))" % (lty(t[1]), lty(t[2]))
        if t[0] == "opt":
            return "Option (%s)" % lty(t[1])
        if t[0] == "tuple":
            return " × ".join("(%s)" % lty(x) for x in t[1:])
    if t in LEAN_TY:
        return LEAN_TY[t]
    raise TranslateError("no Lean type for %r" % (t,))


def is_coll(t):
    return isinstance(t, tuple) and t[0] in ("list", "set")


def same(a, b):
    """type compatibility (all node handles are paths; list/set share the representation only when equal kind)"""
    if a == b:
        return True
    if a in PATHLIKE and b in PATHLIKE:
        return True
    if isinstance(a, tuple) and isinstance(b, tuple) and a[0] == b[0] and len(a) == len(b):
        return all(same(x, y) for x, y in zip(a[1:], b[1:]))
    return False


LEAN_KEYWORDS = {"at", "from", "fun", "end", "do", "then", "else", "if", "let", "have", "show", "match", "with", "in",
                 "open", "def", "theorem", "by", "where", "instance", "structure", "class", "namespace", "section",
                 "import", "return", "for", "mut", "try", "catch", "finally", "unless", "type", "prefix", "local",
                 "variable", "universe", "macro", "syntax", "deriving", "mutual", "partial", "private", "e", "s", "c",
                 "t", "self", "Type", "Prop", "Sort", "node", "info", "meta", "using", "calc", "obtain", "set", "ref"}


def lname(py):
    if py == "_":
        return "_"
    return py + "_" if (py in LEAN_KEYWORDS or py.startswith("tmp")) else py


def _d(e):
    try:
        return ast.unparse(e)[:100]
    except Exception:  # noqa: BLE001
        return ast.dump(e)[:100]


def lean_str(s):
    out = []
    for ch in s:
        if ch == "\\":
            out.append("\\\\")
        elif ch == '"':
            out.append('\\"')
        elif ch == "\n":
            out.append("\\n")
        elif 32 <= ord(ch) < 127:
            out.append(ch)
        else:
            out.append("\\u{%x}" % ord(ch))
    return '"' + "".join(out) + '"'


# ----------------------------------------------------------------------------- the objects and their fields
# self attribute chains -> what they denote.  ("field", caches field, type) | ("obj", class) | ("raw",) | ("hfield", ..)
FIELDS = {
    "TOCPackages": {
        "_raw": ("raw",),
        "_pkginfos": ("field", "pkginfos", ("dict", "pkg", "plugins_c")),
        "_providers": ("field", "providers", ("dict", "sref", ("set", "pkg"))),
    },
    "TOCSchemas": {
        "_raw": ("raw",),
        "_pkgs": ("obj", "TOCPackages"),
        "_schemas": ("field", "schemas", ("set", "sref")),
        "_parents": ("field", "parents", ("dict", "sref", ("list", "sref"))),
        "_children": ("field", "children", ("dict", "sref", ("set", "sref"))),
        "_used": ("field", "used", ("dict", "pkg", ("set", "sref"))),
    },
    "TOCLinks": {
        "_raw": ("raw",),
        "_toc_schemas": ("obj", "TOCSchemas"),
        "_toc_path": ("field", "tocPath", ("dict", "uuid", "path")),
    },
    "MetadorMeta": {
        "_mc": ("obj", "MetadorContainer"),
        "_node": ("obj", "MetadorNode"),
        "_base_dir": ("hfield", "baseDir", "path"),
        "_objs": ("hfield", "objs", ("dict", "str", "stored")),
    },
    "MetadorContainer": {
        "__wrapped__": ("raw",),
        "metador": ("obj", "MetadorContainerTOC"),
    },
    "MetadorContainerTOC": {
        "_raw": ("raw",),
        "_container": ("obj", "MetadorContainer"),
        "_links": ("obj", "TOCLinks"),
        "_schemas": ("obj", "TOCSchemas"),
        "schemas": ("obj", "TOCSchemas"),
        "_packages": ("obj", "TOCPackages"),
    },
    "StoredMetadata": {},
    # the wrapper methods are translated for the container root (self = `mc`): names are absolute paths
    "MetadorGroup": {
        "__wrapped__": ("raw",),
        "_self_container": ("obj", "MetadorContainer"),
    },
    "MetadorNode": {},
}

# constants of container/utils.py (evaluated from the source) -> the model's path / predicate
PATH_CONSTS = {
    "/metador_container": "tocP",
    "/metador_container/links": "linksP",
    "/metador_container/schemas": "schemasP",
    "/metador_container/packages": "packagesP",
    "/metador_container/version": "versionP",
    "/metador_container/uuid": "uuidP",
}
PREF_CONSTS = {"metador_": "PREF", "metador_meta_": "META_PREF"}
# constant last segments of f-string paths
SEG_CONSTS = {"jsonschema.json": "Key.jsonschema", "compat": "Key.compat"}

ERRORS = {"KeyError": ".key", "ValueError": ".value", "TypeError": ".type", "AssertionError": ".other"}
ANNOT = {"PythonDep": "pkg", "PluginRef": "sref", "PluginPkgMeta": "pkgmeta", "UUID": "uuid", "bool": "bool"}


class E:
    """a translated expression: Lean text + type (+ `alias`: (field, key lean) when the value is the mutable
    object stored in a cache dict, `narrow`: python name this Option-typed test narrows)"""

    def __init__(self, lean, ty, alias=None):
        self.lean, self.ty, self.alias = lean, ty, alias


class Var:
    def __init__(self, lean, ty, alias=None, stale=False):
        self.lean, self.ty, self.alias, self.stale = lean, ty, alias, stale


class Spec:
    """what the translator is told about one function: monad kind, parameter types (positional, names come from the
    source), result type, the effectful callees it may call (each becomes a function parameter of the generated
    definition), type hints for locals whose type cannot be inferred"""

    def __init__(self, src, cls, name, kind, params, ret, callees=(), env=False, hints=None, mutself=False,
                 selfty=None, lean=None, static=False, ctor=False):
        self.src, self.cls, self.name, self.kind, self.params, self.ret = src, cls, name, kind, list(params), ret
        self.callees, self.env, self.hints, self.mutself, self.selfty = list(callees), env, hints or {}, mutself, selfty
        self.static, self.ctor = static, ctor
        self.qual = (cls + "." + name) if cls else name
        self.lean = lean or self.qual

    def fn_type(self):
        """Lean type of this function when passed as a callee parameter"""
        ps = []
        if self.selfty and not self.ctor:
            ps.append(lty(self.selfty))
        ps += [lty(p) for p in self.params if p is not None]
        ps += [lty(t) for t in (getattr(self, "kwargs", None) or {}).values()]
        r = lty(self.selfty) if self.mutself else lty(self.ret)
        if self.kind != "pure":
            r = "M (%s)" % r
        return " → ".join(["(%s)" % p for p in ps] + [r])


SPECS = {}


def spec(*a, **k):
    s = Spec(*a, **k)
    SPECS[s.qual] = s
    return s


# ------------------------------------------------------------------ pure helpers (called directly)
spec(IFACE, None, "_schema_ref_for", "pure", ["epname"], "sref")
spec(IFACE, None, "_ep_name_for", "pure", ["sref"], "epname")
spec(IFACE, "StoredMetadata", "to_path", "pure", [], "path", selfty="stored")
spec(IFACE, "TOCLinks", "_link_path_for", "pure", ["sref"], "path", static=True)
spec(IFACE, "TOCSchemas", "_schema_path_for", "pure", ["sref"], "path", static=True)
spec(IFACE, "TOCSchemas", "_jsonschema_path_for", "pure", ["sref"], "path", static=True)
spec(IFACE, "TOCPackages", "_pkginfo_path_for", "pure", ["str", "ver"], "path", static=True)
# ------------------------------------------------------------------ TOCPackages
spec(IFACE, "TOCPackages", "_add_providers", "M", ["pkg", "pkgmeta"], "unit")
spec(IFACE, "TOCPackages", "_register", "M", ["pkg", "pkgmeta"], "unit", callees=["TOCPackages._add_providers"])
spec(IFACE, "TOCPackages", "_unregister", "M", ["pkg"], "unit")
spec(IFACE, "TOCPackages", "__init__", "M", [None], "unit", callees=["TOCPackages._add_providers"])
# ------------------------------------------------------------------ TOCSchemas
spec(IFACE, "TOCSchemas", "_update_parents_children", "M", ["sref", ("opt", ("list", "sref"))], "unit")
spec(IFACE, "TOCSchemas", "_register", "M", ["sref"], "unit", env=True,
     callees=["TOCSchemas._update_parents_children", "TOCPackages._register"])
spec(IFACE, "TOCSchemas", "_unregister", "M", ["sref"], "unit",
     callees=["TOCSchemas._update_parents_children", "TOCPackages._unregister"])
spec(IFACE, "TOCSchemas", "__init__", "M", [None, None], "unit", callees=["TOCSchemas._update_parents_children"],
     hints={"s_ref": "sref"})
spec(IFACE, "TOCSchemas", "parent_path", "M", ["skey", ("opt", "ver")], ("list", "sref"))
spec(IFACE, "TOCSchemas", "versions", "M", ["str", ("opt", "ver")], ("list", "sref"))
spec(IFACE, "TOCSchemas", "children", "M", ["skey", ("opt", "ver")], ("set", "sref"))
# ------------------------------------------------------------------ TOCLinks
spec(IFACE, "TOCLinks", "__init__", "M", [None, None], "unit")
spec(IFACE, "TOCLinks", "fresh_uuid", "M", [], "uuid")  # not translated (uuid1, while loop): callee only
spec(IFACE, "TOCLinks", "resolve", "M", ["uuid"], "path")
spec(IFACE, "TOCLinks", "update", "M", ["uuid", "path"], "unit")
spec(IFACE, "TOCLinks", "register", "M", ["stored"], "unit", callees=["TOCSchemas._register"])
spec(IFACE, "TOCLinks", "unregister", "M", ["uuid"], "unit", callees=["TOCSchemas._unregister"],
     hints={"s_name_vers": "epname"})
spec(IFACE, "TOCLinks", "find_missing", "M", ["group"], ("list", "dataset"), callees=["TOCLinks.resolve"],
     hints={"missing": ("list", "dataset")})
spec(IFACE, "TOCLinks", "repair_missing", "M", [("list", "dataset"), "bool"], "unit",
     callees=["TOCLinks.update", "TOCLinks.fresh_uuid", "TOCLinks.register"])


# ------------------------------------------------------------------ MetadorMeta (self = the model's Handle)
spec(IFACE, "MetadorMeta", "_require_schema", "M", ["str", ("opt", "ver")], "sinfo", env=True, static=True)
spec(IFACE, "MetadorMeta", "_get_raw", "pure", ["str", ("opt", "ver")], ("opt", "stored"), selfty="handle")
spec(IFACE, "MetadorMeta", "_set_raw", "M", ["sref", "tok"], "unit", selfty="handle", mutself=True,
     callees=["TOCLinks.fresh_uuid", "TOCLinks.register"])
spec(IFACE, "MetadorMeta", "_del_raw", "M", ["str", "bool"], "unit", selfty="handle", mutself=True,
     callees=["TOCLinks.unregister"])
spec(IFACE, "MetadorMeta", "_destroy", "M", ["bool"], "unit", selfty="handle", mutself=True,
     callees=["MetadorMeta._del_raw"])
spec(IFACE, "MetadorMeta", "__init__", "M", ["node"], "unit", selfty="handle", mutself=True, ctor=True)
spec(IFACE, "MetadorMeta", "query", "M", ["skey", ("opt", "ver")], ("list", "sref"), selfty="handle",
     callees=["TOCSchemas.children", "TOCSchemas.versions"])
spec(IFACE, "MetadorMeta", "__contains__", "M", ["skey"], "bool", selfty="handle", callees=["MetadorMeta.query"])
spec(IFACE, "MetadorMeta", "get", "M", ["skey", ("opt", "ver")], ("opt", "parsed"), selfty="handle",
     callees=["MetadorMeta.query", "MetadorMeta._require_schema"])
spec(IFACE, "MetadorMeta", "__setitem__", "M", ["skey", "value"], "unit", selfty="handle", mutself=True,
     callees=["MetadorMeta._require_schema", "MetadorMeta._set_raw"])
spec(IFACE, "MetadorMeta", "__delitem__", "M", ["skey"], "unit", selfty="handle", mutself=True,
     callees=["MetadorMeta._del_raw"])
# ------------------------------------------------------------------ MetadorContainerTOC.query, wrappers (self = container root)
spec(WRAP, "MetadorNode", "_guard_path", "M", ["path"], "unit")
spec(WRAP, "MetadorNode", "_destroy_meta", "M", ["bool"], "unit", selfty="wnode",
     callees=["MetadorMeta.__init__", "MetadorMeta._destroy"])
# a method call on a child node dispatches on its class (MetadorGroup / MetadorDataset): one callee parameter
_v = Spec(WRAP, "MetadorNode", "_destroy_meta", "M", ["bool"], "unit", selfty="wnode")
_v.qual = "wnode._destroy_meta"
SPECS[_v.qual] = _v
spec(WRAP, "MetadorGroup", "_destroy_meta", "M", ["bool"], "unit", selfty="wnode",
     callees=["MetadorNode._destroy_meta", "wnode._destroy_meta"])
spec(WRAP, "MetadorGroup", "__delitem__", "M", ["path"], "unit",
     callees=["MetadorNode._guard_path", "wnode._destroy_meta"])
spec(WRAP, "MetadorGroup", "move", "M", ["path", "path"], "unit",
     callees=["MetadorNode._guard_path", "MetadorMeta.__init__", "TOCLinks.find_missing", "TOCLinks.repair_missing"])
spec(WRAP, "MetadorGroup", "copy", "M", ["path", "path"], "unit",
     callees=["MetadorNode._guard_path", "MetadorMeta.__init__", "wnode._destroy_meta", "TOCLinks.find_missing",
              "TOCLinks.repair_missing"], hints={"src_name": "lastseg"})
SPECS["MetadorGroup.copy"].kwargs = {"without_meta": "bool"}
spec(IFACE, "MetadorContainerTOC", "query", "M", ["skey", ("opt", "ver"), ("opt", "wnode")], ("list", "wnode"),
     callees=["MetadorMeta.__init__", "MetadorMeta.__contains__"], hints={"ret": ("list", "wnode")})
for _q in ("TOCLinks.resolve", "TOCSchemas.children", "TOCSchemas.versions", "TOCSchemas.parent_path", "MetadorMeta.query",
           "MetadorMeta._require_schema", "MetadorMeta.get", "MetadorMeta.__contains__", "MetadorMeta.__init__",
           "MetadorNode._guard_path"):
    SPECS[_q].ro = True


# ----------------------------------------------------------------------------- source access
_TREES = {}


def _src(rel):
    if rel not in _TREES:
        path = os.path.join(envshim.REPO, rel)
        try:
            _TREES[rel] = ast.parse(open(path).read(), filename=path)
        except (OSError, SyntaxError) as ex:
            raise TranslateError("cannot parse %s: %s" % (rel, ex))
    return _TREES[rel]


def find_def(sp):
    tree = _src(sp.src)
    body = find_class(tree, sp.cls).body if sp.cls else tree.body
    found = [n for n in body if isinstance(n, ast.FunctionDef) and n.name == sp.name]
    if not found:
        raise TranslateError("%s: function not found in %s" % (sp.qual, sp.src))
    return found[-1]  # the last definition wins (overloads come first)


def utils_constants():
    """module-level string constants of container/utils.py, evaluated (f-strings / `+` of earlier constants)"""
    out = {}

    def ev(e):
        if isinstance(e, ast.Constant) and isinstance(e.value, str):
            return e.value
        if isinstance(e, ast.Name) and e.id in out:
            return out[e.id]
        if isinstance(e, ast.BinOp) and isinstance(e.op, ast.Add):
            return ev(e.left) + ev(e.right)
        if isinstance(e, ast.JoinedStr):
            r = ""
            for v in e.values:
                if isinstance(v, ast.Constant):
                    r += v.value
                elif isinstance(v, ast.FormattedValue) and v.conversion == -1 and v.format_spec is None:
                    r += ev(v.value)
                else:
                    raise TranslateError("utils.py: constant %s not understood" % _d(e))
            return r
        raise TranslateError("utils.py: constant %s not understood" % _d(e))

    for n in _src(UTILS).body:
        tgt = val = None
        if isinstance(n, ast.AnnAssign) and isinstance(n.target, ast.Name) and n.value is not None:
            tgt, val = n.target.id, n.value
        elif isinstance(n, ast.Assign) and len(n.targets) == 1 and isinstance(n.targets[0], ast.Name):
            tgt, val = n.targets[0].id, n.value
        if tgt and tgt.isupper():
            try:
                out[tgt] = ev(val)
            except TranslateError:
                pass
    return out


# ----------------------------------------------------------------------------- AST helpers
def contains_jump(node):
    """does the statement contain `return` / `continue` (not counting nested function definitions)?"""
    stack = [node]
    while stack:
        n = stack.pop()
        if isinstance(n, (ast.Return, ast.Continue, ast.Break)):
            return True
        for ch in ast.iter_child_nodes(n):
            if not isinstance(ch, (ast.FunctionDef, ast.Lambda)):
                stack.append(ch)
    return False


def contains_yield(node):
    return any(isinstance(n, (ast.Yield, ast.YieldFrom)) for n in ast.walk(node))


def terminates(body):
    if not body:
        return False
    last = body[-1]
    if isinstance(last, (ast.Return, ast.Continue, ast.Raise)):
        return True
    if isinstance(last, ast.If):
        return terminates(last.body) and terminates(last.orelse)
    return False


def assigned_names(stmts):
    """python names (re)bound by the statements, in order of first binding; `x.append(..)`-style mutation of a
    local counts as a rebinding of x (the caller filters on what is a local)"""
    out = []

    def add(n):
        if n not in out:
            out.append(n)

    def tgt(t):
        if isinstance(t, ast.Name):
            add(t.id)
        elif isinstance(t, (ast.Tuple, ast.List)):
            for x in t.elts:
                tgt(x)
        elif isinstance(t, ast.Attribute) and isinstance(t.value, ast.Name):
            add(t.value.id)  # obj.uuid = ... rebinds obj
        elif isinstance(t, ast.Subscript) and isinstance(t.value, ast.Name):
            add(t.value.id)

    for st in stmts:
        for n in ast.walk(st):
            if isinstance(n, (ast.FunctionDef, ast.Lambda)):
                continue
            if isinstance(n, ast.Assign):
                for t in n.targets:
                    tgt(t)
            elif isinstance(n, (ast.AnnAssign, ast.AugAssign)):
                tgt(n.target)
            elif isinstance(n, ast.NamedExpr):
                tgt(n.target)
            elif isinstance(n, ast.Call) and isinstance(n.func, ast.Attribute) and isinstance(n.func.value, ast.Name) \
                    and n.func.attr in MUTATORS:
                add(n.func.value.id)
            elif isinstance(n, ast.Delete):
                for t in n.targets:
                    tgt(t)
    return out


MUTATORS = ("append", "add", "remove", "discard")


def used_names(nodes):
    out = set()
    for st in nodes:
        for n in ast.walk(st):
            if isinstance(n, ast.Name):
                out.add(n.id)
    return out


def is_none(e):
    return isinstance(e, ast.Constant) and e.value is None


def is_docstring(st):
    return isinstance(st, ast.Expr) and isinstance(st.value, ast.Constant) and isinstance(st.value.value, str)


class Level:
    def __init__(self, fall, cont=None, ret=None, needs=()):
        self.fall, self.cont, self.ret, self.needs = fall, cont, ret, set(needs)


class Blk:
    def __init__(self, fn, env, ind, snap=False, pure=False):
        self.fn, self.env, self.ind, self.snap, self.pure = fn, dict(env), ind, snap, pure
        self.lines = []

    def emit(self, text):
        self.lines.append(" " * self.ind + text)

    def eff(self, text):
        """an effectful statement: the state snapshot is out of date afterwards"""
        if self.pure:
            raise TranslateError("%s: effect in a pure context: %s" % (self.fn.sp.qual, text))
        self.emit(text)
        self.snap = False

    def bind(self, rhs, eff=False, hint="tmp"):
        """`let tmpN ← rhs` (the right-hand side may raise)"""
        if self.pure:
            raise TranslateError("%s: effect in a pure context: %s" % (self.fn.sp.qual, rhs))
        n = self.fn.fresh()
        self.emit("let %s ← %s" % (n, rhs))
        if eff:
            self.snap = False
        return n

    def state(self):
        """make sure the snapshot `s` of the state is current"""
        if self.pure:
            raise TranslateError("%s: state access in a pure context" % self.fn.sp.qual)
        if not self.snap:
            self.emit("let s ← getSt")
            self.snap = True

    def sub(self, extra=2, pure=None):
        return Blk(self.fn, self.env, self.ind + extra, self.snap, self.pure if pure is None else pure)

    def take(self, other):
        self.lines += other.lines

    def stale_aliases(self, field=None):
        for k, v in list(self.env.items()):
            if v.alias and (field is None or v.alias[0] == field):
                self.env[k] = Var(v.lean, v.ty, v.alias, stale=True)


class Fn:
    """translation of one function / method"""

    def __init__(self, sp, consts):
        self.sp, self.consts = sp, consts
        self.fdef = find_def(sp)
        self.ntmp = 0
        self.cls = sp.cls
        a = self.fdef.args
        self.kwname = None
        self.kwspec = getattr(sp, "kwargs", None)
        if a.kwarg and self.kwspec is not None:
            self.kwname = a.kwarg.arg
        elif a.kwarg:
            raise TranslateError("%s: unsupported parameter kinds" % sp.qual)
        if a.vararg or a.posonlyargs:
            raise TranslateError("%s: unsupported parameter kinds" % sp.qual)
        names = [x.arg for x in a.args] + [x.arg for x in a.kwonlyargs]
        self.selfname = None
        decos = [getattr(d, "id", None) for d in self.fdef.decorator_list]
        self.is_static = "staticmethod" in decos
        self.is_classmethod = "classmethod" in decos
        if sp.cls and not self.is_static:
            if not names:
                raise TranslateError("%s: no self parameter" % sp.qual)
            self.selfname = names[0]
            names = names[1:]
        if len(names) != len(sp.params):
            raise TranslateError("%s: expected %d parameters, found %d (%s)" % (sp.qual, len(sp.params), len(names), ", ".join(names)))
        self.pnames = names
        self.env0 = {}
        for n, t in zip(names, sp.params):
            if t is not None:
                self.env0[n] = Var(lname(n), t)
        self.wiring = set(n for n, t in zip(names, sp.params) if t is None)  # constructor parameters (other objects)
        if sp.selfty in ("stored", "wnode") and self.selfname:
            self.env0[self.selfname] = Var("self_", sp.selfty)
        if self.kwname:
            for k, t in self.kwspec.items():
                self.env0["kw:" + k] = Var(lname(k), t)
        self.is_gen = contains_yield(self.fdef)

    def fresh(self):
        self.ntmp += 1
        return "tmp%d" % self.ntmp

    def err(self, msg, node=None):
        where = (" (line %d: %s)" % (node.lineno, _d(node))) if node is not None and hasattr(node, "lineno") else ""
        return TranslateError("%s: %s%s" % (self.sp.qual, msg, where))

    # ------------------------------------------------------------------ definition
    def signature(self):
        sp = self.sp
        ps = []
        if sp.env:
            ps.append("(e : Env)")
        for c in sp.callees:
            ps.append("(%s : %s)" % (callee_param(c), SPECS[c].fn_type()))
        if sp.selfty and not sp.ctor:
            ps.append("(self_ : %s)" % lty(sp.selfty))
        for n, t in zip(self.pnames, sp.params):
            if t is not None:
                ps.append("(%s : %s)" % (lname(n), lty(t)))
        for k, t in (self.kwspec or {}).items():
            ps.append("(%s : %s)" % (lname(k), lty(t)))
        r = lty(sp.selfty) if sp.mutself else lty(sp.ret)
        if sp.kind != "pure":
            r = "M (%s)" % r
        return "def %s %s : %s :=" % (sp.lean, " ".join(ps), r)

    def translate(self):
        sp = self.sp
        body = strip_doc(self.fdef.body)
        pure = sp.kind == "pure"
        b = Blk(self, self.env0, 2, pure=pure)
        if sp.ctor and sp.selfty == "handle":
            b.emit("let self_ : Handle := ⟨[], []⟩")
        if self.is_gen:
            b.emit("let acc__ : %s := []" % lty(sp.ret))
            b.env["acc__"] = Var("acc__", sp.ret)
        lvl = Level(fall=self.fn_fall, ret=self.fn_ret)
        self.block(b, body, lvl)
        head = self.signature()
        if pure:
            return "\n".join([head] + b.lines)
        return "\n".join([head + " do"] + b.lines)

    def fn_fall(self, b):
        if self.is_gen:
            return self.final(b, "acc__")
        if self.sp.mutself:
            return self.final(b, "self_")
        if self.sp.ret != "unit":
            raise self.err("control reaches the end of a function that returns a value")
        self.final(b, "()")

    def fn_ret(self, b, value):
        if self.is_gen:
            if value is not None and not is_none(value):
                raise self.err("return with a value in a generator", value)
            return self.final(b, "acc__")
        if self.sp.mutself:
            if value is not None and not is_none(value):
                raise self.err("return with a value in a method that updates self", value)
            return self.final(b, "self_")
        if value is None or is_none(value):
            if self.sp.ret == "unit":
                return self.final(b, "()")
            if isinstance(self.sp.ret, tuple) and self.sp.ret[0] == "opt":
                return self.final(b, "none")
            raise self.err("bare return in a function that returns a value")
        x = self.ex(b, value, want=self.sp.ret)
        x = self.coerce(b, x, self.sp.ret, value)
        self.final(b, x.lean)

    def final(self, b, lean):
        b.emit(lean if b.pure else "pure %s" % paren(lean))

    # ------------------------------------------------------------------ blocks
    def block(self, b, body, lvl):
        for i, st in enumerate(body):
            rest = body[i + 1:]
            if is_docstring(st) or isinstance(st, ast.Pass):
                continue
            if isinstance(st, ast.If):
                stat = self.static_test(b, st.test)
                if stat is not None:
                    # decided by the parameter types: only the live branch is translated
                    live = st.body if stat else st.orelse
                    self.block(b, list(live) + ([] if terminates(live) else list(rest)), lvl)
                    return
                if contains_jump(st):
                    self.if_cps(b, st, rest, lvl)
                    return
                self.if_plain(b, st, rest, lvl)
                continue
            if isinstance(st, ast.Return):
                if lvl.ret is None:
                    raise self.err("return inside a loop / branch is not supported", st)
                lvl.ret(b, st.value)
                return
            if isinstance(st, ast.Continue):
                if lvl.cont is None:
                    raise self.err("continue outside a loop body", st)
                lvl.cont(b)
                return
            if isinstance(st, ast.Raise):
                self.do_raise(b, st)
                return
            self.simple(b, st, rest, lvl)
        lvl.fall(b)

    def static_test(self, b, test):
        """True / False when the test is decided by the static types (isinstance of a typed name; the keyword dict
        after all its keys have been popped), else None"""
        if isinstance(test, ast.Name) and test.id == self.kwname:
            return False
        if isinstance(test, ast.Call) and isinstance(test.func, ast.Name) and test.func.id == "isinstance" and len(test.args) == 2 \
                and isinstance(test.args[0], ast.Name) and isinstance(test.args[1], ast.Name):
            v = b.env.get(test.args[0].id)
            tn = test.args[1].id
            if v is None:
                return None
            if v.ty == "path":
                return {"str": True, "MetadorNode": False, "MetadorGroup": False, "MetadorDataset": False}.get(tn)
            if v.ty == "wnode":
                return {"str": False, "MetadorNode": True}.get(tn)
            return None
        if not any(isinstance(n, (ast.NamedExpr, ast.Yield)) for n in ast.walk(test)):
            probe = b.sub(pure=True)
            ntmp = self.ntmp
            try:
                x = self.truthy(self.ex(probe, test, want="bool"), test)
                if not probe.lines and x.lean in ("true", "false"):
                    return x.lean == "true"
            except TranslateError:
                pass
            finally:
                self.ntmp = ntmp
        return None

    def do_raise(self, b, st):
        exc = st.exc
        name = None
        if isinstance(exc, ast.Call) and isinstance(exc.func, ast.Name):
            name = exc.func.id
        elif isinstance(exc, ast.Name):
            name = exc.id
        if name not in ERRORS:
            raise self.err("raise of an exception outside the dictionary", st)
        if b.pure:
            raise self.err("raise in a pure function", st)
        b.emit("raise %s" % ERRORS[name])

    # tests that narrow an Optional ------------------------------------------------
    def narrowing(self, b, test):
        """(python name, lean of the Option value, inner type, branch taken when it is None: 'body'|'else') or None"""
        neg = False
        t = test
        if isinstance(t, ast.UnaryOp) and isinstance(t.op, ast.Not):
            neg, t = True, t.operand
        if isinstance(t, ast.Compare) and len(t.ops) == 1 and is_none(t.comparators[0]) and isinstance(t.left, ast.Name):
            v = b.env.get(t.left.id)
            if v and isinstance(v.ty, tuple) and v.ty[0] == "opt":
                isnone = isinstance(t.ops[0], ast.Is)
                if not isnone and not isinstance(t.ops[0], ast.IsNot):
                    return None
                return (t.left.id, v.lean, v.ty[1], "body" if (isnone != neg) else "else")
        if isinstance(t, ast.Name):
            v = b.env.get(t.id)
            if v and isinstance(v.ty, tuple) and v.ty[0] == "opt" and always_truthy(v.ty[1]):
                return (t.id, v.lean, v.ty[1], "body" if neg else "else")
        if isinstance(t, ast.NamedExpr) and isinstance(t.target, ast.Name):
            x = self.ex(b, t.value)
            if isinstance(x.ty, tuple) and x.ty[0] == "opt" and always_truthy(x.ty[1]):
                ln = lname(t.target.id)
                b.emit("let %s := %s" % (ln, x.lean))
                b.env[t.target.id] = Var(ln, x.ty)
                return (t.target.id, ln, x.ty[1], "body" if neg else "else")
            raise self.err("walrus test on a value that is not an Optional object", test)
        return None

    def branches(self, b, st):
        """[(header line, sub-block, python statements)] of an if statement, two entries"""
        nar = self.narrowing(b, st.test)
        if nar:
            name, lean, inner, none_branch = nar
            b_none, b_some = b.sub(4), b.sub(4)
            b_some.env[name] = Var(lname(name), inner)
            none_body, some_body = (st.body, st.orelse) if none_branch == "body" else (st.orelse, st.body)
            return "match", lean, lname(name), [(b_none, none_body), (b_some, some_body)]
        c = self.cond(b, st.test)
        return "if", c, None, [(b.sub(4), st.body), (b.sub(4), st.orelse)]

    def emit_branches(self, b, kind, head, nm, subs, prefix=""):
        do = "" if b.pure else " do"
        if kind == "match":
            b.emit("%s(match %s with" % (prefix, head))
            b.emit("  | none =>" + do)
            b.take(subs[0][0])
            b.emit("  | some %s =>%s" % (nm, do))
            b.take(subs[1][0])
            b.lines[-1] += ")"
        else:
            b.emit("%s(if %s then%s" % (prefix, head, do))
            b.take(subs[0][0])
            b.emit("  else" + do)
            b.take(subs[1][0])
            b.lines[-1] += ")"
        b.snap = False
        b.stale_aliases()

    def if_cps(self, b, st, rest, lvl):
        """an if statement with a return/continue inside: the statements after it go into the branches that fall through"""
        kind, head, nm, subs = self.branches(b, st)
        for sb, body in subs:
            self.block(sb, list(body) + ([] if terminates(body) else list(rest)), lvl)
        self.emit_branches(b, kind, head, nm, subs)

    def if_plain(self, b, st, rest, lvl):
        kind, head, nm, subs = self.branches(b, st)
        # what the branches re-bind and what is needed afterwards
        asg = [n for n in assigned_names(st.body + st.orelse) if n != "msg"]
        later = used_names(rest) | {"acc__", self.selfname or "self"} | lvl.needs
        live = []
        both = set(assigned_names(st.body)) & set(assigned_names(st.orelse))
        for n in asg:
            key = "self_" if n == self.selfname else n
            if n == self.selfname and not self.sp.mutself:
                continue
            if n != self.selfname and n not in b.env and n not in both:
                continue  # local to one branch (a later use must bind it again)
            if n in later or key == "self_":
                live.append(n)
        if self.is_gen and contains_yield(st):
            live.append("acc__")
        outs = []

        def fall(sb):
            vals = []
            for n in live:
                v = sb.env.get(n) if n != self.selfname else Var("self_", self.sp.selfty)
                if v is None:
                    raise self.err("'%s' is bound in one branch only but used afterwards" % n, st)
                vals.append(v)
            outs.append(vals)
            self.final(sb, "()" if not vals else (vals[0].lean if len(vals) == 1 else "(%s)" % ", ".join(v.lean for v in vals)))

        for sb, body in subs:
            self.block(sb, body, Level(fall=fall, needs=lvl.needs))
        if not live:
            self.emit_branches(b, kind, head, nm, subs)
            return
        lns = ["self_" if n == self.selfname else lname(n) for n in live]
        pat = lns[0] if len(lns) == 1 else "(%s)" % ", ".join(lns)
        self.emit_branches(b, kind, head, nm, subs, prefix="let %s ← " % pat)
        for k, n in enumerate(live):
            if n == self.selfname:
                continue
            tys = [o[k].ty for o in outs]
            ty = tys[0]
            for t2 in tys[1:]:
                ty = self.join_ty(ty, t2, st)
            als = [o[k].alias for o in outs]
            b.env[n] = Var(lns[k], ty, alias=als[0] if all(a == als[0] for a in als) else None)

    def join_ty(self, a, b2, node):
        if same(a, b2):
            return a if a not in PATHLIKE or a == b2 else "path"
        raise self.err("branches give '%s' different types (%s / %s)" % (_d(node), a, b2), node)

    # ------------------------------------------------------------------ conditions
    def cond(self, b, e):
        x = self.ex(b, e, want="bool")
        return self.truthy(x, e).lean

    def truthy(self, x, node):
        t = x.ty
        if t == "bool":
            return x
        if is_coll(t) or (isinstance(t, tuple) and t[0] == "dict"):
            return E("!(%s).isEmpty" % x.lean, "bool")
        if t == "str":
            return E("(%s != \"\")" % x.lean, "bool")
        if t == "nat":
            return E("(%s != 0)" % x.lean, "bool")
        if isinstance(t, tuple) and t[0] == "opt" and always_truthy(t[1]):
            return E("(%s).isSome" % x.lean, "bool")
        raise self.err("truth value of a %s is not in the dictionary" % (t,), node)


def always_truthy(t):
    """python objects of this type are never falsy (dataclass / pydantic instances, node handles, non-empty tuples)"""
    return t in ("stored", "sref", "ver", "pkg", "sinfo", "pkgmeta", "node", "group", "dataset", "uuid", "handle", "wnode")


def paren(s):
    s = s.strip()
    if s.startswith("(") and s.endswith(")") and _balanced(s[1:-1]):
        return s
    if all(ch.isalnum() or ch in "_.'" for ch in s):
        return s
    return "(%s)" % s


def _balanced(s):
    d = 0
    for ch in s:
        if ch == "(":
            d += 1
        elif ch == ")":
            d -= 1
            if d < 0:
                return False
    return d == 0


def callee_param(qual):
    return qual.replace(".", "__").replace("____", "__d_")


class Fn2(Fn):
    """simple statements and loops"""

    # --- what a target / receiver denotes ------------------------------------------------
    def place(self, b, e):
        """classify an lvalue-ish expression:
        ("raw",) | ("field", name, ty) | ("hfield", name, ty) | ("obj", cls) | ("local", pyname, Var) | None"""
        if isinstance(e, ast.Name):
            if e.id == self.selfname and self.sp.selfty in ("stored", "wnode"):
                return ("local", e.id, b.env[e.id])
            if e.id == self.selfname:
                return ("obj", self.cls)
            if e.id == "cls" and self.is_classmethod:
                return ("obj", self.cls)
            v = b.env.get(e.id)
            if v is not None and isinstance(v.ty, tuple) and v.ty[0] == "placeref":
                return v.ty[1]
            if v is not None:
                return ("local", e.id, v)
            return None
        if isinstance(e, ast.Attribute):
            base = self.place(b, e.value)
            if base and base[0] == "obj":
                d = FIELDS.get(base[1], {}).get(e.attr)
                if d is not None:
                    return d
                # properties of the wrapper classes that lead to other objects
                if (base[1], e.attr) in OBJ_PROPS:
                    return OBJ_PROPS[(base[1], e.attr)]
            return None
        return None

    def write_field(self, b, field, rhs_fmt):
        """`modC fun c => { c with field := <rhs> }`; rhs_fmt uses `{cur}` for the current value of the field"""
        b.eff("modC fun c => { c with %s := %s }" % (field, rhs_fmt.format(cur="c." + field)))
        b.stale_aliases(field)

    def set_local(self, b, name, x, node=None):
        ln = lname(name)
        if x.lean is None:
            b.env[name] = Var(None, x.ty)  # not a value of the model (e.g. a dict of fixed keyword arguments)
            return
        if isinstance(x.ty, tuple) and None in x.ty:
            b.env[name] = Var(x.lean, x.ty)  # `x: Optional[T] = None` that is assigned again before use
            return
        if x.lean in ("[]", "none"):
            b.emit("let %s : %s := %s" % (ln, lty(x.ty), x.lean))
        else:
            b.emit("let %s := %s" % (ln, x.lean))
        b.env[name] = Var(ln, x.ty, alias=x.alias)

    # --- simple statements ------------------------------------------------
    def simple(self, b, st, rest, lvl):
        if isinstance(st, ast.AnnAssign):
            if st.value is None:
                return  # a bare declaration `x: T`
            return self.assign(b, [st.target], st.value, st, ann=st.annotation)
        if isinstance(st, ast.Assign):
            return self.assign(b, st.targets, st.value, st)
        if isinstance(st, ast.AugAssign) and isinstance(st.target, ast.Name) and st.target.id == "msg":
            return
        if isinstance(st, ast.Delete):
            for t in st.targets:
                self.delete(b, t, st)
            return
        if isinstance(st, ast.Assert):
            c = self.cond(b, st.test)
            if c == "true":
                return  # statically true (e.g. the parent of a node is a group)
            b.emit("pyAssert %s" % paren(c))
            return
        if isinstance(st, ast.For):
            return self.loop(b, st, rest, lvl)
        if isinstance(st, ast.FunctionDef):
            b.env[st.name] = Var(None, ("localfn", st))
            return
        if isinstance(st, ast.Expr):
            v = st.value
            if isinstance(v, ast.Yield):
                if not self.is_gen or v.value is None:
                    raise self.err("yield not understood", st)
                x = self.ex(b, v.value, want=self.sp.ret[1])
                x = self.coerce(b, x, self.sp.ret[1], v.value)
                b.emit("let acc__ := acc__ ++ [%s]" % x.lean)
                return
            if isinstance(v, ast.YieldFrom):
                x = self.ex(b, v.value, want=self.sp.ret)
                x = self.coerce(b, x, self.sp.ret, v.value)
                b.emit("let acc__ := acc__ ++ %s" % paren(x.lean))
                return
            if isinstance(v, ast.Call):
                return self.call_stmt(b, v, st)
        raise self.err("statement not understood", st)

    def ann_type(self, ann):
        if isinstance(ann, ast.Name) and ann.id in ANNOT:
            return ANNOT[ann.id]
        return None

    def assign(self, b, targets, value, st, ann=None):
        if len(targets) != 1:
            raise self.err("chained assignment", st)
        t = targets[0]
        # self.<field> = ...   (constructor)
        if isinstance(t, ast.Attribute) and isinstance(t.value, ast.Name) and t.value.id == self.selfname:
            d = FIELDS.get(self.cls, {}).get(t.attr)
            if d is None:
                raise self.err("assignment to an attribute outside the dictionary", st)
            if d[0] in ("raw", "obj"):
                if isinstance(value, ast.Name) and (value.id in self.wiring or value.id in self.pnames):
                    return  # object wiring: `self._raw = raw_cont`
                if isinstance(value, ast.Attribute) and isinstance(value.value, ast.Name) and value.value.id in self.pnames:
                    return  # `self._mc = node._self_container`
                raise self.err("object attribute is not initialised from the constructor parameter", st)
            if d[0] == "field":
                x = self.ex(b, value, want=d[2])
                x = self.coerce(b, x, d[2], value)
                return self.write_field(b, d[1], x.lean)
            if d[0] == "hfield":
                self.need_mutself(st)
                x = self.ex(b, value, want=d[2])
                x = self.coerce(b, x, d[2], value)
                b.emit("let self_ : Handle := { self_ with %s := %s }" % (d[1], x.lean))
                return
            raise self.err("assignment to self.%s" % t.attr, st)
        # obj.uuid = ..., obj.node = ...  on a local StoredMetadata
        if isinstance(t, ast.Attribute) and isinstance(t.value, ast.Name) and t.value.id in b.env \
                and b.env[t.value.id].ty == "stored":
            fld = {"uuid": ("uuid", "uuid"), "node": ("path", "path"), "schema": ("schema", "sref")}.get(t.attr)
            if not fld:
                raise self.err("unknown attribute of StoredMetadata", st)
            x = self.coerce(b, self.ex(b, value, want=fld[1]), fld[1], value)
            v = b.env[t.value.id]
            b.emit("let %s := { %s with %s := %s }" % (v.lean, v.lean, fld[0], x.lean))
            return
        if isinstance(t, ast.Subscript):
            pl = self.place(b, t.value)
            if pl and pl[0] == "raw":
                p = self.coerce(b, self.ex(b, t.slice, want="path"), "path", t.slice)
                v = self.as_val(b, value)
                b.eff("rawSetItem %s %s" % (paren(p.lean), paren(v)))
                return
            if pl and pl[0] == "field":
                _, f, ty = pl
                if ty[0] != "dict":
                    raise self.err("item assignment on a non-dict", st)
                k = self.coerce(b, self.ex(b, t.slice, want=ty[1]), ty[1], t.slice)
                x = self.coerce(b, self.ex(b, value, want=ty[2]), ty[2], value)
                return self.write_field(b, f, "alSet {cur} %s %s" % (paren(k.lean), paren(x.lean)))
            if pl and pl[0] == "hfield":
                _, f, ty = pl
                k = self.coerce(b, self.ex(b, t.slice, want=ty[1]), ty[1], t.slice)
                x = self.coerce(b, self.ex(b, value, want=ty[2]), ty[2], value)
                self.need_mutself(st)
                b.emit("let self_ : Handle := { self_ with %s := alSet self_.%s %s %s }" % (f, f, paren(k.lean), paren(x.lean)))
                return
            raise self.err("item assignment target not understood", st)
        if isinstance(t, ast.Name) and t.id == "msg":
            b.env["msg"] = Var('""', "msg")
            return
        if isinstance(t, ast.Name) and isinstance(value, (ast.Attribute, ast.Name)):
            plv = self.place(b, value)
            if plv and plv[0] in ("raw", "obj"):
                b.env[t.id] = Var(None, ("placeref", plv))  # a local name for another object
                return
        if isinstance(t, ast.Name):
            want = self.sp.hints.get(t.id) or (self.ann_type(ann) if ann is not None else None)
            x = self.ex(b, value, want=want)
            if want is not None:
                x = self.coerce(b, x, want, value)
            return self.set_local(b, t.id, x, st)
        if isinstance(t, ast.Tuple) and all(isinstance(x, ast.Name) for x in t.elts):
            x = self.ex(b, value)
            if not (isinstance(x.ty, tuple) and x.ty[0] == "tuple" and len(x.ty) - 1 == len(t.elts)):
                # skey / epname are pairs
                pair = {"skey": ("str", ("opt", "ver")), "epname": ("str", "ver")}.get(x.ty)
                if pair is None or len(t.elts) != 2:
                    raise self.err("tuple unpacking of a %s" % (x.ty,), st)
                tys = pair
            else:
                tys = x.ty[1:]
            names = [lname(n.id) for n in t.elts]
            b.emit("let (%s) := %s" % (", ".join(names), x.lean))
            for n, ln, ty in zip(t.elts, names, tys):
                if n.id != "_":
                    b.env[n.id] = Var(ln, ty)
            return
        raise self.err("assignment target not understood", st)

    def need_mutself(self, node):
        if not self.sp.mutself:
            raise self.err("the method updates self but is not declared to", node)

    def as_val(self, b, value):
        """the dataset payload written by `raw[p] = value`"""
        x = self.ex(b, value, want="val")
        if x.ty == "val":
            return x.lean
        if x.ty in PATHLIKE:
            return "Val.target %s" % paren(x.lean)
        if x.ty == "tok":
            return "Val.data %s" % paren(x.lean)
        raise self.err("value written to the container is not in the dictionary (%s)" % (x.ty,), value)

    def delete(self, b, t, st):
        if not isinstance(t, ast.Subscript):
            raise self.err("del target", st)
        pl = self.place(b, t.value)
        if pl and pl[0] == "raw":
            p = self.coerce(b, self.ex(b, t.slice, want="path"), "path", t.slice)
            b.eff("rawDelItem %s" % paren(p.lean))
            return
        if pl and pl[0] == "field" and pl[2][0] == "dict":
            _, f, ty = pl
            k = self.coerce(b, self.ex(b, t.slice, want=ty[1]), ty[1], t.slice)
            b.state()
            b.emit("requireKey (alGet s.c.%s %s).isSome" % (f, paren(k.lean)))
            return self.write_field(b, f, "alErase {cur} %s" % paren(k.lean))
        if pl and pl[0] == "hfield":
            _, f, ty = pl
            k = self.coerce(b, self.ex(b, t.slice, want=ty[1]), ty[1], t.slice)
            self.need_mutself(st)
            b.emit("requireKey (alGet self_.%s %s).isSome" % (f, paren(k.lean)))
            b.emit("let self_ : Handle := { self_ with %s := alErase self_.%s %s }" % (f, f, paren(k.lean)))
            return
        raise self.err("del target not understood", st)

    # --- calls used as statements ------------------------------------------------
    def call_stmt(self, b, call, st):
        f = call.func
        if isinstance(f, ast.Attribute) and f.attr == "visititems" and len(call.args) == 1 and not call.keywords:
            return self.visititems_stmt(b, call, st)
        if isinstance(f, ast.Attribute) and f.attr in MUTATORS and len(call.args) == 1 and not call.keywords:
            return self.mutate(b, f.value, f.attr, call.args[0], st)
        x = self.ex(b, call)
        if x.ty != "unit" and x.lean not in ("()",):
            # a value that is thrown away: keep the evaluation (it may raise), drop the result
            if x.lean.startswith("tmp"):
                return
            b.emit("let _ := %s" % x.lean)

    def mutate(self, b, recv, op, arg, st):
        """recv.add(x) / .remove(x) / .discard(x) / .append(x)"""
        # 1. a cache field that is a set:  self._schemas.add(x)
        pl = self.place(b, recv)
        if pl and pl[0] == "field" and pl[2][0] == "set":
            _, f, ty = pl
            a = self.coerce(b, self.ex(b, arg, want=ty[1]), ty[1], arg)
            if op == "add":
                return self.write_field(b, f, "setAdd {cur} %s" % paren(a.lean))
            if op == "discard":
                return self.write_field(b, f, "setRemove {cur} %s" % paren(a.lean))
            if op == "remove":
                b.state()
                b.emit("requireKey (decide (%s ∈ s.c.%s))" % (a.lean, f))
                return self.write_field(b, f, "setRemove {cur} %s" % paren(a.lean))
        # 2. an entry of a cache dict:  self._children[p].add(x)
        if isinstance(recv, ast.Subscript):
            pl = self.place(b, recv.value)
            if pl and pl[0] == "field" and pl[2][0] == "dict" and is_coll(pl[2][2]):
                _, f, ty = pl
                k = self.coerce(b, self.ex(b, recv.slice, want=ty[1]), ty[1], recv.slice)
                b.state()
                cur = b.bind("dictGetItem s.c.%s %s" % (f, paren(k.lean)))
                new = self.coll_op(b, cur, ty[2], op, arg, st)
                return self.write_field(b, f, "alSet {cur} %s %s" % (paren(k.lean), paren(new)))
        # 3. a local
        if isinstance(recv, ast.Name) and recv.id in b.env:
            v = b.env[recv.id]
            if not is_coll(v.ty):
                raise self.err("mutation of a local that is not a list / set", st)
            if v.stale:
                raise self.err("'%s' aliases a cache entry that may have been replaced since" % recv.id, st)
            new = self.coll_op(b, v.lean, v.ty, op, arg, st)
            b.emit("let %s := %s" % (v.lean, new))
            if v.alias:
                f, klean = v.alias
                b.eff("modC fun c => { c with %s := alSet c.%s %s %s }" % (f, f, paren(klean), v.lean))
                # other aliases of the same field are out of date now, this one is not
                for k2, v2 in list(b.env.items()):
                    if v2.alias and v2.alias[0] == f and k2 != recv.id:
                        b.env[k2] = Var(v2.lean, v2.ty, v2.alias, stale=True)
            return
        raise self.err("mutating call not understood", st)

    def coll_op(self, b, cur, ty, op, arg, st):
        a = self.coerce(b, self.ex(b, arg, want=ty[1]), ty[1], arg)
        if ty[0] == "set":
            if op == "add":
                return "setAdd %s %s" % (cur, paren(a.lean))
            if op == "discard":
                return "setRemove %s %s" % (cur, paren(a.lean))
            if op == "remove":
                return b.bind("pySetRemove %s %s" % (cur, paren(a.lean)))
        if ty[0] == "list" and op == "append":
            return "%s ++ [%s]" % (cur, a.lean)
        raise self.err("'%s' on a %s" % (op, ty[0]), st)

    def visit_nodes(self, b, grp, st):
        """(lean list of the nodes visited, type of a node) for `grp.visititems`"""
        if grp.ty in ("group", "node"):
            b.state()
            return "(visitNodes s.raw %s)" % paren(grp.lean), "node"
        raise self.err("visititems on a %s" % (grp.ty,), st)

    def visititems_stmt(self, b, call, st):
        """`grp.visititems(callback)` with a local callback that appends to a local list"""
        fnarg = call.args[0]
        if not (isinstance(fnarg, ast.Name) and fnarg.id in b.env and isinstance(b.env[fnarg.id].ty, tuple)
                and b.env[fnarg.id].ty[0] == "localfn"):
            raise self.err("visititems callback is not a local function", st)
        fd = b.env[fnarg.id].ty[1]
        if len(fd.args.args) != 2 or fd.args.vararg or fd.args.kwarg or fd.args.kwonlyargs or fd.args.defaults:
            raise self.err("visititems callback must take (name, node)", st)
        grp = self.ex(b, call.func.value)
        nodes, nty = self.visit_nodes(b, grp, st)
        body = strip_doc(fd.body)
        pnames = [a.arg for a in fd.args.args]
        if pnames[0] in used_names(body):
            raise self.err("the visititems callback uses the relative name", st)
        accs = [n for n in assigned_names(body) if n in b.env and n not in pnames and b.env[n].lean is not None]
        if len(accs) != 1:
            raise self.err("the visititems callback must update exactly one local list (found: %s)" % ", ".join(accs), st)
        acc = accs[0]
        accl = b.env[acc].lean
        nl = lname(pnames[1])
        sb = b.sub(4)
        sb.snap = False
        sb.env[pnames[1]] = Var(nl, nty)
        sb.env.pop(pnames[0], None)

        def done(x):
            self.final(x, accl)

        def ret(x, value):
            if value is not None and not is_none(value):
                raise self.err("a visititems callback that returns a value stops the traversal: not supported", st)
            self.final(x, accl)

        self.block(sb, body, Level(fall=done, ret=ret, needs=[acc]))
        b.emit("let %s ← pyFoldM %s %s (fun %s %s => do" % (accl, nodes, accl, accl, nl))
        b.take(sb)
        b.lines[-1] += ")"
        b.snap = False
        b.stale_aliases()

    # --- loops ------------------------------------------------
    def loop(self, b, st, rest, lvl):
        if st.orelse:
            raise self.err("for … else", st)
        it = self.iterable(b, st.iter)
        elem_ty = it.ty[1]
        # loop variable(s)
        if isinstance(st.target, ast.Name):
            pat = lname(st.target.id)
            binds = {st.target.id: Var(pat, elem_ty)}
        elif isinstance(st.target, ast.Tuple) and all(isinstance(x, ast.Name) for x in st.target.elts) \
                and isinstance(elem_ty, tuple) and elem_ty[0] == "tuple" and len(elem_ty) - 1 == len(st.target.elts):
            names = [lname(x.id) for x in st.target.elts]
            pat = "(%s)" % ", ".join(names)
            binds = {x.id: Var(n, t) for x, n, t in zip(st.target.elts, names, elem_ty[1:])}
        else:
            raise self.err("loop target not understood", st)
        # pure generator loops: `for x in it: yield e`
        body = [x for x in st.body if not is_docstring(x)]
        if self.is_gen and contains_yield(st):
            if len(body) == 1 and isinstance(body[0], ast.Expr) and isinstance(body[0].value, ast.Yield) and body[0].value.value is not None:
                sb = b.sub(pure=True)
                sb.env.update(binds)
                x = self.ex(sb, body[0].value.value, want=self.sp.ret[1])
                x = self.coerce(sb, x, self.sp.ret[1], st)
                b.emit("let acc__ := acc__ ++ (%s).map (fun %s => %s)" % (it.lean, pat, x.lean))
                return
            raise self.err("a loop that yields must consist of the yield only", st)
        # accumulators: locals bound before the loop and re-bound in its body
        accs = [n for n in assigned_names(body) if (n in b.env and b.env[n].ty and not isinstance(b.env[n].ty, tuple) or
                                                   n in b.env and isinstance(b.env[n].ty, tuple) and b.env[n].ty[0] != "localfn")
                and n not in binds]
        if self.selfname in accs:
            accs.remove(self.selfname)
        if self.sp.mutself and self.body_updates_self(body):
            accs.append("__self__")
        if len(accs) > 1:
            raise self.err("loop re-binds more than one local (%s)" % ", ".join(accs), st)
        sb = b.sub(4)
        sb.snap = False
        sb.env.update(binds)
        for k, v in list(sb.env.items()):
            if v.alias:
                sb.env[k] = Var(v.lean, v.ty, v.alias, stale=True)
        if not accs:
            done = lambda x: self.final(x, "()")  # noqa: E731
            self.block(sb, body, Level(fall=done, cont=done))
            b.emit("forEachM %s (fun %s => do" % (paren(it.lean), pat))
            b.take(sb)
            b.lines[-1] += ")"
            b.snap = False
            b.stale_aliases()
            return
        acc = accs[0]
        accl = "self_" if acc == "__self__" else b.env[acc].lean

        def done(x):
            self.final(x, accl)

        self.block(sb, body, Level(fall=done, cont=done, needs=[] if acc == "__self__" else [acc]))
        b.emit("let %s ← pyFoldM %s %s (fun %s %s => do" % (accl, paren(it.lean), accl, accl, pat))
        b.take(sb)
        b.lines[-1] += ")"
        b.snap = False
        b.stale_aliases()

    def body_updates_self(self, body):
        for st in body:
            for n in ast.walk(st):
                if isinstance(n, (ast.Assign, ast.Delete, ast.AnnAssign)):
                    tg = n.targets if not isinstance(n, ast.AnnAssign) else [n.target]
                    for t in tg:
                        t0 = t.value if isinstance(t, ast.Subscript) else t
                        if isinstance(t0, ast.Attribute) and isinstance(t0.value, ast.Name) and t0.value.id == self.selfname \
                                and FIELDS.get(self.cls, {}).get(t0.attr, ("",))[0] == "hfield":
                            return True
                if isinstance(n, ast.Call) and isinstance(n.func, ast.Attribute) and isinstance(n.func.value, ast.Name) \
                        and n.func.value.id == self.selfname:
                    q = "%s.%s" % (self.cls, n.func.attr)
                    if q in SPECS and SPECS[q].mutself:
                        return True
        return False

    def iterable(self, b, e):
        """the list a `for` statement / comprehension runs over (evaluated once, before the loop)"""
        x = self.ex(b, e)
        if isinstance(x.ty, tuple) and x.ty[0] == "dict":
            return E("(%s).map (·.1)" % x.lean, ("list", x.ty[1]))
        if x.ty == "plugins_c":
            return E(x.lean, ("list", "sref"))
        if is_coll(x.ty):
            return E(x.lean, x.ty)
        raise self.err("iteration over a %s" % (x.ty,), e)


OBJ_PROPS = {}
BASES = {"MetadorGroup": "MetadorNode", "MetadorContainer": "MetadorGroup"}


class Fn3(Fn2):
    """expressions"""

    def coerce(self, b, x, want, node=None):
        if want is None or same(x.ty, want):
            return x
        if isinstance(x.ty, tuple) and x.ty[0] == "opt" and x.ty[1] is None and isinstance(want, tuple) and want[0] == "opt":
            return E(x.lean, want)
        if isinstance(x.ty, tuple) and x.ty[0] in ("list", "set") and x.ty[1] is None and isinstance(want, tuple) \
                and want[0] in ("list", "set", "dict"):
            return E(x.lean, want)
        if x.ty == "emptydict" and isinstance(want, tuple) and want[0] in ("dict", "set", "list"):
            return E("[]", want)
        if x.ty == "pkgmeta" and want == "plugins_c":
            return E("(%s).plugins" % x.lean, want)
        if x.ty == "plugins_c" and same(want, ("list", "sref")):
            return E(x.lean, want)
        if x.ty == ("tuple", "str", "ver") and want == "pkg":
            return E("(PkgId.mk (%s).1 (%s).2)" % (x.lean, x.lean), want)
        if x.ty == ("tuple", "str", "ver") and want == "epname":
            return E(x.lean, want)
        if x.ty == "epname" and want == ("tuple", "str", "ver"):
            return E(x.lean, want)
        if x.ty == ("tuple", "str", ("opt", "ver")) and want == "skey":
            return E(x.lean, want)
        if x.ty == "skey" and want == ("tuple", "str", ("opt", "ver")):
            return E(x.lean, want)
        if x.ty == "sref" and want == "skey":
            return E("(%s.name, some %s.ver)" % (paren(x.lean), paren(x.lean)), want)
        if x.ty == "str" and want == "skey":
            return E("(%s, none)" % x.lean, want)
        if isinstance(want, tuple) and want[0] == "opt" and same(x.ty, want[1]):
            return E("(some %s)" % paren(x.lean), want)
        if isinstance(want, tuple) and isinstance(x.ty, tuple) and {want[0], x.ty[0]} == {"list", "set"} and same(x.ty[1], want[1]):
            return E(x.lean, want)  # list(a_set) / iteration order = insertion order (documented)
        if want == "bool":
            return self.truthy(x, node)
        raise self.err("a %s where a %s is expected" % (x.ty, want), node)

    def ex(self, b, e, want=None):
        m = getattr(self, "ex_" + type(e).__name__, None)
        if m is None:
            raise self.err("expression not understood", e)
        return m(b, e, want)

    # --- atoms ------------------------------------------------
    def ex_Constant(self, b, e, want):
        v = e.value
        if v is None:
            return E("none", want if isinstance(want, tuple) and want[0] == "opt" else ("opt", None))
        if v is True or v is False:
            return E("true" if v else "false", "bool")
        if isinstance(v, str):
            if v in PATH_CONSTS and want in PATHLIKE:
                return E(PATH_CONSTS[v], "path")
            return E(lean_str(v), "str")
        if isinstance(v, int) and v >= 0:
            return E(str(v), "nat")
        raise self.err("constant not in the dictionary", e)

    def ex_Name(self, b, e, want):
        if e.id in b.env:
            v = b.env[e.id]
            if v.lean is None:
                raise self.err("local function used as a value", e)
            return E(v.lean, v.ty, alias=v.alias)
        if e.id in ("schemas", "M", "json"):
            return E(None, ("mod", e.id))
        if e.id in ("PluginPkgMeta", "StoredMetadata", "PluginRef"):
            return E(None, ("cls", e.id))
        if e.id == self.selfname:
            raise self.err("an attribute / use of self that is not in the dictionary", e)
        raise self.err("name '%s' is not bound" % e.id, e)

    def ex_Tuple(self, b, e, want):
        xs = [self.ex(b, x) for x in e.elts]
        return E("(%s)" % ", ".join(x.lean for x in xs), ("tuple",) + tuple(x.ty for x in xs))

    def ex_List(self, b, e, want):
        if not e.elts:
            return E("[]", want if is_coll(want) else ("list", None))
        inner = want[1] if is_coll(want) else None
        xs = [self.ex(b, x, want=inner) for x in e.elts]
        return E("[%s]" % ", ".join(x.lean for x in xs), ("list", xs[0].ty))

    def ex_Dict(self, b, e, want):
        if e.keys:
            raise self.err("dict literal", e)
        return E("[]", "emptydict")

    def ex_Attribute(self, b, e, want):
        pl = self.place(b, e)
        if pl:
            if pl[0] == "field":
                b.state()
                return E("s.c.%s" % pl[1], pl[2])
            if pl[0] == "hfield":
                return E("self_.%s" % pl[1], pl[2])
            if pl[0] in ("raw", "obj"):
                return E(None, pl)
        x = self.ex(b, e.value)
        t, a = x.ty, e.attr
        if t == ("mod", "M"):
            if a not in self.consts:
                raise self.err("constant of utils.py not found", e)
            v = self.consts[a]
            if v in PATH_CONSTS:
                return E(PATH_CONSTS[v], "path")
            if v in PREF_CONSTS:
                return E(PREF_CONSTS[v], "pref")
            raise self.err("value %r of utils.%s is not in the dictionary" % (v, a), e)
        if t == ("mod", "schemas") and a == "name":
            return E(None, "schemagroup")
        if t == "stored":
            r = {"uuid": ("uuid", "uuid"), "schema": ("schema", "sref"), "node": ("path", "dataset")}.get(a)
            if r:
                return E("%s.%s" % (paren(x.lean), r[0]), r[1])
        if t in PATHLIKE:
            if a == "name":
                return E(x.lean, "path")
            if a == "parent":
                return E("(%s).dropLast" % x.lean, "group")
        if t == "sref":
            r = {"name": ("name", "str"), "version": ("ver", "ver")}.get(a)
            if r:
                return E("%s.%s" % (paren(x.lean), r[0]), r[1])
        if t == "pkgmeta":
            r = {"name": ("id.name", "str"), "version": ("id.ver", "ver"), "plugins": ("plugins", "pluginsdict")}.get(a)
            if r:
                return E("%s.%s" % (paren(x.lean), r[0]), r[1])
        if t == "plugins_c" and a == "plugins":
            return E(x.lean, "pluginsdict")
        if t == "sinfo" and a == "Plugin":
            return E(x.lean, "plugininfo")
        if t == "plugininfo" and a == "auxiliary":
            return E("%s.aux" % paren(x.lean), "bool")
        if isinstance(t, tuple) and t[0] == "opt" and t[1] is not None:
            # attribute of an Optional: AttributeError on None
            n = b.bind("optAttr %s" % paren(x.lean))
            b.env["__opt"] = Var(n, t[1])
            try:
                return self.ex_Attribute(b, ast.Attribute(value=ast.Name(id="__opt", ctx=ast.Load()), attr=a, ctx=ast.Load()), want)
            finally:
                del b.env["__opt"]
        raise self.err("attribute '%s' of a %s is not in the dictionary" % (a, t), e)

    def ex_Subscript(self, b, e, want):
        pl = self.place(b, e.value)
        sl = e.slice
        if pl and pl[0] == "raw":
            p = self.coerce(b, self.ex(b, sl, want="path"), "path", sl)
            b.state()
            return E(b.bind("rawGetItem s.raw %s" % paren(p.lean)), "node")
        if pl and pl[0] == "field" and pl[2][0] == "dict":
            _, f, ty = pl
            k = self.coerce(b, self.ex(b, sl, want=ty[1]), ty[1], sl)
            b.state()
            n = b.bind("dictGetItem s.c.%s %s" % (f, paren(k.lean)))
            return E(n, ty[2], alias=(f, k.lean) if is_coll(ty[2]) else None)
        if pl and pl[0] == "hfield" and pl[2][0] == "dict":
            _, f, ty = pl
            k = self.coerce(b, self.ex(b, sl, want=ty[1]), ty[1], sl)
            return E(b.bind("dictGetItem self_.%s %s" % (f, paren(k.lean))), ty[2])
        # x.split("/")[-1]
        if isinstance(e.value, ast.Call) and isinstance(e.value.func, ast.Attribute) and e.value.func.attr == "split" \
                and len(e.value.args) == 1 and isinstance(e.value.args[0], ast.Constant) and e.value.args[0].value == "/" \
                and isinstance(sl, ast.UnaryOp) and isinstance(sl.op, ast.USub) and isinstance(sl.operand, ast.Constant) and sl.operand.value == 1:
            x = self.ex(b, e.value.func.value)
            if x.ty in PATHLIKE and want == "epname":
                return E(b.bind("lastEpName %s" % paren(x.lean)), "epname")
            if x.ty in PATHLIKE and want == "lastseg":
                return E("(%s).getLast?" % x.lean, "lastseg")  # "" for the root
            raise self.err("last path segment: expected type unknown (add a hint)", e)
        x = self.ex(b, e.value)
        if isinstance(sl, ast.Constant) and sl.value in SEG_CONSTS and x.ty in PATHLIKE:
            b.state()
            return E(b.bind("rawGetItem s.raw (joinKey %s %s)" % (paren(x.lean), SEG_CONSTS[sl.value])), "node")
        if x.ty == ("obj", "TOCPackages"):
            k = self.coerce(b, self.ex(b, sl, want="pkg"), "pkg", sl)
            b.state()
            return E(b.bind("dictGetItem s.c.pkginfos %s" % paren(k.lean)), "plugins_c")
        if isinstance(sl, ast.Tuple) and not sl.elts and x.ty in PATHLIKE:
            b.state()
            return E(b.bind("dsRead s.raw %s" % paren(x.lean)), "val")
        if x.ty == "pluginsdict":
            k = self.ex(b, sl)
            if k.ty != "schemagroup":
                raise self.err("plugins[...] of another group than `schemas`", e)
            return E(x.lean, ("list", "sref"))
        if is_coll(x.ty) and isinstance(sl, ast.Slice) and sl.lower is None and sl.step is None and sl.upper is not None:
            n = self.ex(b, sl.upper, want="nat")
            if n.ty != "nat":
                raise self.err("slice bound is not a natural number", e)
            return E("(%s).take %s" % (x.lean, paren(n.lean)), x.ty)
        if x.ty in ("skey", "epname") and isinstance(sl, ast.Constant) and sl.value in (0, 1):
            tys = {"skey": ("str", ("opt", "ver")), "epname": ("str", "ver")}[x.ty]
            return E("%s.%d" % (paren(x.lean), sl.value + 1), tys[sl.value])
        raise self.err("subscript not understood (%s)" % (x.ty,), e)

    def ex_BinOp(self, b, e, want):
        if isinstance(e.op, ast.Add):
            l, r = self.ex(b, e.left), self.ex(b, e.right)
            if l.ty == "nat" and r.ty == "nat":
                return E("(%s + %s)" % (l.lean, r.lean), "nat")
        raise self.err("arithmetic not in the dictionary", e)

    def ex_UnaryOp(self, b, e, want):
        if isinstance(e.op, ast.Not):
            x = self.truthy(self.ex(b, e.operand, want="bool"), e.operand)
            if x.lean in ("true", "false"):
                return E("false" if x.lean == "true" else "true", "bool")
            if x.lean.startswith("!") and _balanced(x.lean[1:]):
                return E(x.lean[1:], "bool")
            return E("!%s" % paren(x.lean), "bool")
        raise self.err("unary operator", e)

    def ex_IfExp(self, b, e, want):
        if mentions_state(e, self.selfname):
            b.state()
        # `a if a and P(a) else None`-style narrowing is handled by BoolOp
        c = self.cond(b, e.test)
        sb1, sb2 = b.sub(4), b.sub(4)
        x1 = self.ex(sb1, e.body, want=want)
        x2 = self.ex(sb2, e.orelse, want=want)
        ty = x1.ty
        if not same(x1.ty, x2.ty):
            if isinstance(x2.ty, tuple) and x2.ty[0] == "opt":
                ty = x2.ty if x2.ty[1] is not None else (x1.ty if isinstance(x1.ty, tuple) and x1.ty[0] == "opt" else ("opt", x1.ty))
            elif isinstance(x1.ty, tuple) and x1.ty[0] == "opt":
                ty = x1.ty if x1.ty[1] is not None else ("opt", x2.ty)
            x1, x2 = self.coerce(sb1, x1, ty, e.body), self.coerce(sb2, x2, ty, e.orelse)
        if not sb1.lines and not sb2.lines:
            return E("(if %s then %s else %s)" % (c, x1.lean, x2.lean), ty)
        n = self.fresh()
        b.emit("let %s ← (if %s then do" % (n, c))
        self.final(sb1, x1.lean)
        b.take(sb1)
        b.emit("  else do")
        self.final(sb2, x2.lean)
        b.take(sb2)
        b.lines[-1] += ")"
        b.snap = False
        return E(n, ty)

    def ex_BoolOp(self, b, e, want):
        if mentions_state(e, self.selfname):
            b.state()
        is_and = isinstance(e.op, ast.And)
        return self.boolchain(b, list(e.values), is_and)

    def boolchain(self, b, vals, is_and):
        first = vals[0]
        if len(vals) == 1:
            return self.truthy(self.ex(b, first, want="bool"), first)
        # narrowing: `x and P(x)` with x an Optional object
        if is_and and isinstance(first, ast.Name) and first.id in b.env:
            v = b.env[first.id]
            if isinstance(v.ty, tuple) and v.ty[0] == "opt" and always_truthy(v.ty[1]):
                sb = b.sub(4)
                sb.env[first.id] = Var(v.lean, v.ty[1])
                r = self.boolchain(sb, vals[1:], is_and)
                if not sb.lines:
                    return E("(match %s with | some %s => %s | none => false)" % (v.lean, v.lean, r.lean), "bool")
                raise self.err("effect after narrowing in a boolean expression", first)
        x = self.truthy(self.ex(b, first, want="bool"), first)
        sb = b.sub(4)
        r = self.boolchain(sb, vals[1:], is_and)
        if not sb.lines:
            return E("(%s %s %s)" % (x.lean, "&&" if is_and else "||", r.lean), "bool")
        n = self.fresh()
        if is_and:
            b.emit("let %s ← (if %s then do" % (n, x.lean))
            self.final(sb, r.lean)
            b.take(sb)
            b.emit("  else pure false)")
        else:
            b.emit("let %s ← (if %s then pure true else do" % (n, x.lean))
            self.final(sb, r.lean)
            b.take(sb)
            b.lines[-1] += ")"
        b.snap = False
        return E(n, "bool")

    def ex_Compare(self, b, e, want):
        if len(e.ops) != 1:
            raise self.err("chained comparison", e)
        op, l, r = e.ops[0], e.left, e.comparators[0]
        if isinstance(op, (ast.Is, ast.IsNot)) and is_none(r):
            x = self.ex(b, l)
            if isinstance(x.ty, tuple) and x.ty[0] == "opt":
                return E("(%s).%s" % (x.lean, "isNone" if isinstance(op, ast.Is) else "isSome"), "bool")
            if always_truthy(x.ty) or x.ty in LEAN_TY:
                return E("false" if isinstance(op, ast.Is) else "true", "bool")
            raise self.err("`is None` on a %s" % (x.ty,), e)
        if isinstance(op, (ast.In, ast.NotIn)):
            neg = isinstance(op, ast.NotIn)
            pl = self.place(b, r)
            if pl and pl[0] == "raw":
                p = self.coerce(b, self.ex(b, l, want="path"), "path", l)
                b.state()
                res = "has s.raw %s" % paren(p.lean)
            else:
                c = self.ex(b, r)
                res = self.member(b, l, c, e)
            return E("!%s" % paren(res) if neg else "(%s)" % res, "bool")
        if isinstance(op, (ast.Eq, ast.NotEq)):
            x = self.ex(b, l)
            y = self.ex(b, r, want=x.ty)
            if x.ty == "skey" and y.ty == "str":
                # a (name, version) tuple never equals a str
                return E("false" if isinstance(op, ast.Eq) else "true", "bool")
            if not same(x.ty, y.ty):
                y = self.coerce(b, y, x.ty, r)
            return E("(%s %s %s)" % (x.lean, "==" if isinstance(op, ast.Eq) else "!=", y.lean), "bool")
        raise self.err("comparison operator", e)

    def member(self, b, l, c, node):
        if isinstance(c.ty, tuple) and c.ty[0] == "dict":
            k = self.coerce(b, self.ex(b, l, want=c.ty[1]), c.ty[1], l)
            return "(alGet %s %s).isSome" % (paren(c.lean), paren(k.lean))
        if is_coll(c.ty) or c.ty == "plugins_c":
            inner = c.ty[1] if is_coll(c.ty) else "sref"
            k = self.coerce(b, self.ex(b, l, want=inner), inner, l)
            return "decide (%s ∈ %s)" % (k.lean, c.lean)
        if c.ty == "metaobj":
            return self.meta_contains(b, l, c, node)
        raise self.err("membership in a %s" % (c.ty,), node)

    def meta_contains(self, b, l, c, node):
        raise self.err("`in node.meta` is not in the dictionary", node)

    def ex_NamedExpr(self, b, e, want):
        raise self.err("assignment expression outside an if test", e)

    # --- f-strings that build paths ------------------------------------------------
    def ex_JoinedStr(self, b, e, want):
        if want == "msg":
            return E('""', "msg")  # text of an error message: not modelled
        toks = []  # str pieces and E pieces
        for v in e.values:
            if isinstance(v, ast.Constant) and isinstance(v.value, str):
                toks.append(v.value)
            elif isinstance(v, ast.FormattedValue) and v.conversion == -1 and v.format_spec is None:
                toks.append(self.ex(b, v.value))
            else:
                raise self.err("f-string piece not understood", e)
        segs = [[]]
        for t in toks:
            if isinstance(t, str):
                parts = t.split("/")
                for i, p in enumerate(parts):
                    if i > 0:
                        segs.append([])
                    if p:
                        segs[-1].append(p)
            else:
                segs[-1].append(t)
        head = segs[0]
        if len(head) != 1 or isinstance(head[0], str) or head[0].ty not in PATHLIKE:
            raise self.err("f-string does not start with a path", e)
        cur = head[0].lean
        for sg in segs[1:]:
            if len(sg) == 1 and isinstance(sg[0], str) and sg[0] in SEG_CONSTS:
                cur = "joinKey %s %s" % (paren(cur), SEG_CONSTS[sg[0]])
            elif len(sg) == 1 and isinstance(sg[0], E) and sg[0].ty in ("epname", ("tuple", "str", "ver")):
                cur = "joinEp %s %s" % (paren(cur), paren(sg[0].lean))
            elif len(sg) == 1 and isinstance(sg[0], E) and sg[0].ty == "uuid":
                cur = "joinUuid %s %s" % (paren(cur), paren(sg[0].lean))
            elif len(sg) == 3 and isinstance(sg[0], E) and sg[0].ty in ("epname", ("tuple", "str", "ver")) and sg[1] == "=" \
                    and isinstance(sg[2], E) and sg[2].ty == "uuid":
                cur = "joinObj %s %s %s" % (paren(cur), paren(sg[0].lean), paren(sg[2].lean))
            else:
                raise self.err("path segment of an f-string is not in the dictionary", e)
        return E("(%s)" % cur, "path")

    # --- comprehensions, lambdas ------------------------------------------------
    def comp(self, b, e):
        """[elt for x in it if c ...] -> (lean list, elem type, element may raise?)"""
        if len(e.generators) != 1:
            raise self.err("nested comprehension", e)
        g = e.generators[0]
        if g.is_async or not isinstance(g.target, ast.Name):
            raise self.err("comprehension target", e)
        it = self.iterable(b, g.iter)
        if mentions_state(e, self.selfname):
            b.state()
        ln = lname(g.target.id)
        lst = it.lean
        sb = b.sub(pure=True)
        sb.snap = b.snap
        sb.env[g.target.id] = Var(ln, it.ty[1])
        for c in g.ifs:
            cx = self.truthy(self.ex(sb, c, want="bool"), c)
            lst = "(%s).filter (fun %s => %s)" % (lst, ln, cx.lean)
        if isinstance(e.elt, ast.Name) and e.elt.id == g.target.id:
            return E(lst, ("list", it.ty[1]))
        eb = b.sub(4)
        eb.env[g.target.id] = Var(ln, it.ty[1])
        x = self.ex(eb, e.elt)
        if not eb.lines:
            return E("(%s).map (fun %s => %s)" % (lst, ln, x.lean), ("list", x.ty))
        n = self.fresh()
        b.emit("let %s ← pyMapM %s (fun %s => do" % (n, paren(lst), ln))
        self.final(eb, x.lean)
        b.take(eb)
        b.lines[-1] += ")"
        return E(n, ("list", x.ty))

    def ex_ListComp(self, b, e, want):
        return self.comp(b, e)

    def ex_SetComp(self, b, e, want):
        x = self.comp(b, e)
        return E("pySetOf %s" % paren(x.lean), ("set", x.ty[1]))

    def ex_GeneratorExp(self, b, e, want):
        return self.comp(b, e)

    def lam(self, b, f, arg_ty):
        """a lambda / function reference applied to one element: returns fun(lean var) -> E"""
        if isinstance(f, ast.Lambda):
            if len(f.args.args) != 1:
                raise self.err("lambda with more than one parameter", f)
            pn = f.args.args[0].arg
            ln = lname(pn)
            sb = b.sub(pure=True)
            sb.snap = b.snap
            sb.env[pn] = Var(ln, arg_ty)
            x = self.ex(sb, f.body)
            return ln, x
        raise self.err("function argument not understood", f)


def mentions_state(e, selfname):
    return any(isinstance(n, ast.Name) and n.id == selfname for n in ast.walk(e))


class Fn4(Fn3):
    """calls"""

    def args_of(self, call, qual, b):
        """positional argument expressions of a call to a function of the source (keywords and defaults resolved
        from the callee's definition)"""
        sp = SPECS[qual]
        fd = find_def(sp)
        a = fd.args
        names = [x.arg for x in a.args]
        if sp.cls and "staticmethod" not in [getattr(d, "id", None) for d in fd.decorator_list]:
            names = names[1:]
        defaults = dict(zip(reversed(names), reversed(a.defaults))) if a.defaults else {}
        for x, dv in zip(a.kwonlyargs, a.kw_defaults):
            names.append(x.arg)
            if dv is not None:
                defaults[x.arg] = dv
        out = {}
        pos = []
        for x in call.args:
            if isinstance(x, ast.Starred):
                v = self.ex(b, x.value)
                if v.ty != "pkg":
                    raise self.err("*-argument that is not a package (name, version) pair", call)
                pos += [E("%s.name" % paren(v.lean), "str"), E("%s.ver" % paren(v.lean), "ver")]
            else:
                pos.append(x)
        if len(pos) > len(names):
            raise self.err("too many arguments for %s" % qual, call)
        for n, x in zip(names, pos):
            out[n] = x
        for kw in call.keywords:
            if kw.arg is None or kw.arg not in names or kw.arg in out:
                raise self.err("keyword argument of %s" % qual, call)
            out[kw.arg] = kw.value
        res = []
        for n, t in zip(names, sp.params):
            if t is None:
                continue
            if n not in out:
                if n not in defaults:
                    raise self.err("missing argument '%s' of %s" % (n, qual), call)
                out[n] = defaults[n]
            v = out[n]
            x = v if isinstance(v, E) else self.ex(b, v, want=t)
            res.append(self.coerce(b, x, t, call))
        return res

    def call_source_fn(self, b, call, qual, recv=None):
        """a call of a translated / specified function of the source"""
        sp = SPECS[qual]
        args = self.args_of(call, qual, b)
        al = [paren(a.lean) for a in args]
        if sp.selfty:
            if recv is None:
                raise self.err("method %s needs a receiver" % qual, call)
            al = [paren(recv)] + al
        if sp.kind == "pure":
            GEN_NEEDS.add(qual)
            return E("(%s)" % " ".join([sp.lean] + al), sp.ret)
        if qual not in self.sp.callees:
            raise self.err("call of %s, which is not among the callees this function is known to have" % qual, call)
        if b.pure:
            raise self.err("effectful call in a pure context", call)
        rhs = " ".join([callee_param(qual)] + al)
        ro = getattr(sp, "ro", False)
        if sp.mutself:
            if recv != "self_":
                raise self.err("a method that updates its receiver is called on something else than self", call)
            self.need_mutself(call)
            b.emit("let self_ ← %s" % rhs)
            b.snap = False
            b.stale_aliases()
            return E("()", "unit")
        if sp.ret == "unit":
            b.emit(rhs)
            if not ro:
                b.snap = False
                b.stale_aliases()
            return E("()", "unit")
        n = b.bind(rhs)
        if not ro:
            b.snap = False
            b.stale_aliases()
        return E(n, sp.ret)

    def sref_of(self, b, a1, a2):
        """`X.name, X.version` -> X ; otherwise SRef.mk"""
        if isinstance(a1, ast.Attribute) and isinstance(a2, ast.Attribute) and a1.attr == "name" and a2.attr == "version" \
                and ast.dump(a1.value) == ast.dump(a2.value):
            x = self.ex(b, a1.value)
            if x.ty == "sref":
                return x
        n = self.coerce(b, self.ex(b, a1, want="str"), "str", a1)
        v = self.coerce(b, self.ex(b, a2, want="ver"), "ver", a2)
        return E("(SRef.mk %s %s)" % (paren(n.lean), paren(v.lean)), "sref")

    def kwargs(self, call, names):
        """arguments of a dictionary call by position / keyword"""
        out = {}
        for n, x in zip(names, call.args):
            out[n] = x
        if len(call.args) > len(names):
            raise self.err("too many arguments", call)
        for kw in call.keywords:
            if kw.arg not in names or kw.arg in out:
                raise self.err("keyword argument", call)
            out[kw.arg] = kw.value
        return out

    def ex_Call(self, b, e, want):
        f = e.func
        if isinstance(f, ast.Name):
            return self.call_name(b, e, f.id, want)
        if isinstance(f, ast.Attribute):
            return self.call_attr(b, e, f, want)
        raise self.err("call not understood", e)

    # --- f(...) ------------------------------------------------
    def call_name(self, b, e, name, want):
        a = e.args
        if name in SPECS and SPECS[name].cls is None:
            return self.call_source_fn_keyed(b, e, name, want)
        if name == "cast" and len(a) == 2:
            return self.ex(b, a[1], want)
        if name in ("EPName", "iter") and len(a) == 1:
            return self.ex(b, a[0], want)
        if name == "str" and len(a) == 1:
            x = self.ex(b, a[0], want)
            if x.ty in PATHLIKE or x.ty in ("uuid", "str"):
                return x
            raise self.err("str() of a %s" % (x.ty,), e)
        if name == "bytes" and len(a) == 1:
            x = self.ex(b, a[0])
            if x.ty == "pkgmeta":
                return E("(Val.pkginfo %s.id %s.plugins)" % (paren(x.lean), paren(x.lean)), "val")
            if x.ty == "tok":
                return E("(Val.data %s)" % x.lean, "val")
            raise self.err("bytes() of a %s" % (x.ty,), e)
        if name == "len" and len(a) == 1:
            x = self.ex(b, a[0])
            if x.ty == "group":
                b.state()
                return E("(groupLen s.raw %s)" % paren(x.lean), "nat")
            if is_coll(x.ty) or (isinstance(x.ty, tuple) and x.ty[0] == "dict"):
                return E("(%s).length" % x.lean, "nat")
            raise self.err("len() of a %s" % (x.ty,), e)
        if name in ("list", "set") and len(a) <= 1:
            if not a:
                return E("[]", want if isinstance(want, tuple) else (name, None))
            x = self.ex(b, a[0])
            if isinstance(x.ty, tuple) and x.ty[0] == "dict":
                return E("(%s).map (·.1)" % x.lean, (name, x.ty[1]))
            if is_coll(x.ty):
                if name == "set" and x.ty[0] == "list":
                    return E("pySetOf %s" % paren(x.lean), ("set", x.ty[1]))
                return E(x.lean, (name, x.ty[1]))  # a copy: values are immutable here
            raise self.err("%s() of a %s" % (name, x.ty), e)
        if name == "all" and len(a) == 1:
            x = self.ex(b, a[0])
            if is_coll(x.ty) and x.ty[1] == "bool":
                return E("(%s).all id" % x.lean, "bool")
            raise self.err("all() of a %s" % (x.ty,), e)
        if name == "enumerate" and len(a) == 1:
            x = self.iterable(b, a[0])
            return E("pyEnumerate %s" % paren(x.lean), ("list", ("tuple", "nat", x.ty[1])))
        if name == "filter" and len(a) == 2:
            it = self.iterable(b, a[1])
            if mentions_state(a[0], self.selfname):
                b.state()
            f0 = a[0]
            if isinstance(it.ty[1], tuple) and it.ty[1][0] == "opt" and isinstance(f0, ast.Lambda) and len(f0.args.args) == 1 \
                    and isinstance(f0.body, ast.Compare) and len(f0.body.ops) == 1 and isinstance(f0.body.ops[0], ast.IsNot) \
                    and is_none(f0.body.comparators[0]) and isinstance(f0.body.left, ast.Name) \
                    and f0.body.left.id == f0.args.args[0].arg:
                return E("(%s).filterMap id" % it.lean, ("list", it.ty[1][1]))
            ln, x = self.lam(b, a[0], it.ty[1])
            return E("(%s).filter (fun %s => %s)" % (it.lean, ln, self.truthy(x, a[0]).lean), ("list", it.ty[1]))
        if name == "map" and len(a) == 2:
            return self.call_map(b, e, want)
        if name == "isinstance" and len(a) == 2:
            return self.isinstance(b, e, a[0], a[1])
        if name == "next" and len(a) == 2 and is_none(a[1]):
            x = self.ex(b, a[0])
            if is_coll(x.ty):
                return E("(%s).head?" % x.lean, ("opt", x.ty[1]))
            raise self.err("next() of a %s" % (x.ty,), e)
        if name == "UUID" and len(a) == 1:
            x = self.ex(b, a[0])
            if x.ty == "key":
                return E(b.bind("Key.uuidOf %s" % paren(x.lean)), "uuid")
            raise self.err("UUID() of a %s" % (x.ty,), e)
        if name == "from_ep_name" and len(a) == 1:
            x = self.ex(b, a[0])
            if x.ty == "key" and want == "pkg":
                return E(b.bind("Key.pkgName %s" % paren(x.lean)), "pkg")
            if x.ty == "key":
                return E(b.bind("Key.epName %s" % paren(x.lean)), "epname")
            if x.ty == "epname":
                return x
            raise self.err("from_ep_name of a %s" % (x.ty,), e)
        if name == "to_ep_name" and len(a) == 2:
            n = self.coerce(b, self.ex(b, a[0], want="str"), "str", a[0])
            v = self.coerce(b, self.ex(b, a[1], want="ver"), "ver", a[1])
            return E("(%s, %s)" % (n.lean, v.lean), "epname")
        if name == "plugin_args":
            kw = self.kwargs(e, ["plugin", "version", "require_version"])
            p = self.ex(b, kw["plugin"]) if "plugin" in kw else E('""', "str")
            v = self.coerce(b, self.ex(b, kw["version"], want=("opt", "ver")), ("opt", "ver"), e) if "version" in kw else E("none", ("opt", "ver"))
            if p.ty == "str":
                res = E("(%s, %s)" % (p.lean, v.lean), ("tuple", "str", ("opt", "ver")))
            elif p.ty == "skey":
                res = E("(pluginArgs %s %s)" % (paren(p.lean), paren(v.lean)), ("tuple", "str", ("opt", "ver")))
            else:
                raise self.err("plugin_args of a %s" % (p.ty,), e)
            if "require_version" in kw:
                rv = kw["require_version"]
                if not (isinstance(rv, ast.Constant) and rv.value is True):
                    raise self.err("require_version", e)
                n = b.bind("optValue (%s).2" % res.lean)
                return E("((%s).1, %s)" % (res.lean, n), ("tuple", "str", "ver"))
            return res
        if name == "StoredMetadata":
            kw = self.kwargs(e, ["uuid", "schema", "node"])
            if set(kw) != {"uuid", "schema", "node"}:
                raise self.err("StoredMetadata(...) arguments", e)
            u = self.coerce(b, self.ex(b, kw["uuid"]), "uuid", e)
            r = self.coerce(b, self.ex(b, kw["schema"]), "sref", e)
            n = self.coerce(b, self.ex(b, kw["node"]), "path", e)
            return E("(Stored.mk %s %s %s)" % (paren(u.lean), paren(r.lean), paren(n.lean)), "stored")
        raise self.err("call of '%s' is not in the dictionary" % name, e)

    def call_source_fn_keyed(self, b, e, name, want):
        # `_schema_ref_for(name)` on a child name of `schemas/`
        if name == "_schema_ref_for" and len(e.args) == 1:
            x = self.ex(b, e.args[0])
            if x.ty == "key":
                n = b.bind("Key.epName %s" % paren(x.lean))
                GEN_NEEDS.add(name)
                return E("(%s %s)" % (SPECS[name].lean, n), "sref")
        return self.call_source_fn(b, e, name)

    def call_map(self, b, e, want):
        f, itx = e.args
        # map(PluginRef.parse_obj, reflist): the references a compat dataset lists
        if isinstance(f, ast.Attribute) and isinstance(f.value, ast.Name) and f.value.id == "PluginRef" and f.attr == "parse_obj":
            x = self.ex(b, itx)
            if x.ty == "jsonrefs":
                return E(x.lean, ("list", "sref"))
            raise self.err("map(PluginRef.parse_obj, ·) of a %s" % (x.ty,), e)
        # map(d.get, keys)
        if isinstance(f, ast.Attribute) and f.attr == "get":
            pl = self.place(b, f.value)
            if pl and pl[0] == "field" and pl[2][0] == "dict":
                it = self.iterable(b, itx)
                b.state()
                return E("(%s).map (fun k => alGet s.c.%s k)" % (it.lean, pl[1]), ("list", ("opt", pl[2][2])))
        if isinstance(f, ast.Lambda):
            it = self.iterable(b, itx)
            ln, x = self.lam(b, f, it.ty[1])
            return E("(%s).map (fun %s => %s)" % (it.lean, ln, x.lean), ("list", x.ty))
        raise self.err("map(...) not understood", e)

    def isinstance(self, b, e, x, t):
        v = self.ex(b, x)
        tn = t.id if isinstance(t, ast.Name) else None
        if v.ty == "skey" and tn == "tuple":
            return E("true", "bool")
        if v.ty in PATHLIKE and tn in ("H5GroupLike", "H5DatasetLike", "MetadorDataset", "MetadorGroup"):
            grp = tn in ("H5GroupLike", "MetadorGroup")
            if v.ty == "group" and grp or v.ty == "dataset" and not grp:
                return E("true", "bool")
            b.state()
            return E("(%s s.raw %s)" % ("isGroup" if grp else "isDataset", paren(v.lean)), "bool")
        raise self.err("isinstance(%s, %s) is not in the dictionary" % (v.ty, tn), e)

    # --- x.f(...) ------------------------------------------------
    def call_attr(self, b, e, f, want):
        a, attr = e.args, f.attr
        pl = self.place(b, f.value)
        # methods of objects of the source
        if pl and pl[0] == "obj":
            qual = "%s.%s" % (pl[1], attr)
            if qual not in SPECS and pl[1] in BASES and "%s.%s" % (BASES[pl[1]], attr) in SPECS:
                qual = "%s.%s" % (BASES[pl[1]], attr)  # inherited method
            if qual in SPECS:
                recv = "self_" if SPECS[qual].selfty and isinstance(f.value, ast.Name) and f.value.id == self.selfname else None
                return self.call_source_fn(b, e, qual, recv=recv)
            r = self.obj_method(b, e, pl[1], attr, want)
            if r is not None:
                return r
            raise self.err("method %s is not in the dictionary" % qual, e)
        if pl and pl[0] == "raw":
            return self.raw_method(b, e, attr, want)
        if pl and pl[0] == "field":
            return self.field_method(b, e, pl, attr, want)
        if pl and pl[0] == "hfield":
            return self.hfield_method(b, e, pl, attr, want)
        # set().union(*X)
        if attr == "union" and isinstance(f.value, ast.Call) and isinstance(f.value.func, ast.Name) and f.value.func.id == "set" \
                and not f.value.args and len(a) == 1 and isinstance(a[0], ast.Starred) and not e.keywords:
            x = self.ex(b, a[0].value)
            if is_coll(x.ty) and is_coll(x.ty[1]):
                return E("pyUnion %s" % paren(x.lean), ("set", x.ty[1][1]))
            if is_coll(x.ty) and isinstance(x.ty[1], tuple) and x.ty[1][0] == "opt" and is_coll(x.ty[1][1]):
                raise self.err("union over Optional sets (filter the None values first)", e)
            raise self.err("set().union(*X) with X a %s" % (x.ty,), e)
        x = self.ex(b, f.value)
        t = x.ty
        if t == ("mod", "M"):
            return self.utils_fn(b, e, attr)
        if t == ("mod", "schemas"):
            return self.schemas_fn(b, e, attr, want)
        if t == ("mod", "json"):
            return self.json_fn(b, e, attr, want)
        if t == ("cls", "PluginPkgMeta") and attr == "parse_raw" and len(a) == 1:
            v = self.ex(b, a[0])
            if v.ty != "val":
                raise self.err("parse_raw of a %s" % (v.ty,), e)
            return E(b.bind("Val.pkgMeta %s" % paren(v.lean)), "pkgmeta")
        if t == ("cls", "StoredMetadata") and attr == "from_node" and len(a) == 1:
            v = self.coerce(b, self.ex(b, a[0]), "path", e)
            return E(b.bind("storedFromNode %s" % paren(v.lean)), "stored")
        if t in PATHLIKE and attr == "startswith" and len(a) == 1 and isinstance(a[0], ast.Constant) and a[0].value == "/":
            return E("true", "bool")  # names are absolute paths here
        if t == "stored" and attr == "to_path" and not a:
            GEN_NEEDS.add("StoredMetadata.to_path")
            return E("(StoredMetadata.to_path %s)" % paren(x.lean), "path")
        if t == "sref" and attr == "supports" and len(a) == 1:
            y = self.coerce(b, self.ex(b, a[0]), "sref", e)
            return E("(supports %s %s)" % (paren(x.lean), paren(y.lean)), "bool")
        if t == "sref" and attr == "dict" and not a:
            return E(x.lean, "srefdict")
        if t == "val" and attr == "decode" and len(a) == 1:
            if want in PATHLIKE:
                return E(b.bind("Val.decodePath %s" % paren(x.lean)), "path")
            return E(x.lean, "valtext")
        if t == "sinfo" and attr == "schema_json" and not a:
            return E(x.lean, "schemajson")
        if t == "schemajson" and attr == "encode" and len(a) == 1:
            return E("(Val.jsonschema %s.ref)" % paren(x.lean), "val")
        if t == "jsontext" and attr == "encode" and len(a) == 1:
            return E(x.lean, "val")
        if t == "plugininfo" and attr == "ref" and not a:
            return E("%s.ref" % paren(x.lean), "sref")
        if t == "node_or_empty" and attr == "values" and not a:
            b.state()
            return E("(match %s with | some g => groupValues s.raw g | none => [])" % x.lean, ("list", "node"))
        if t == "group" or t == "node":
            if attr in ("keys", "values", "items") and not a:
                b.state()
                fn, ty = {"keys": ("groupKeys", ("list", "key")), "values": ("groupValues", ("list", "node")),
                          "items": ("groupItems", ("list", ("tuple", "key", "node")))}[attr]
                return E("(%s s.raw %s)" % (fn, paren(x.lean)), ty)
            if attr == "visititems" and len(a) == 1:
                return self.visititems(b, e, x, a[0])
        if is_coll(t) and attr == "intersection" and len(a) == 1:
            y = self.ex(b, a[0])
            if is_coll(y.ty) and same(y.ty[1], t[1]):
                return E("(%s).filter (fun x => decide (x ∈ %s))" % (x.lean, y.lean), ("set", t[1]))
        if isinstance(t, tuple) and t[0] == "opt" and t[1] is not None:
            n = b.bind("optAttr %s" % paren(x.lean))
            b.env["__optc"] = Var(n, t[1])
            try:
                e2 = ast.Call(func=ast.Attribute(value=ast.Name(id="__optc", ctx=ast.Load()), attr=attr, ctx=ast.Load()),
                              args=e.args, keywords=e.keywords)
                return self.ex(b, ast.copy_location(e2, e), want)
            finally:
                del b.env["__optc"]
        raise self.err("method '%s' of a %s is not in the dictionary" % (attr, t), e)

    def obj_method(self, b, e, cls, attr, want):
        if cls in ("MetadorNode",) and attr == "_guard_acl":
            return E("()", "unit")  # access flags are property C15's
        if cls == "TOCPackages" and attr == "keys" and not e.args:
            b.state()
            return E("(s.c.pkginfos.map (·.1))", ("list", "pkg"))
        if cls == "MetadorMeta" and attr == "keys" and not e.args:
            return E("(self_.objs.map (·.1))", ("list", "str"))
        if cls == "MetadorMeta" and attr == "values" and not e.args:
            return E("(self_.objs.map (·.2))", ("list", "stored"))  # (+ _guard_acl: property C15's)
        if cls == "MetadorMeta" and attr == "_parse_obj" and len(e.args) == 2:
            c = self.ex(b, e.args[0])
            v = self.ex(b, e.args[1])
            if c.ty != "sinfo":
                raise self.err("_parse_obj with a %s as class" % (c.ty,), e)
            if v.ty == "value":
                return E(b.bind("parseValue %s" % paren(v.lean)), "tok")
            if v.ty == "val":
                return E(b.bind("parseStored %s %s" % (paren(c.lean), paren(v.lean))), "parsed")
            raise self.err("_parse_obj of a %s" % (v.ty,), e)
        return None

    def raw_method(self, b, e, attr, want):
        a = e.args
        if attr == "require_group" and len(a) == 1:
            p = self.coerce(b, self.ex(b, a[0], want="path"), "path", a[0])
            return E(b.bind("rawRequireGroup %s" % paren(p.lean), eff=True), "group")
        if attr == "move" and len(a) == 2:
            p = self.coerce(b, self.ex(b, a[0], want="path"), "path", a[0])
            q = self.coerce(b, self.ex(b, a[1], want="path"), "path", a[1])
            b.eff("rawMoveM %s %s" % (paren(p.lean), paren(q.lean)))
            return E("()", "unit")
        if attr == "get" and len(a) in (1, 2):
            p = self.coerce(b, self.ex(b, a[0], want="path"), "path", a[0])
            b.state()
            if len(a) == 2:
                if not (isinstance(a[1], ast.Dict) and not a[1].keys):
                    raise self.err("raw.get default", e)
                return E("(rawGet s.raw %s)" % paren(p.lean), "node_or_empty")
            return E("(rawGet s.raw %s)" % paren(p.lean), ("opt", "node"))
        raise self.err("raw container method '%s' is not in the dictionary" % attr, e)

    def field_method(self, b, e, pl, attr, want):
        _, f, ty = pl
        a = e.args
        if ty[0] == "dict":
            if attr == "get" and len(a) in (1, 2):
                k = self.coerce(b, self.ex(b, a[0], want=ty[1]), ty[1], a[0])
                b.state()
                if len(a) == 1:
                    return E("(alGet s.c.%s %s)" % (f, paren(k.lean)), ("opt", ty[2]))
                d = self.coerce(b, self.ex(b, a[1], want=ty[2]), ty[2], a[1])
                return E("((alGet s.c.%s %s).getD %s)" % (f, paren(k.lean), paren(d.lean)), ty[2])
            if attr == "pop" and len(a) in (1, 2):
                k = self.coerce(b, self.ex(b, a[0], want=ty[1]), ty[1], a[0])
                b.state()
                if len(a) == 1:
                    n = b.bind("dictGetItem s.c.%s %s" % (f, paren(k.lean)))
                    self.write_field(b, f, "alErase {cur} %s" % paren(k.lean))
                    return E(n, ty[2])
                if is_none(a[1]):
                    n = self.fresh()
                    b.emit("let %s := alGet s.c.%s %s" % (n, f, paren(k.lean)))
                    self.write_field(b, f, "alErase {cur} %s" % paren(k.lean))
                    return E(n, ("opt", ty[2]))
                d = self.coerce(b, self.ex(b, a[1], want=ty[2]), ty[2], a[1])
                n = self.fresh()
                b.emit("let %s := (alGet s.c.%s %s).getD %s" % (n, f, paren(k.lean), paren(d.lean)))
                self.write_field(b, f, "alErase {cur} %s" % paren(k.lean))
                return E(n, ty[2])
            if attr == "keys" and not a:
                b.state()
                return E("(s.c.%s.map (·.1))" % f, ("list", ty[1]))
            if attr == "items" and not a:
                b.state()
                return E("s.c.%s" % f, ("list", ("tuple", ty[1], ty[2])))
        raise self.err("method '%s' of the cache %s is not in the dictionary" % (attr, f), e)

    def hfield_method(self, b, e, pl, attr, want):
        _, f, ty = pl
        a = e.args
        if ty[0] == "dict":
            if attr == "get" and len(a) == 1:
                k = self.coerce(b, self.ex(b, a[0], want=ty[1]), ty[1], a[0])
                return E("(alGet self_.%s %s)" % (f, paren(k.lean)), ("opt", ty[2]))
            if attr == "keys" and not a:
                return E("(self_.%s.map (·.1))" % f, ("list", ty[1]))
            if attr == "values" and not a:
                return E("(self_.%s.map (·.2))" % f, ("list", ty[2]))
        raise self.err("method '%s' of self.%s is not in the dictionary" % (attr, f), e)

    def utils_fn(self, b, e, attr):
        a = e.args
        if attr == "is_internal_path" and len(a) in (1, 2):
            p = self.coerce(b, self.ex(b, a[0], want="path"), "path", a[0])
            if len(a) == 1:
                return E("(isInternal %s)" % paren(p.lean), "bool")
            pref = self.ex(b, a[1])
            if pref.ty == "pref" and pref.lean == "META_PREF":
                return E("(inMeta %s)" % paren(p.lean), "bool")
            if pref.ty == "pref" and pref.lean == "PREF":
                return E("(isInternal %s)" % paren(p.lean), "bool")
        if attr == "is_meta_base_path" and len(a) == 1:
            p = self.coerce(b, self.ex(b, a[0], want="path"), "path", a[0])
            return E("(isMetaBase %s)" % paren(p.lean), "bool")
        if attr == "to_meta_base_path" and len(a) == 2:
            p = self.coerce(b, self.ex(b, a[0], want="path"), "path", a[0])
            d = self.coerce(b, self.ex(b, a[1], want="bool"), "bool", a[1])
            return E("(metaBase %s %s)" % (paren(p.lean), paren(d.lean)), "path")
        raise self.err("utils.%s is not in the dictionary" % attr, e)

    def need_env(self, node):
        if not self.sp.env:
            raise self.err("the plugin environment is used by a function that is not declared to use it", node)

    def schemas_fn(self, b, e, attr, want):
        a = e.args
        if attr == "PluginRef" and not a:
            kw = {k.arg: k.value for k in e.keywords}
            if set(kw) == {"name", "version"}:
                return self.sref_of(b, kw["name"], kw["version"])
        if attr == "get" and len(a) == 2:
            self.need_env(e)
            r = self.sref_of(b, a[0], a[1])
            return E("(envGet e %s)" % paren(r.lean), ("opt", "sinfo"))
        if attr == "_get_unsafe" and len(a) == 2:
            self.need_env(e)
            n = self.coerce(b, self.ex(b, a[0], want="str"), "str", a[0])
            v = self.coerce(b, self.ex(b, a[1], want=("opt", "ver")), ("opt", "ver"), a[1])
            return E(b.bind("envGetUnsafe e %s %s" % (paren(n.lean), paren(v.lean))), "sinfo")
        if attr == "parent_path" and len(a) == 2:
            self.need_env(e)
            r = self.sref_of(b, a[0], a[1])
            return E(b.bind("envParentPath e %s" % paren(r.lean)), ("list", "sref"))
        if attr == "provider" and len(a) == 1:
            self.need_env(e)
            r = self.coerce(b, self.ex(b, a[0]), "sref", a[0])
            return E(b.bind("envProvider e %s" % paren(r.lean)), "pkgmeta")
        raise self.err("schemas.%s is not in the dictionary" % attr, e)

    def json_fn(self, b, e, attr, want):
        a = e.args
        if attr == "loads" and len(a) == 1:
            x = self.ex(b, a[0])
            if x.ty == "valtext":
                return E(b.bind("Val.jsonRefs %s" % paren(x.lean)), "jsonrefs")
        if attr == "dumps" and len(a) == 1:
            # json.dumps(list(map(lambda x: x.dict(), parents)))
            x = self.ex(b, a[0])
            if is_coll(x.ty) and x.ty[1] == "srefdict":
                m = "(%s).map (fun " % ""
                # the list mapped over is what is serialised; `.dict()` is the identity on the model's references
                inner = a[0]
                while isinstance(inner, ast.Call) and isinstance(inner.func, ast.Name) and inner.func.id == "list":
                    inner = inner.args[0]
                if isinstance(inner, ast.Call) and isinstance(inner.func, ast.Name) and inner.func.id == "map" \
                        and isinstance(inner.args[0], ast.Lambda) and isinstance(inner.args[0].body, ast.Call) \
                        and isinstance(inner.args[0].body.func, ast.Attribute) and inner.args[0].body.func.attr == "dict" \
                        and isinstance(inner.args[0].body.func.value, ast.Name) \
                        and inner.args[0].body.func.value.id == inner.args[0].args.args[0].arg:
                    src = self.iterable(b, inner.args[1])
                    del m
                    return E("(Val.compat %s)" % paren(src.lean), "jsontext")
        raise self.err("json.%s(...) is not in the dictionary" % attr, e)

    def visititems(self, b, e, grp, fn):
        raise self.err("visititems", e)



class Fn5(Fn4):
    """the wrapper layer: `node.meta`, `self[name]`, `_wrap_method(..)(self, name)`, virtual calls on child nodes"""

    def callee_call(self, b, qual, args, node, recv=None, drop=False):
        """emit a call of the callee parameter `qual` with translated arguments"""
        sp = SPECS[qual]
        if qual not in self.sp.callees:
            raise self.err("call of %s, which is not among the callees this function is known to have" % qual, node)
        al = ([paren(recv)] if recv is not None else []) + [paren(a) for a in args]
        rhs = " ".join([callee_param(qual)] + al)
        ro = getattr(sp, "ro", False)
        if sp.mutself and not sp.ctor:
            b.emit("let _ ← %s" % rhs)  # the MetadorMeta object is a temporary: its new state is dropped
            res = E("()", "unit")
        elif sp.ctor:
            res = E(b.bind(rhs), sp.selfty)
        elif sp.ret == "unit":
            b.emit(rhs)
            res = E("()", "unit")
        else:
            res = E(b.bind(rhs), sp.ret)
        if not ro:
            b.snap = False
            b.stale_aliases()
        return res

    def guard_path(self, b, p, node):
        self.callee_call(b, "MetadorNode._guard_path", [p], node)

    def ex_Constant(self, b, e, want):
        if e.value == "/" and want in PATHLIKE:
            return E("([] : Path)", "path")
        return super().ex_Constant(b, e, want)

    def ex_Dict(self, b, e, want):
        if e.keys:
            return E(None, "kwdict")  # keyword arguments of the raw copy (fixed options: not modelled)
        return super().ex_Dict(b, e, want)

    def ex_Attribute(self, b, e, want):
        if e.attr in ("meta", "_base_dir", "__wrapped__", "acl"):
            pl = self.place(b, e)
            if pl is None or e.attr == "meta":
                base_pl = self.place(b, e.value)
                if e.attr == "acl" and base_pl and base_pl[0] in ("obj", "local"):
                    return E(None, "aclflags")
                x = self.ex(b, e.value)
                if e.attr == "meta" and x.ty == "wnode":
                    return self.callee_call(b, "MetadorMeta.__init__", [x.lean], e)
                if e.attr == "_base_dir" and x.ty == "handle":
                    return E("%s.baseDir" % paren(x.lean), "path")
                if e.attr == "__wrapped__" and x.ty == "wnode":
                    return E(x.lean, "node")
        return super().ex_Attribute(b, e, want)

    def ex_Subscript(self, b, e, want):
        pl = self.place(b, e.value)
        if pl and pl[0] == "obj" and pl[1] in ("MetadorGroup", "MetadorContainer"):
            # self[name]: _wrap_method("__getitem__"): guard the path, raw lookup, wrap
            if isinstance(e.slice, ast.Constant) and e.slice.value == "/":
                return E("([] : Path)", "wnode")
            p = self.coerce(b, self.ex(b, e.slice, want="path"), "path", e.slice)
            self.guard_path(b, p.lean, e)
            b.state()
            return E(b.bind("rawGetItem s.raw %s" % paren(p.lean)), "wnode")
        if isinstance(e.value, ast.Attribute) and e.value.attr == "acl":
            x = self.ex(b, e.value)
            if x.ty == "aclflags":
                return E("false", "bool")  # unrestricted nodes (access flags: property C15)
        return super().ex_Subscript(b, e, want)

    def boolchain(self, b, vals, is_and):
        if len(vals) > 1:
            first = vals[0]
            probe = b.sub(pure=True)
            try:
                x = self.truthy(self.ex(probe, first, want="bool"), first)
                if not probe.lines and x.lean == ("false" if is_and else "true"):
                    return x  # the other operands are never evaluated
            except TranslateError:
                pass
        return super().boolchain(b, vals, is_and)

    def ex_BoolOp(self, b, e, want):
        # `node or default` with an Optional node
        if isinstance(e.op, ast.Or) and len(e.values) == 2 and isinstance(e.values[0], ast.Name) and e.values[0].id in b.env:
            v = b.env[e.values[0].id]
            if isinstance(v.ty, tuple) and v.ty[0] == "opt" and always_truthy(v.ty[1]):
                d = self.coerce(b, self.ex(b, e.values[1], want=v.ty[1]), v.ty[1], e.values[1])
                return E("(%s).getD %s" % (v.lean, paren(d.lean)), v.ty[1])
        return super().ex_BoolOp(b, e, want)

    def member(self, b, l, c, node):
        if c.ty == "handle":
            k = self.coerce(b, self.ex(b, l, want="skey"), "skey", l)
            r = self.callee_call(b, "MetadorMeta.__contains__", [k.lean], node, recv=c.lean)
            return r.lean
        return super().member(b, l, c, node)

    def isinstance(self, b, e, x, t):
        v = self.ex(b, x)
        tn = t.id if isinstance(t, ast.Name) else None
        if v.ty == "path" and tn == "str":
            return E("true", "bool")
        if v.ty == "wnode" and tn in ("H5GroupLike", "H5DatasetLike", "MetadorDataset", "MetadorGroup"):
            b.state()
            grp = tn in ("H5GroupLike", "MetadorGroup")
            return E("(%s s.raw %s)" % ("isGroup" if grp else "isDataset", paren(v.lean)), "bool")
        return super().isinstance(b, e, x, t)

    def ex_Call(self, b, e, want):
        f = e.func
        # _wrap_method("m")(self, name, ...)
        if isinstance(f, ast.Call) and isinstance(f.func, ast.Name) and f.func.id == "_wrap_method" and len(f.args) == 1 \
                and isinstance(f.args[0], ast.Constant) and not f.keywords and len(e.args) >= 2 and not e.keywords \
                and isinstance(e.args[0], ast.Name) and e.args[0].id == self.selfname:
            m = f.args[0].value
            p = self.coerce(b, self.ex(b, e.args[1], want="path"), "path", e.args[1])
            self.guard_path(b, p.lean, e)
            if m == "__delitem__" and len(e.args) == 2:
                b.eff("rawDelItem %s" % paren(p.lean))
                return E("()", "unit")
            raise self.err("_wrap_method(%r) is not in the dictionary" % m, e)
        # super().method(...)
        if isinstance(f, ast.Attribute) and isinstance(f.value, ast.Call) and isinstance(f.value.func, ast.Name) \
                and f.value.func.id == "super" and not f.value.args:
            base = {"MetadorGroup": "MetadorNode"}.get(self.cls)
            qual = "%s.%s" % (base, f.attr)
            if base is None or qual not in SPECS:
                raise self.err("super() call not understood", e)
            args = self.args_of(e, qual, b)
            return self.callee_call(b, qual, [a.lean for a in args], e, recv="self_")
        # kwargs.pop("key", default)
        if isinstance(f, ast.Attribute) and f.attr == "pop" and isinstance(f.value, ast.Name) and f.value.id == self.kwname \
                and self.kwname and len(e.args) == 2 and isinstance(e.args[0], ast.Constant):
            k = e.args[0].value
            if k in self.kwspec:
                v = b.env["kw:" + k]
                return E(v.lean, v.ty)
            return self.ex(b, e.args[1], want)  # a keyword the model's operation does not have: its default
        return super().ex_Call(b, e, want)

    def call_attr(self, b, e, f, want):
        pl = self.place(b, f.value)
        if pl and pl[0] == "local" and pl[2].ty in ("wnode", "handle"):
            v = pl[2]
            qual = ("wnode.%s" if v.ty == "wnode" else "MetadorMeta.%s") % f.attr
            if v.ty == "wnode" and f.attr in ("values",) and not e.args:
                b.state()
                return E("(userChildren s.raw %s)" % paren(v.lean), ("list", "wnode"))
            if qual in SPECS:
                args = self.args_of(e, qual, b)
                return self.callee_call(b, qual, [a.lean for a in args], e, recv=v.lean)
        if pl and pl[0] == "obj" and pl[1] in ("MetadorGroup", "MetadorNode") and f.attr == "_guard_acl":
            return E("()", "unit")  # access flags: property C15
        # method of a temporary MetadorMeta: node.meta._destroy(...)
        if isinstance(f.value, ast.Attribute) and f.value.attr == "meta":
            h = self.ex(b, f.value)
            if h.ty == "handle":
                qual = "MetadorMeta.%s" % f.attr
                if qual in SPECS:
                    args = self.args_of(e, qual, b)
                    return self.callee_call(b, qual, [a.lean for a in args], e, recv=h.lean)
        return super().call_attr(b, e, f, want)

    def raw_method(self, b, e, attr, want):
        if attr == "copy" and len(e.args) == 2:
            p = self.coerce(b, self.ex(b, e.args[0], want="path"), "path", e.args[0])
            q = self.coerce(b, self.ex(b, e.args[1], want="path"), "path", e.args[1])
            b.eff("rawCopyM %s %s" % (paren(p.lean), paren(q.lean)))
            return E("()", "unit")
        return super().raw_method(b, e, attr, want)

    def visit_nodes(self, b, grp, st):
        if grp.ty == "wnode":
            b.state()
            return "(userVisit s.raw %s)" % paren(grp.lean), "wnode"
        return super().visit_nodes(b, grp, st)

GEN_NEEDS = set()


Translator = Fn5

# order of the generated definitions (pure helpers first: they are called directly)
ORDER = [
    "_schema_ref_for", "_ep_name_for", "StoredMetadata.to_path", "TOCLinks._link_path_for",
    "TOCSchemas._schema_path_for", "TOCSchemas._jsonschema_path_for", "TOCPackages._pkginfo_path_for",
    "TOCPackages._add_providers", "TOCPackages._register", "TOCPackages._unregister", "TOCPackages.__init__",
    "TOCSchemas._update_parents_children", "TOCSchemas._register", "TOCSchemas._unregister", "TOCSchemas.__init__",
    "TOCSchemas.parent_path", "TOCSchemas.versions", "TOCSchemas.children",
    "TOCLinks.__init__", "TOCLinks.resolve", "TOCLinks.update", "TOCLinks.register", "TOCLinks.unregister",
    "TOCLinks.find_missing", "TOCLinks.repair_missing",
    "MetadorMeta._require_schema", "MetadorMeta._get_raw", "MetadorMeta._set_raw", "MetadorMeta._del_raw",
    "MetadorMeta._destroy", "MetadorMeta.__init__", "MetadorMeta.query", "MetadorMeta.__contains__", "MetadorMeta.get",
    "MetadorMeta.__setitem__", "MetadorMeta.__delitem__",
    "MetadorContainerTOC.query", "MetadorNode._guard_path", "MetadorNode._destroy_meta", "MetadorGroup._destroy_meta",
    "MetadorGroup.__delitem__", "MetadorGroup.move", "MetadorGroup.copy",
]


def gen_one(qual, consts):
    sp = SPECS[qual]
    t = Translator(sp, consts)
    return t.translate()


def stub(qual, why):
    """definition emitted when a function cannot be translated: it has the right type and is wrong on purpose, so that
    exactly the bridge theorems of this function break"""
    sp = SPECS[qual]
    ps = []
    if sp.env:
        ps.append("(e : Env)")
    for c in sp.callees:
        ps.append("(%s : %s)" % (callee_param(c), SPECS[c].fn_type()))
    if sp.selfty and not sp.ctor:
        ps.append("(self_ : %s)" % lty(sp.selfty))
    for i, t in enumerate(sp.params):
        if t is not None:
            ps.append("(x%d : %s)" % (i, lty(t)))
    for k, t in (getattr(sp, "kwargs", None) or {}).items():
        ps.append("(%s : %s)" % (lname(k), lty(t)))
    r = lty(sp.selfty) if sp.mutself else lty(sp.ret)
    why = why.replace("-/", "- /").replace("/-", "/ -")
    if sp.kind == "pure":
        return "/- NOT TRANSLATED: %s -/\ndef %s %s : %s := default" % (why, sp.lean, " ".join(ps), r)
    return "/- NOT TRANSLATED: %s -/\ndef %s %s : M (%s) := untranslated" % (why, sp.lean, " ".join(ps), r)


def gen_tocfns():
    """(text of Gen/TocFns.lean, list of error messages)"""
    _TREES.clear()
    GEN_NEEDS.clear()
    errors = []
    try:
        consts = utils_constants()
    except TranslateError as ex:
        consts = {}
        errors.append(str(ex))
    out = [HEADER,
           "/-- body of a function the translator did not understand (never equal to the model: `other` is not what the\n"
           "model raises first anywhere) -/\ndef untranslated {α : Type} : M α := fun s => (.error .other, { s with next := s.next + 1 })\n"]
    for qual in ORDER:
        try:
            out.append(gen_one(qual, consts) + "\n")
        except TranslateError as ex:
            errors.append(str(ex))
            out.append(stub(qual, str(ex)) + "\n")
        except RecursionError as ex:  # pragma: no cover
            errors.append("%s: %s" % (qual, ex))
            out.append(stub(qual, str(ex)) + "\n")
    out.append("end MetadorModel.Gen.TocFns\n")
    return "\n".join(out), errors


def write(lean_mod):
    text, errors = gen_tocfns()
    path = os.path.join(lean_mod.LEAN, "MetadorModel", "Gen", "TocFns.lean")
    changed = lean_mod.write_if_changed(path, text)
    if errors:
        raise TranslateError("; ".join(errors))
    return "Gen/TocFns.lean %s (%d functions)" % ("rewritten" if changed else "unchanged", len(ORDER))


if __name__ == "__main__":
    import sys
    txt, errs = gen_tocfns()
    sys.stdout.write(txt)
    for x in errs:
        sys.stderr.write("ERROR: %s\n" % x)
