"""Python-`ast` -> Lean translation of the override check of metador-core's schema classes (property C13).

`gen_subtype_fns()` parses the files of `envshim.REPO` (honours `METADOR_REPO`) and returns the text of
`lean/MetadorModel/Gen/SubtypeFns.lean`; `harness/props/c13.py::translate` writes it on every `./check C13` run.
The bridge modules (hand-written, re-checked by `lake build` on every run) prove that the generated functions equal
the hand-written model functions of `Model/Subtype.lean` the C13 theorems are about:

    Bridge/SubtypeFns.lean        Gen._has_literal = hasLit, Gen.is_subtype = isSubtype, Gen._check_type_mergeable = mergeable
                                  (gen_has_literal, gen_is_subtype, gen_check_type_mergeable; traverse_unfold)
    Bridge/SubtypeFnsChecks.lean  Gen.check_allowed_types = checkAllowed, Gen.detect_field_overrides ~ detectOverrides (same
                                  members), Gen.check_overrides = checkOverrides for every iteration order of the set of
                                  undeclared overrides (gen_check_allowed_types, gen_detect_field_overrides, gen_check_overrides)
    Bridge/SubtypeFnsDeco.lean    tail of SchemaMagic.__new__, make_mandatory, add_const_fields, override = the three groups of
                                  refusals of defineOk, same kind of exception (gen_new_policy, gen_make_mandatory,
                                  gen_add_const_fields, gen_override, defineOk_eq, gen_defineOk)
    Bridge/SubtypeFnsWalk.lean    Gen.check_types: an inner call = checkTypesF (marks, result, `_walk` list), the call without
                                  `_walk` = loadPlugin incl. "a refused walk takes back every mark it set"
                                  (gen_check_types_inner, gen_check_types, gen_check_types_loadPlugin; checkTypesF_stable)

Translated (source lines of the pinned tree; the functions are found by name, not by line number)
-------------------------------------------------------------------------------------------------
    util/typing.py        is_list, is_set, is_union, is_classvar, is_annotated, is_literal (l. 60-81), is_nonetype, is_optional
                          (l. 87-93), _has_literal (l. 205-206), is_subtype (l. 209-231: Annotated / Literal guards, the
                          nested-literal guard, recursion through Annotated; `rv.is_subtype` is a dictionary entry)
    util/__init__.py      is_public_name (l. 19-21; `n[0]` raises IndexError on "")
    schema/partial.py     _is_list_or_set, _check_type_mergeable (l. 60-115, whole decision structure), is_mergeable_type
    schema/core.py        is_pub_instance_field, detect_field_overrides (l. 436-449), check_overrides (l. 452-492),
                          check_allowed_types (l. 399-419, incl. `continue` and the UndefVersion search), check_types
                          (l. 368-396: marks, the `_walk` list as a heap object, both dependency loops, try / except with the
                          top-level reset and the re-raise), SchemaMagic.__new__ from the statement after
                          `ret = super().__new__(cls, name, bases, dct)` to `return ret` (l. 148-175: constants of the base,
                          extra policy, new fields below a forbidding parent) -> `new_policy`
    schema/decorators.py  _expect_schema_class, _check_names_public, make_mandatory (l. 22-53), add_const_fields (l. 56-149: the
                          override / enum / literal cascade with the SHAPE_SINGLETON test, Extra.forbid rule, the updates of
                          `__fields__` / `__annotations__` / `__constants__`), override (l. 152-165); a decorator factory
                          `def f(*a): <stmts>; def inner(mcls): …; return inner` becomes one function of (a…, mcls)

How: *structurally*, statement by statement. A function that cannot raise becomes a plain Lean function (mode `pure`), one
that can raise a term in `E = Except PyErr` (mode `E`), `check_types` a term in the state monad `SM` (marks + heap of list
objects; the state survives an exception). The mode is inferred (pure -> E -> SM) from what the body uses.

    if / elif / else          (if c then … else …). If a branch can leave (return / raise / continue) the statements after the
                              `if` are continued in every branch that falls through; otherwise the branches are joined on the
                              names they (re)bind and the rest is translated once.  `if x:` / `if x is None:` on an Optional
                              value is a `match` (the name is the unwrapped value in the branch where it is not None)
    if x := e: …              x = e; if x: …  (walrus only as the test of an if / elif, possibly under `not`)
    x = e; a, b = e1, e2      let py_x := e (every local is prefixed `py_`: renaming-proof); `e >>= fun py_x =>` when e can raise.
                              Names that only feed exception messages (f-strings, `msg += …`, `parent = infer_parent(schema)` …)
                              are dropped together with the message - message computations are assumed total
    a if c else b             in `return` / assignment position the same term as the if-statement
    and / or / not            && || ! on truth values (truthiness by kind: set / dict / tuple = non-empty, Optional = is not None,
                              a class = True); an operand other than the first must not be able to raise
    ==, !=, is, is not, in, not in, `a - b`, `a.intersection(b)`, len(x) == k     on the kinds of the table below
    return e / fall off       pure e / pure ();   raise X(msg)  ->  throw PyErr.x  (TypeError, ValueError, KeyError, IndexError,
                              AttributeError; message dropped);   bare `raise` in `except`  ->  SM.throw <the caught exception>
    try: … except Exception:  SM.tryCatch (one handler, `Exception` / bare; no else / finally)
    for x in xs: body         List.foldlM over the items; loop state = the names bound before the loop that the body rebinds or
                              whose object it updates in place; `continue` ends the iteration; no break / return / while.
                              xs: tuple of names, `<dict>.items()` / `.values()` / the dict itself, `schema.__bases__`, the
                              `walk` list (`listItems`), a *set* of names -> `setOrder s` (`setOrder` is a parameter: the
                              bridge holds for every function that keeps the members)
    for k in D: … D[k] …      with k used for nothing else and D not assigned in the body  ->  for v in D.values()
    any(map(f, xs)), all(map(f, xs)), filter(f, xs), next(filter(…), None), {k for k, v in d.items() if c}, lambda x: e
                              List.any / all / filter / head?; anyM / allM / filterM (left to right, short-circuit) if f can raise
    obj.__fields__[k] = v, obj.__annotations__[k] = v, obj.__fields__[k].required = b, obj.__constants__.update(d),
    obj.__overrides__.update(s), s.add(x)
                              the local name is re-bound to the updated record (`x = obj` makes x another name of the same
                              object); `walk.append(x)` and `c.__types_checked__ = b` change the state of `SM`
    recursion                 a function that calls itself gets a first argument `fuel` (remaining interpreter stack;
                              `fuel = 0` raises RecursionError), its callers pass their `fuel` on

Value dictionary (fixed; the Lean side is `lean/MetadorModel/Py/SubtypePy.lean`)
--------------------------------------------------------------------------------
    a type hint object                       Hint: .ty t (t : Codec.Ty, the model's field-type grammar) / .noneType / .val l (an
                                             argument of Literal) / .any / .optAny (Optional[Any]) / .litOf j (Literal[v], v no
                                             str/int/bool) / .obj
    get_origin(h), List / Set / Union / ClassVar / Annotated / Literal     getOrigin h : Origin, Origin.List …
    get_args(h)                              getArgs h (Optional[X]: the arguments of X if X is a Union, else X; then NoneType)
    traverse_typehint(h)                     traverseTypehint h (pre-order; `traverse_unfold` proves it is
                                             make_tree_traversal(get_args))
    rv.is_subtype(a, b)                      rvIsSubtype T a b = the model's `le T (canon a) (canon b)` (runtype's canonical <=)
    NoneType, `h is NoneType`, `NoneType in args`     Hint.noneType, Hint.isNoneType, List.any args Hint.isNoneType
    Literal[value], Optional[Any], unoptional(h), is_enum(h), isinstance(value, h)
                                             mkLiteral v, Hint.optAny, unoptional h (= the model's unopt), false, false (no Enum
                                             classes in the grammar)
    is_subclass_of(UndefVersion), is_instance_of(type)     isUndefVersion (false: no UndefVersion wrappers), isTypeObj
    a str; "…"; s[0]                         Codec.Str (= List Char); "…".toList; strIdx s 0 (IndexError on "")
    tuple / list of names; set of names; xs[0]     List Str; List Str up to order and multiplicity (setDiff, setInter); listIdx
    dict name -> hint / constant / field; d[k], d.get(k), k in d, d.keys(), d[k] = v, d.update(e)
                                             association lists (first entry counts); dictGet (KeyError), dictGet?, dictHas,
                                             dictKeys, dictSet, dictUpdate
    a schema class (`schema`, `b`, `s`); MetadataSchema     PyCls: .cls n (class n of the table T; a name T does not define is
                                             treated like MetadataSchema) / .root; `x is MetadataSchema` = isMetadataSchema T x
    schema._typehints / ._base_typehints / get_annotations(schema) / .__constants__ / .__overrides__ / .__bases__ / .Fields
                                             clsTypehints / clsBaseTypehints / clsAnnotations / clsConstants / clsOverrides /
                                             clsBases / clsFields T schema: the model's typeHints, baseHints, ownHints, allConsts …
                                             (constants are `Any`-annotated fields; `.schemas` in the model's order)
    issubclass(x, MetadataSchema)            isSchemaClass x (true)
    schema.__types_checked__ (read / write)  getChecked / setChecked on St.marks
    [] (the `walk` list), walk.append(x), for s in walk     newList (a reference into St.heap), listAppend, listItems
    a class under construction (`ret`, `baseschema`, `mcls`)     ClsView: fields (`__fields__`), annotations, constants,
                                             overrides, extra (`__config__.extra`), baseExtra (`__base__.__config__.extra`),
                                             parentHints (for field_parent_type); `viewBase` / `viewNew` / `viewDeco` T c build
                                             them from the model's table
    a pydantic ModelField; ModelField.infer(annotation=h); SHAPE_SINGLETON; field_parent_type(mcls, name)
                                             PyField (shape, type_, required); fieldOfHint h (shape = the model's singletonTy,
                                             type_ = innermost item type); Shape.singleton; fieldParentType (ValueError)
    Extra.forbid / allow / ignore            Codec.Extra
    cast(Any, x), getattr(x, "__constants__", {})     x, x.constants

The definitions these entries stand for (`get_args`, `get_origin`, `to38hint`, `NoneType`, `make_tree_traversal`,
`traverse_typehint`, `unoptional`, `is_subclass_of`, `is_instance_of`, `is_enum`, `get_annotations`, `get_type_hints` of
util/typing.py; `field_origins`, `field_parent_type`, `field_atomic_types` of util/models.py) are *anchored*: a digest of
their `ast` is compared with `ANCHOR_SHA`; if one of them changes the translation is refused (`translate:C13`), because the
dictionary would have to be re-read.

Anything else (other statements, calls, operators, kinds that contradict the table) raises `TranslateError` with a message
naming the function and what was not understood; the check records it as the undischarged obligation `translate:C13`, a stub
without definitions is written and the bridge modules do not build.

NOT translated (tied to the model by the correspondence run / oracle of `harness/props/c13.py` only)
-----------------------------------------------------------------------------------------------------
    * runtype (`rv.is_subtype`: the model's `canon` / `le`), `typing` itself (flattening of nested Unions, `Literal[…]`),
      pydantic (`ModelField.infer`, shapes, `get_type_hints`): dictionary entries = assumptions;
    * `SchemaMagic.__new__` before the class is built (single inheritance, reserved attributes, Config fields),
      `SchemaMagic.__init__` (reset of `__overrides__` / `__types_checked__`, copy of `__constants__`), `_typehints` /
      `_base_typehints`, `SchemaFieldInspector` (`.schemas`, whose real order is a set order), `infer_parent` (feeds only the
      message of check_overrides), `unoptional`, `make_tree_traversal`, `PGSchema.check_plugin`;
    * the connection between the views (`viewNew`, `viewDeco`) and what the decorators leave behind: `gen_defineOk` starts every
      decorator on the dictionary's view of the class, not on the output of the previous one;
    * ClassVar entries of `_typehints` (`Plugin`, `__constants__` …), private names, Enum discriminators, exception messages.

Bridge hypotheses: public names (`PubName`: not empty, no leading underscore), no key / name twice in `consts` / `names`,
the recursive equations of `typeHints` / `allConsts` at the class (`Unfolds`: acyclic parent links), `fuel` larger than the
nesting of the hints (+ the number of unexamined classes for `check_types`); `tableOk_tblDecl` + the `example` after it show
they are satisfiable.

Model deviation found by the bridge of `make_mandatory` (repaired in `Model/Subtype.lean`, `defineOk`): `@make_mandatory("k")`
on an *inherited constant* is accepted by the source (`k in mcls.__fields__`, `field_parent_type` finds the `Any` that
`add_const_fields` wrote), the model refused it with ValueError. Not observable by the property (the constant is supplied
anyway); `focused_ovr()` of c13.py now has the case. (A name twice in `make_mandatory` raises in the source - second round
finds its own annotation - and not in the model: outside the bridge by the Nodup hypothesis.)

Mutation tests (scratch worktree /tmp/tr-c13, translation + `lake build` of the four bridge modules; A2, A3, A4 also through the
whole `METADOR_REPO=/tmp/tr-c13 ./check C13 --tier quick`: exit 1, failing inputs from the oracle), 2026-09-30
-----------------------------------------------------------------------------------------------------------------
    Behaviour-changing edits, all break a bridge theorem:  `or` -> `and` of the Annotated/Literal guard (gen_is_subtype);
    nested-literal guard disabled = F28 reverted (gen_is_subtype); top-level reset clears only the refused schema's own mark = F31
    half reverted (SubtypeFnsWalk); `singleton and` dropped = F30 reverted (gen_add_const_fields_view); `miss_override` computed
    the other way round (gen_check_overrides); `len(args) == 3` (gen_check_type_mergeable); new-fields difference reversed
    (gen_new_policy); "already defines" test of make_mandatory disabled (gen_make_mandatory_view); `n[0] == "_"`
    (gen_is_public_name); `s is not schema` dropped, mark not set, check_allowed_types call dropped (SubtypeFnsWalk);
    Annotated arguments swapped (gen_is_subtype); `Extra.ignore` for `Extra.forbid` in add_const_fields; Optional test of
    _check_type_mergeable dropped; literal specialisation no longer exempt from `override=` (gen_add_const_fields_view).
    Seeded changes: C13-s1 (Literal-vs-plain guard loosened) breaks gen_is_subtype; C13-t2 (make_mandatory) breaks
    gen_make_mandatory_view; C13-s2 (`infer_parent` instead of `__bases__`), C13-s3 (`set().union(*…__mro__)`), C13-s4
    (`.items()` of `__fields__` with `required`) are refused by the translator (`translate:C13`); C13-t1 (class-level default of
    `__types_checked__`) and C13-t3 (`override_consts`) change code that is not translated (caught by the correspondence / oracle).
    Behaviour-preserving edits that stay green: renamed locals (is_subtype, the `walk` list of check_types); comments / docstrings /
    blank lines; reordered independent statements (is_subtype, check_overrides); `a if c else b` <-> if-statement (`walk`);
    `for f in D: for n in D[f].schemas: s = D[f].schemas[n]` <-> `.values()` loops; `if not ann: A else: B` <-> `if ann: B`,
    early returns; a local for the result of is_mergeable_type and the message built inside `raise`; `x = False; if … elif …`
    <-> `if … elif … else: x = False` and `Literal[value]` inlined; walrus <-> assignment + if.
    Known to break the tie although harmless: a new helper function or any construct outside the tables (`while`, `<`/`<=`,
    `len(x) > 0`, augmented assignment of values, comprehensions other than `{k for k, v in d.items() if c}`, `except E as e`),
    an edit of an anchored dictionary definition, a change of which functions can raise (e.g. indexing in a function that is
    `pure` now changes its Lean type). When one function is not understood the whole generated file is a stub, so all bridge
    obligations are reported undischarged (the message of `translate:C13` names the function).
"""
import ast
import hashlib
import os

from . import envshim  # noqa: F401
from .translate import TranslateError

SRC = {
    "typing": "src/metador_core/util/typing.py",
    "util": "src/metador_core/util/__init__.py",
    "models": "src/metador_core/util/models.py",
    "partial": "src/metador_core/schema/partial.py",
    "core": "src/metador_core/schema/core.py",
    "deco": "src/metador_core/schema/decorators.py",
}
# from which module (suffix of the dotted import path) a module may import the functions of another one
MOD_SUFFIX = {"typing": "util.typing", "util": "util", "partial": "partial", "core": "core", "models": "util.models"}
GEN = ("MetadorModel", "Gen", "SubtypeFns.lean")

HEADER = """import MetadorModel.Py.SubtypePy
/-! GENERATED on every run by harness/translate_c13.py from util/typing.py, util/__init__.py,
    schema/partial.py, schema/core.py, schema/decorators.py of the repository. Do not edit.
    Value dictionary: Py/SubtypePy.lean. -/
set_option linter.unusedVariables false
namespace MetadorModel.Gen.SubtypeFns
open MetadorModel MetadorModel.Codec MetadorModel.Subtype MetadorModel.SubtypePy
"""
FOOTER = "\nend MetadorModel.Gen.SubtypeFns\n"

# kind -> Lean type
KT = {
    "hint": "Hint", "hints": "List Hint", "bool": "Bool", "nat": "Nat", "str": "Str", "strs": "List Str",
    "strset": "List Str", "hintdict": "List (Str × Hint)", "jsondict": "List (Str × Json)", "json": "Json",
    "cls": "PyCls", "clss": "List PyCls", "view": "ClsView", "field": "PyField", "optfield": "Option PyField",
    "fielddict": "List (Str × PyField)", "extra": "Extra", "origin": "Origin", "shape": "Shape",
    "inspdict": "List (Str × FieldInsp)", "insp": "FieldInsp", "clsdict": "List (Str × PyCls)",
    "optref": "Option Ref", "opthint": "Option Hint", "optcls": "Option PyCls", "unit": "Unit",
    "hintitem": "Str × Hint", "jsonitem": "Str × Json",
}
OPT_OF = {"optfield": "field", "opthint": "hint", "optcls": "cls"}
ELEM_OF = {"hints": "hint", "strs": "str", "strset": "str", "clss": "cls"}
DICT_VAL = {"hintdict": "hint", "jsondict": "json", "fielddict": "field", "inspdict": "insp", "clsdict": "cls"}
EXC = {"TypeError": "typeError", "ValueError": "valueError", "KeyError": "keyError", "IndexError": "indexError",
       "AttributeError": "attributeError", "RecursionError": "recursionError"}
MODES = ["pure", "E", "SM"]
MON = {"E": "E", "SM": "SM"}


class Spec:
    def __init__(self, mod, name, params, shape="fn", inner=None, cls=None, lean=None):
        self.mod, self.name, self.params, self.shape, self.inner, self.cls = mod, name, params, shape, inner, cls
        self.lean = lean or name


# the functions that are translated, with the kinds of their parameters (positional, then keyword-only)
SPECS = [
    Spec("typing", "is_list", ["hint"]),
    Spec("typing", "is_set", ["hint"]),
    Spec("typing", "is_union", ["hint"]),
    Spec("typing", "is_classvar", ["hint"]),
    Spec("typing", "is_annotated", ["hint"]),
    Spec("typing", "is_literal", ["hint"]),
    Spec("typing", "is_nonetype", ["hint"]),
    Spec("typing", "is_optional", ["hint"]),
    Spec("typing", "_has_literal", ["hint"]),
    Spec("typing", "is_subtype", ["hint", "hint"]),
    Spec("util", "is_public_name", ["str"]),
    Spec("partial", "_is_list_or_set", ["hint"]),
    Spec("partial", "_check_type_mergeable", ["hint", "bool"]),
    Spec("partial", "is_mergeable_type", ["hint"]),
    Spec("core", "is_pub_instance_field", ["cls", "str", "hint"]),
    Spec("core", "detect_field_overrides", ["cls"]),
    Spec("core", "check_overrides", ["cls"]),
    Spec("core", "check_allowed_types", ["cls"]),
    Spec("core", "check_types", ["cls", "bool", "optref"]),
    Spec("core", "__new__", ["view", "view"], shape="tail", cls="SchemaMagic", lean="new_policy"),
    Spec("deco", "_expect_schema_class", ["view"]),
    Spec("deco", "_check_names_public", ["strs"]),
    Spec("deco", "make_mandatory", ["strs"], shape="deco", inner=["view"]),
    Spec("deco", "add_const_fields", ["jsondict", "bool"], shape="deco", inner=["view"]),
    Spec("deco", "override", ["strs"], shape="deco", inner=["view"]),
]

# definitions the dictionary entries stand for: if one of them changes, the dictionary has to be re-read
ANCHORS = {
    "typing": ["get_args", "get_origin", "to38hint", "NoneType", "make_tree_traversal", "traverse_typehint", "unoptional",
               "is_subclass_of", "is_instance_of", "is_enum", "get_annotations", "get_type_hints"],
    "models": ["field_origins", "field_parent_type", "field_atomic_types"],
}
ANCHOR_SHA = "b3381367604baf8ac6d066d3f05743019e150286"


def _d(e):
    try:
        return ast.unparse(e).replace("\n", " ")[:90]
    except Exception:  # noqa: BLE001
        return ast.dump(e)[:90]


def _bad(what, node=None):
    where = " (line %d)" % node.lineno if node is not None and hasattr(node, "lineno") else ""
    raise TranslateError(what + where)


def lean_str(s):
    if not all(32 <= ord(c) < 127 and c not in '"\\' for c in s):
        _bad("string constant %r outside the printable ASCII subset" % s)
    return '"%s".toList' % s


class Need(Exception):
    def __init__(self, mode):
        self.mode = mode


class Var:
    def __init__(self, lean, kind):
        self.lean, self.kind = lean, kind


class Info:
    """what is known about a translated function"""

    def __init__(self, spec):
        self.spec = spec
        self.mode = "pure"
        self.fuel = False
        self.rec = False
        self.needsT = False
        self.needsOrd = False
        self.ret = None
        self.params = []      # [(python name, kind, default lean text or None)]
        self.lines = (0, 0)


# ----------------------------------------------------------------------------- source access
class Module:
    def __init__(self, key):
        self.key = key
        path = os.path.join(envshim.REPO, SRC[key])
        try:
            self.tree = ast.parse(open(path).read(), filename=path)
        except (OSError, SyntaxError) as e:
            raise TranslateError("cannot parse %s: %s" % (SRC[key], e))
        self.defs = {}
        self.assigns = {}
        self.imports = {}     # local name -> (module path, original name)
        self.aliases = {}     # local alias -> module path (import x as y / from p import m as y)
        for n in self.tree.body:
            if isinstance(n, (ast.FunctionDef, ast.ClassDef)):
                self.defs.setdefault(n.name, []).append(n)
            elif isinstance(n, ast.Assign) and len(n.targets) == 1 and isinstance(n.targets[0], ast.Name):
                self.assigns.setdefault(n.targets[0].id, []).append(n)
            elif isinstance(n, ast.AnnAssign) and isinstance(n.target, ast.Name) and n.value is not None:
                self.assigns.setdefault(n.target.id, []).append(n)
            elif isinstance(n, ast.ImportFrom):
                for a in n.names:
                    self.imports[a.asname or a.name] = ((n.module or ""), a.name)
            elif isinstance(n, ast.Import):
                for a in n.names:
                    self.aliases[a.asname or a.name] = a.name

    def func(self, name, cls=None):
        if cls:
            cs = self.defs.get(cls, [])
            if len(cs) != 1 or not isinstance(cs[0], ast.ClassDef):
                _bad("%d definitions of class %s in %s" % (len(cs), cls, SRC[self.key]))
            fs = [n for n in cs[0].body if isinstance(n, ast.FunctionDef) and n.name == name]
        else:
            fs = [n for n in self.defs.get(name, []) if isinstance(n, ast.FunctionDef)]
            if name in self.assigns:
                _bad("%s is also assigned at module level in %s" % (name, SRC[self.key]))
        if len(fs) != 1:
            _bad("%d definitions of %s in %s" % (len(fs), name, SRC[self.key]))
        if fs[0].decorator_list:
            _bad("%s is decorated" % name, fs[0])
        return fs[0]


def strip_doc(body):
    body = list(body)
    if body and isinstance(body[0], ast.Expr) and isinstance(body[0].value, ast.Constant) and isinstance(body[0].value.value, str):
        body = body[1:]
    return body


def _norm_dump(node):
    if isinstance(node, (ast.FunctionDef, ast.ClassDef)):
        node = ast.FunctionDef(name=node.name, args=getattr(node, "args", None), body=strip_doc(node.body),
                               decorator_list=node.decorator_list, returns=None, type_comment=None) \
            if isinstance(node, ast.FunctionDef) else node
    return ast.dump(node, annotate_fields=False, include_attributes=False)


def anchor_digest(mods):
    h = hashlib.sha1()
    for key in sorted(ANCHORS):
        m = mods[key]
        for name in ANCHORS[key]:
            nodes = m.defs.get(name, []) + m.assigns.get(name, [])
            if len(nodes) != 1:
                _bad("dictionary anchor: %d definitions of %s in %s" % (len(nodes), name, SRC[key]))
            h.update(name.encode())
            h.update(_norm_dump(nodes[0]).encode())
    return h.hexdigest()


# ----------------------------------------------------------------------------- syntactic preparation
def _walk_no_nested(node):
    """ast.walk that does not enter nested function definitions / lambdas"""
    todo = [node]
    while todo:
        n = todo.pop()
        yield n
        for c in ast.iter_child_nodes(n):
            if isinstance(c, (ast.FunctionDef, ast.Lambda, ast.AsyncFunctionDef)):
                continue
            todo.append(c)


def unwalrus(stmts):
    """`if x := e: …` -> `x = e; if x: …` (also in elif chains)"""
    out = []
    for s in stmts:
        if isinstance(s, ast.If):
            s = ast.If(test=s.test, body=unwalrus(s.body), orelse=unwalrus(s.orelse), lineno=s.lineno)
            if isinstance(s.test, ast.NamedExpr):
                tgt, val = s.test.target, s.test.value
                out.append(ast.Assign(targets=[ast.Name(id=tgt.id, ctx=ast.Store())], value=val, lineno=s.lineno))
                s = ast.If(test=ast.Name(id=tgt.id, ctx=ast.Load()), body=s.body, orelse=s.orelse, lineno=s.lineno)
            elif (isinstance(s.test, ast.UnaryOp) and isinstance(s.test.op, ast.Not) and isinstance(s.test.operand, ast.NamedExpr)):
                tgt, val = s.test.operand.target, s.test.operand.value
                out.append(ast.Assign(targets=[ast.Name(id=tgt.id, ctx=ast.Store())], value=val, lineno=s.lineno))
                s = ast.If(test=ast.UnaryOp(op=ast.Not(), operand=ast.Name(id=tgt.id, ctx=ast.Load())), body=s.body,
                           orelse=s.orelse, lineno=s.lineno)
            out.append(s)
        elif isinstance(s, ast.For):
            out.append(ast.For(target=s.target, iter=s.iter, body=unwalrus(s.body), orelse=s.orelse, lineno=s.lineno))
        elif isinstance(s, ast.Try):
            hs = [ast.ExceptHandler(type=h.type, name=h.name, body=unwalrus(h.body), lineno=h.lineno) for h in s.handlers]
            out.append(ast.Try(body=unwalrus(s.body), handlers=hs, orelse=s.orelse, finalbody=s.finalbody, lineno=s.lineno))
        else:
            out.append(s)
    for s in out:
        for n in _walk_no_nested(s):
            if isinstance(n, ast.NamedExpr):
                _bad("`:=` outside the test of an if-statement: `%s`" % _d(n), s)
    return out


class _Subst(ast.NodeTransformer):
    def __init__(self, dump, name):
        self.dump, self.name, self.count = dump, name, 0

    def visit(self, node):
        if isinstance(node, ast.Subscript) and isinstance(node.ctx, ast.Load) and ast.dump(node) == self.dump:
            self.count += 1
            return ast.Name(id=self.name, ctx=ast.Load())
        return self.generic_visit(node)


def dict_value_loops(stmts, counter=None):
    """`for k in D: … D[k] …` with `k` used for nothing else and `D` a name / attribute chain that the body does
    not assign  ->  iteration over the values of `D` (a fact about Python dicts that are not changed meanwhile)"""
    counter = counter if counter is not None else [0]
    out = []
    for s in stmts:
        if isinstance(s, ast.For):
            body = list(s.body)
            if isinstance(s.target, ast.Name) and _is_chain(s.iter):
                k = s.target.id
                sub = ast.Subscript(value=s.iter, slice=ast.Name(id=k, ctx=ast.Load()), ctx=ast.Load())
                counter[0] += 1
                vname = "%s__value%d" % (k, counter[0])
                tr = _Subst(ast.dump(sub), vname)
                nb = [tr.visit(_copy(b)) for b in body]
                left = sum(1 for b in nb for n in ast.walk(b) if isinstance(n, ast.Name) and n.id == k)
                roots = {n.id for n in ast.walk(s.iter) if isinstance(n, ast.Name)}
                stored = {n.id for b in body for n in ast.walk(b) if isinstance(n, ast.Name) and isinstance(n.ctx, ast.Store)}
                if tr.count and not left and not (roots & stored):
                    it = ast.Call(func=ast.Attribute(value=s.iter, attr="values", ctx=ast.Load()), args=[], keywords=[])
                    s = ast.For(target=ast.Name(id=vname, ctx=ast.Store()), iter=it, body=nb, orelse=s.orelse, lineno=s.lineno)
                    body = nb
            out.append(ast.For(target=s.target, iter=s.iter, body=dict_value_loops(body, counter), orelse=s.orelse, lineno=s.lineno))
        elif isinstance(s, ast.If):
            out.append(ast.If(test=s.test, body=dict_value_loops(s.body, counter), orelse=dict_value_loops(s.orelse, counter), lineno=s.lineno))
        elif isinstance(s, ast.Try):
            hs = [ast.ExceptHandler(type=h.type, name=h.name, body=dict_value_loops(h.body, counter), lineno=h.lineno) for h in s.handlers]
            out.append(ast.Try(body=dict_value_loops(s.body, counter), handlers=hs, orelse=s.orelse, finalbody=s.finalbody, lineno=s.lineno))
        else:
            out.append(s)
    return out


def _copy(node):
    import copy
    return copy.deepcopy(node)


def _is_chain(e):
    while isinstance(e, (ast.Attribute, ast.Subscript)):
        if isinstance(e, ast.Subscript) and not isinstance(e.slice, ast.Name):
            return False
        e = e.value
    return isinstance(e, ast.Name)


def msg_only_names(stmts):
    """local names that only feed exception messages (every load is inside `raise X(…)`, an f-string or the value
    assigned to another such name); they are dropped together with the message"""
    stores = set()
    for s in stmts:
        for n in _walk_no_nested(s):
            if isinstance(n, ast.Name) and isinstance(n.ctx, ast.Store):
                stores.add(n.id)
    cand = set(stores)

    def loads_outside(node, in_msg, acc):
        if isinstance(node, (ast.FunctionDef, ast.Lambda)):
            for n in ast.walk(node):
                if isinstance(n, ast.Name) and isinstance(n.ctx, ast.Load):
                    acc.add(n.id)
            return
        if isinstance(node, ast.Raise):
            if node.exc is not None and isinstance(node.exc, ast.Call):
                for a in node.exc.args:
                    loads_outside(a, True, acc)
                return
        if isinstance(node, ast.JoinedStr):
            in_msg = True
        if isinstance(node, (ast.Assign, ast.AugAssign, ast.AnnAssign)):
            tg = node.targets if isinstance(node, ast.Assign) else [node.target]
            if all(isinstance(t, ast.Name) and t.id in cand for t in tg) and node.value is not None:
                loads_outside(node.value, True, acc)
                return
        if isinstance(node, ast.Name) and isinstance(node.ctx, ast.Load) and not in_msg:
            acc.add(node.id)
        for c in ast.iter_child_nodes(node):
            loads_outside(c, in_msg, acc)

    while True:
        acc = set()
        for s in stmts:
            loads_outside(s, False, acc)
        new = {c for c in cand if c not in acc}
        if new == cand:
            return cand
        cand = new


def may_leave(stmts):
    for s in stmts:
        for n in _walk_no_nested(s):
            if isinstance(n, (ast.Return, ast.Raise, ast.Continue, ast.Break)):
                return True
    return False


def always_leaves(stmts):
    for s in stmts:
        if isinstance(s, (ast.Return, ast.Raise, ast.Continue)):
            return True
        if isinstance(s, ast.If) and s.orelse and always_leaves(s.body) and always_leaves(s.orelse):
            return True
    return False


MUTATORS = {"add", "update", "append"}


def _base_name(e):
    while isinstance(e, (ast.Attribute, ast.Subscript)):
        e = e.value
    return e.id if isinstance(e, ast.Name) else None


def assigned_names(stmts, top_only=False):
    """python names (re)bound or whose object is updated in place, in order of first appearance"""
    out = []

    def add(n):
        if n and n not in out:
            out.append(n)
    for s in stmts:
        nodes = [s] if top_only else list(_walk_no_nested(s))
        if top_only and isinstance(s, ast.If):
            a = assigned_names(s.body, True)
            b = assigned_names(s.orelse, True)
            for n in a:
                if n in b:
                    add(n)
        for n in nodes:
            if isinstance(n, (ast.Assign, ast.AnnAssign, ast.AugAssign)):
                for t in (n.targets if isinstance(n, ast.Assign) else [n.target]):
                    if isinstance(t, (ast.Tuple, ast.List)):
                        for x in t.elts:
                            add(_base_name(x))
                    elif isinstance(t, ast.Attribute) and t.attr == "__types_checked__":
                        pass        # a change of the state, not of a local object
                    else:
                        add(_base_name(t))
            elif isinstance(n, ast.For) and not top_only:
                for x in ast.walk(n.target):
                    if isinstance(x, ast.Name):
                        add(x.id)
            elif isinstance(n, ast.Expr) and isinstance(n.value, ast.Call) and isinstance(n.value.func, ast.Attribute) \
                    and n.value.func.attr in MUTATORS:
                add(_base_name(n.value.func.value))
    return out


# ----------------------------------------------------------------------------- one function
ORIGINS = {"List": "Origin.List", "Set": "Origin.Set", "Union": "Origin.Union", "ClassVar": "Origin.ClassVar",
           "Annotated": "Origin.Annotated", "Literal": "Origin.Literal"}


class Tr:
    def __init__(self, gen, info, mod, mode):
        self.gen, self.info, self.mod, self.mode = gen, info, mod, mode
        self.n = 0
        self.pending = []      # hoisted computations: [(lean name, term, safe)]
        self.msgonly = set()
        self.exc_var = None
        self.usesT = False
        self.usesOrd = False
        self.usesFuel = False
        self.ret_kind = None

    # ------------------------------------------------------------------ helpers
    def tmp(self):
        self.n += 1
        return "t%d" % self.n

    def need(self, mode):
        if MODES.index(self.mode) < MODES.index(mode):
            raise Need(mode)

    def bind(self, term, term_mode="E", safe=False, name=None):
        """hoist a computation in the monad; returns the name of its result"""
        self.need(term_mode)
        if self.mode == "SM" and term_mode == "E":
            term = "liftE (%s)" % term
        name = name or self.tmp()
        self.pending.append((name, term, safe))
        return name

    def take(self):
        p, self.pending = self.pending, []
        return p

    @staticmethod
    def wrap(pend, body, ind):
        for name, term, _ in reversed(pend):
            body = "%s(%s >>= fun %s =>\n%s)" % (ind, term, name, body)
        return body

    def guarded(self, f, what, node):
        """an operand that is evaluated conditionally (short-circuit): nothing that can raise may be hoisted out"""
        k = len(self.pending)
        r = f()
        if any(not safe for _, _, safe in self.pending[k:]):
            _bad("%s: an operation that can raise is evaluated conditionally inside an expression: `%s`" % (what, _d(node)), node)
        return r

    def T(self):
        self.usesT = True
        return "T"

    def pure(self, text):
        return "(pure %s)" % text if self.mode != "pure" else text

    def throw(self, exc):
        self.need("E")
        return "(SM.throw PyErr.%s)" % exc if self.mode == "SM" else "(throw PyErr.%s)" % exc

    def truth(self, t, k, node):
        if k == "bool":
            return t
        if k in ("strset", "strs", "hints", "clss") or k in DICT_VAL:
            return "(!(List.isEmpty %s))" % t
        if k in OPT_OF or k == "optref":
            return "(Option.isSome %s)" % t
        if k in ("view", "cls", "field"):
            return "true"
        _bad("truth value of a %s: `%s`" % (k, _d(node)), node)

    def cond(self, e, env):
        t, k = self.expr(e, env)
        return self.truth(t, k, e)

    def callee(self, f):
        """canonical name of what is called / referred to"""
        if isinstance(f, ast.Name):
            return f.id
        if isinstance(f, ast.Attribute) and isinstance(f.value, ast.Name):
            base = f.value.id
            imp = self.mod.imports.get(base)
            if imp and imp[1] == "typing" and imp[0].endswith("util"):
                return f.attr                       # `t.is_union` with `from ..util import typing as t`
            if imp and imp == ("runtype", "validation"):
                return "rv." + f.attr
            if base == "ModelField" and imp and imp[0] == "pydantic.fields":
                return "ModelField." + f.attr
            if base == "Extra" and imp and imp[0] == "pydantic":
                return "Extra." + f.attr
        return None

    def check_origin(self, name, info):
        """the bare name `name` in this module must be the translated function `info`"""
        target = info.spec.mod
        if target == self.mod.key:
            if name not in self.mod.defs:
                _bad("%s is not defined in %s" % (name, SRC[self.mod.key]))
            return
        imp = self.mod.imports.get(name)
        if imp is None:
            return  # reached through a module alias (checked by `callee`)
        if imp[1] != info.spec.name or not ("." + imp[0]).endswith("." + MOD_SUFFIX[target]):
            _bad("`%s` in %s is imported from %s.%s, not from %s" % (name, SRC[self.mod.key], imp[0], imp[1], MOD_SUFFIX[target]))

    # ------------------------------------------------------------------ expressions
    def expr(self, e, env):
        if isinstance(e, ast.Name):
            if e.id in env:
                v = env[e.id]
                return v.lean, v.kind
            if e.id in ORIGINS:
                return ORIGINS[e.id], "origin"
            if e.id == "NoneType":
                return "Hint.noneType", "hint"
            if e.id == "MetadataSchema":
                return "PyCls.root", "cls"
            if e.id == "SHAPE_SINGLETON":
                return "Shape.singleton", "shape"
            if e.id in self.msgonly:
                _bad("`%s` only feeds messages but is used as a value" % e.id, e)
            info = self.gen.infos.get(e.id)
            if info is not None:
                return self.fn_value(e.id, info, e)
            _bad("unknown name `%s`" % e.id, e)
        if isinstance(e, ast.Constant):
            if e.value is None:
                return "none", "none"
            if e.value is True:
                return "true", "bool"
            if e.value is False:
                return "false", "bool"
            if isinstance(e.value, str):
                return "(%s)" % lean_str(e.value), "str"
            if isinstance(e.value, int) and e.value >= 0:
                return str(e.value), "nat"
            _bad("constant %r" % (e.value,), e)
        if isinstance(e, ast.List) and not e.elts:
            self.need("SM")
            r = self.bind("newList", "SM")
            return "(some %s)" % r, "optref"
        if isinstance(e, ast.Dict) and not e.keys:
            return "[]", "emptydict"
        if isinstance(e, ast.Tuple):
            _bad("tuple value `%s`" % _d(e), e)
        if isinstance(e, ast.Attribute):
            return self.attribute(e, env)
        if isinstance(e, ast.Subscript):
            return self.subscript(e, env)
        if isinstance(e, ast.Compare):
            return self.compare(e, env)
        if isinstance(e, ast.UnaryOp) and isinstance(e.op, ast.Not):
            return "(!%s)" % self.cond(e.operand, env), "bool"
        if isinstance(e, ast.BoolOp):
            first = self.cond(e.values[0], env)
            rest = [self.guarded(lambda v=v: self.cond(v, env), "and/or", v) for v in e.values[1:]]
            return "(%s)" % (" || " if isinstance(e.op, ast.Or) else " && ").join([first] + rest), "bool"
        if isinstance(e, ast.BinOp) and isinstance(e.op, ast.Sub):
            a, ka = self.expr(e.left, env)
            b, kb = self.expr(e.right, env)
            if ka in ("strset",) and kb in ("strset",):
                return "(setDiff %s %s)" % (a, b), "strset"
            _bad("`-` on %s and %s: `%s`" % (ka, kb, _d(e)), e)
        if isinstance(e, ast.IfExp):
            c = self.cond(e.test, env)
            a = self.guarded(lambda: self.expr(e.body, env), "conditional expression", e.body)
            b = self.guarded(lambda: self.expr(e.orelse, env), "conditional expression", e.orelse)
            a, b, k = self.unify(a, b, e)
            return "(if %s then %s else %s)" % (c, a, b), k
        if isinstance(e, ast.Call):
            return self.call(e, env)
        if isinstance(e, ast.Lambda):
            return self.lam(e, env, None)
        if isinstance(e, (ast.SetComp, ast.ListComp, ast.GeneratorExp)):
            return self.comprehension(e, env)
        _bad("unsupported expression `%s`" % _d(e), e)

    def unify(self, a, b, node):
        (ta, ka), (tb, kb) = a, b
        if ka == kb:
            return ta, tb, ka
        for x, y in ((ka, kb), (kb, ka)):
            if x == "none" and (y in OPT_OF or y == "optref"):
                return ta, tb, y
        _bad("operands of different kinds (%s, %s): `%s`" % (ka, kb, _d(node)), node)

    def coerce(self, t, k, want, node):
        if k == want:
            return t
        if k == "none" and (want in OPT_OF or want == "optref"):
            return "none"
        if k == "emptydict" and want in DICT_VAL:
            return "[]"
        if {k, want} == {"strs", "strset"}:
            return t
        if want in OPT_OF and OPT_OF[want] == k:
            return "(some %s)" % t
        _bad("a %s is used where a %s is expected: `%s`" % (k, want, _d(node)), node)

    def attribute(self, e, env):
        a = e.attr
        # Extra.forbid & co.
        c = self.callee(e)
        if c and "." not in c and isinstance(e.value, ast.Name) and e.value.id not in env:
            return self.expr(ast.Name(id=c, ctx=ast.Load(), lineno=getattr(e, "lineno", 0)), env)
        if c and c.startswith("Extra.") and c[6:] in ("forbid", "allow", "ignore"):
            return "Extra." + c[6:], "extra"
        # X.__base__.__config__.extra / X.__config__.extra
        if a == "extra" and isinstance(e.value, ast.Attribute) and e.value.attr == "__config__":
            o = e.value.value
            if isinstance(o, ast.Attribute) and o.attr == "__base__":
                t, k = self.expr(o.value, env)
                if k == "view":
                    return "%s.baseExtra" % t, "extra"
            else:
                t, k = self.expr(o, env)
                if k == "view":
                    return "%s.extra" % t, "extra"
            _bad("`%s` is not in the table" % _d(e), e)
        t, k = self.expr(e.value, env)
        if k == "cls":
            tab = {"_typehints": ("clsTypehints", "hintdict"), "_base_typehints": ("clsBaseTypehints", "hintdict"),
                   "__constants__": ("clsConstants", "jsondict"), "__overrides__": ("clsOverrides", "strset"),
                   "__bases__": ("clsBases", "clss"), "Fields": ("clsFields", "inspdict")}
            if a in tab:
                return "(%s %s %s)" % (tab[a][0], self.T(), t), tab[a][1]
            if a == "__types_checked__":
                return self.bind("getChecked %s" % t, "SM", safe=True), "bool"
        if k == "view":
            tab = {"__fields__": ("fields", "fielddict"), "__annotations__": ("annotations", "hintdict"),
                   "__constants__": ("constants", "jsondict"), "__overrides__": ("overrides", "strset")}
            if a in tab:
                return "%s.%s" % (t, tab[a][0]), tab[a][1]
        if k == "field" and a in ("shape", "type_"):
            return "%s.%s" % (t, a), {"shape": "shape", "type_": "hint"}[a]
        if k == "optfield" and a in ("shape", "type_"):
            r = self.bind("optAttr %s" % t, "E")
            return "%s.%s" % (r, a), {"shape": "shape", "type_": "hint"}[a]
        if k == "insp" and a == "schemas":
            return "%s.schemas" % t, "clsdict"
        _bad("attribute `.%s` of a %s is not in the table: `%s`" % (a, k, _d(e)), e)

    def subscript(self, e, env):
        if isinstance(e.value, ast.Name) and e.value.id not in env:
            if e.value.id == "Literal":
                v, k = self.expr(e.slice, env)
                if k != "json":
                    _bad("Literal[…] of a %s" % k, e)
                return "(mkLiteral %s)" % v, "hint"
            if e.value.id == "Optional" and isinstance(e.slice, ast.Name) and e.slice.id == "Any":
                return "Hint.optAny", "hint"
            _bad("`%s` is not in the table" % _d(e), e)
        t, k = self.expr(e.value, env)
        i, ki = self.expr(e.slice, env)
        if k == "hints" and ki == "nat":
            return self.bind("listIdx %s %s" % (t, i), "E"), "hint"
        if k == "str" and ki == "nat":
            return self.bind("strIdx %s %s" % (t, i), "E"), "str"
        if k in DICT_VAL and ki == "str":
            return self.bind("dictGet %s %s" % (t, i), "E"), DICT_VAL[k]
        _bad("`%s`: subscript of a %s with a %s" % (_d(e), k, ki), e)

    def compare(self, e, env):
        if len(e.ops) != 1:
            _bad("chained comparison `%s`" % _d(e), e)
        op = e.ops[0]
        a, ka = self.expr(e.left, env)
        b, kb = self.expr(e.comparators[0], env)
        neg = isinstance(op, (ast.IsNot, ast.NotEq, ast.NotIn))

        def out(t):
            return ("(!%s)" % t if neg else t), "bool"
        if isinstance(op, (ast.Is, ast.IsNot)):
            if kb == "none" and (ka in OPT_OF or ka == "optref"):
                return out("(Option.isNone %s)" % a)
            if ka == "none" and (kb in OPT_OF or kb == "optref"):
                return out("(Option.isNone %s)" % b)
            if ka == "cls" and b == "PyCls.root":
                return out("(isMetadataSchema %s %s)" % (self.T(), a))
            if kb == "cls" and a == "PyCls.root":
                return out("(isMetadataSchema %s %s)" % (self.T(), b))
            if ka == kb and ka in ("origin", "extra", "cls", "shape"):
                return out("(%s == %s)" % (a, b))
            if ka == "hint" and b == "Hint.noneType":
                return out("(Hint.isNoneType %s)" % a)
            if kb == "hint" and a == "Hint.noneType":
                return out("(Hint.isNoneType %s)" % b)
            _bad("`is` on %s and %s: `%s`" % (ka, kb, _d(e)), e)
        if isinstance(op, (ast.Eq, ast.NotEq)):
            if ka == kb and ka in ("bool", "nat", "str", "shape", "extra", "origin"):
                return out("(%s == %s)" % (a, b))
            _bad("`==` on %s and %s: `%s`" % (ka, kb, _d(e)), e)
        if isinstance(op, (ast.In, ast.NotIn)):
            if ka == "str" and kb in DICT_VAL:
                return out("(dictHas %s %s)" % (b, a))
            if ka == "str" and kb in ("strs", "strset"):
                return out("(List.contains %s %s)" % (b, a))
            if kb == "hints" and a == "Hint.noneType":
                return out("(List.any %s Hint.isNoneType)" % b)
            _bad("`in` on %s and %s: `%s`" % (ka, kb, _d(e)), e)
        _bad("comparison `%s`" % _d(e), e)

    # ------------------------------------------------------------------ calls
    def fn_head(self, info, node):
        """`name T setOrder fuel` of a translated function"""
        parts = [info.spec.lean]
        if info.needsT:
            parts.append(self.T())
        if info.needsOrd:
            self.usesOrd = True
            parts.append("setOrder")
        if info.fuel:
            self.usesFuel = True
            parts.append("fuel")
        return " ".join(parts)

    def fn_value(self, name, info, node):
        """a translated function used as a value (argument of map / filter): unary, other parameters defaulted"""
        self.check_origin(name, info)
        if info is self.info:
            self.need("E")
            info.rec = info.fuel = True
        if not info.params:
            _bad("%s has no parameters" % name, node)
        rest = []
        for pn, pk, dflt in info.params[1:]:
            if dflt is None:
                _bad("`%s` used as a unary function but `%s` has no default" % (name, pn), node)
            rest.append(dflt)
        txt = "(fun a => %s a%s)" % (self.fn_head(info, node), "".join(" " + r for r in rest))
        if info.mode == "SM":
            _bad("`%s` changes the state and is used as a value" % name, node)
        return txt, ("fn", info.params[0][1], info.ret, info.mode)

    def lam(self, e, env, argkind):
        a = e.args
        if len(a.args) != 1 or a.vararg or a.kwarg or a.kwonlyargs or a.defaults:
            _bad("lambda with other than one plain parameter", e)
        if argkind is None:
            return "", ("lambda", e, env)
        sub = Tr(self.gen, self.info, self.mod, self.mode)
        sub.msgonly = self.msgonly
        env2 = dict(env)
        env2[a.args[0].arg] = Var("a", argkind)
        try:
            t, k = sub.expr(e.body, env2)
        finally:
            self.usesT |= sub.usesT
            self.usesOrd |= sub.usesOrd
            self.usesFuel |= sub.usesFuel
        if k != "bool":
            t = sub.truth(t, k, e)
            k = "bool"
        if sub.pending:
            body = Tr.wrap(sub.take(), "(pure %s)" % t, "")
            return "(fun a => %s)" % body.replace("\n", " "), ("fn", argkind, k, "E")
        return "(fun a => %s)" % t, ("fn", argkind, k, "pure")

    def fun_arg(self, f, env, argkind, node):
        """a function-valued argument applied to elements of kind `argkind` -> (text, result kind, mode)"""
        t, k = self.expr(f, env)
        if isinstance(k, tuple) and k[0] == "lambda":
            t, k = self.lam(k[1], k[2], argkind)
        if not (isinstance(k, tuple) and k[0] == "fn"):
            _bad("`%s` is not a function of the table" % _d(f), node)
        if k[1] != argkind:
            _bad("`%s` takes a %s and is applied to a %s" % (_d(f), k[1], argkind), node)
        return t, k[2], k[3]

    def seq(self, e, env):
        """an iterable expression -> (text of a List, element kind)"""
        if isinstance(e, ast.Call) and isinstance(e.func, ast.Name) and e.func.id in ("map", "filter") and e.func.id not in env:
            return self.map_filter(e, env)
        t, k = self.expr(e, env)
        if k in ELEM_OF:
            return t, ELEM_OF[k]
        if k in DICT_VAL:
            return "(dictKeys %s)" % t, "str"
        _bad("`%s` (a %s) is not an iterable of the table" % (_d(e), k), e)

    def map_filter(self, e, env):
        if len(e.args) != 2 or e.keywords:
            _bad("`%s`: map / filter with other than two arguments" % _d(e), e)
        xs, ek = self.seq(e.args[1], env)
        f, rk, fm = self.fun_arg(e.args[0], env, ek, e)
        if e.func.id == "map":
            if fm != "pure":
                return ("M", f, xs, ek, rk), "lazy"
            return "(List.map %s %s)" % (f, xs), rk
        if rk != "bool":
            _bad("filter with a function returning a %s" % rk, e)
        if fm != "pure":
            return self.bind("filterM %s %s" % (f, xs), "E"), ek
        return "(List.filter %s %s)" % (f, xs), ek

    def list_of(self, x, node):
        """(text, elemkind) of seq() -> text; a lazily mapped monadic function is forced here"""
        t, k = x
        if k == "lazy":
            _, f, xs, ek, rk = t
            return self.bind("mapM' %s %s" % (f, xs), "E"), rk
        return t, k

    def kind_of_elems(self, k):
        return {"hint": "hints", "str": "strs", "cls": "clss"}.get(k)

    def comprehension(self, e, env):
        if len(e.generators) != 1 or e.generators[0].is_async:
            _bad("comprehension with several generators", e)
        g = e.generators[0]
        it = g.iter
        if not (isinstance(it, ast.Call) and isinstance(it.func, ast.Attribute) and it.func.attr == "items" and not it.args):
            _bad("comprehension over `%s` is not in the table (only `<dict>.items()`)" % _d(it), e)
        d, dk = self.expr(it.func.value, env)
        if dk not in ("hintdict", "jsondict"):
            _bad("`.items()` of a %s" % dk, e)
        tg = g.target
        if not (isinstance(tg, ast.Tuple) and len(tg.elts) == 2 and all(isinstance(x, ast.Name) for x in tg.elts)):
            _bad("comprehension target `%s`" % _d(tg), e)
        kn, vn = tg.elts[0].id, tg.elts[1].id
        if not (isinstance(e.elt, ast.Name) and e.elt.id == kn):
            _bad("comprehension element `%s` is not the key" % _d(e.elt), e)
        sub = Tr(self.gen, self.info, self.mod, self.mode)
        sub.msgonly = self.msgonly
        env2 = dict(env)
        env2[kn] = Var("it.1", "str")
        env2[vn] = Var("it.2", DICT_VAL[dk])
        conds = []
        try:
            for c in g.ifs:
                conds.append(sub.cond(c, env2))
        finally:
            self.usesT |= sub.usesT
            self.usesOrd |= sub.usesOrd
            self.usesFuel |= sub.usesFuel
        ctext = "(%s)" % " && ".join(conds) if conds else "true"
        if len(g.ifs) > 1 and sub.pending:
            _bad("several conditions that can raise in a comprehension", e)
        kind = "strset" if isinstance(e, ast.SetComp) else "strs"
        if sub.pending:
            body = Tr.wrap(sub.take(), "(pure %s)" % ctext, "").replace("\n", " ")
            r = self.bind("filterM (fun it => %s) %s" % (body, d), "E")
            return "(dictKeys %s)" % r, kind
        return "(dictKeys (List.filter (fun it => %s) %s))" % (ctext, d), kind

    def call(self, e, env):
        f = e.func
        name = self.callee(f)
        kw = {k.arg: k.value for k in e.keywords}
        if any(k.arg is None for k in e.keywords) or any(isinstance(a, ast.Starred) for a in e.args):
            _bad("* / ** in a call: `%s`" % _d(e), e)
        if isinstance(f, ast.Name) and f.id in env:
            _bad("call of the local value `%s`" % f.id, e)
        # ---- translated functions
        info = self.gen.infos.get(name) if name else None
        if info is not None and info.spec.shape == "fn":
            if isinstance(f, ast.Name):
                self.check_origin(name, info)
            return self.call_translated(info, e, env)
        # ---- builtins / dictionary
        n = len(e.args)
        if name == "cast" and n == 2 and not kw:
            return self.expr(e.args[1], env)
        if name == "set" and not kw:
            if n == 0:
                return "[]", "strset"
            t, k = self.list_of(self.seq(e.args[0], env), e)
            if k != "str":
                _bad("set(…) of %s elements" % k, e)
            return t, "strset"
        if name == "len" and n == 1 and not kw:
            t, k = self.expr(e.args[0], env)
            if k in ELEM_OF or k in DICT_VAL:
                return "(List.length %s)" % t, "nat"
            _bad("len of a %s" % k, e)
        if name in ("any", "all") and n == 1 and not kw:
            x = self.seq(e.args[0], env)
            if x[1] == "lazy":
                _, fn, xs, ek, rk = x[0]
                if rk != "bool":
                    _bad("%s over %s values" % (name, rk), e)
                return self.bind("%sM %s %s" % (name, fn, xs), "E"), "bool"
            if x[1] != "bool":
                _bad("%s over %s values" % (name, x[1]), e)
            return "(List.%s %s id)" % (name, x[0]), "bool"
        if name == "next" and n == 2 and not kw and isinstance(e.args[1], ast.Constant) and e.args[1].value is None:
            t, k = self.list_of(self.seq(e.args[0], env), e)
            opt = {"hint": "opthint", "cls": "optcls"}.get(k)
            if not opt:
                _bad("next(…) over %s values" % k, e)
            return "(List.head? %s)" % t, opt
        if name in ("map", "filter"):
            t, k = self.list_of(self.map_filter(e, env), e)
            kk = self.kind_of_elems(k)
            if not kk:
                _bad("list of %s values" % k, e)
            return t, kk
        if name == "isinstance" and n == 2 and not kw:
            a, ka = self.expr(e.args[0], env)
            b, kb = self.expr(e.args[1], env)
            if ka == "json" and kb == "hint":
                return "(isinstanceOfHint %s %s)" % (a, b), "bool"
            _bad("isinstance on %s, %s" % (ka, kb), e)
        if name == "issubclass" and n == 2 and not kw:
            a, ka = self.expr(e.args[0], env)
            b, kb = self.expr(e.args[1], env)
            if b == "PyCls.root" and ka == "cls":
                return "(isSchemaClass %s)" % a, "bool"
            if b == "PyCls.root" and ka == "view":
                return "true", "bool"
            _bad("issubclass on %s, `%s`" % (ka, _d(e.args[1])), e)
        if name == "getattr" and n == 3 and not kw:
            a, ka = self.expr(e.args[0], env)
            if ka == "view" and isinstance(e.args[1], ast.Constant) and e.args[1].value == "__constants__" \
                    and isinstance(e.args[2], ast.Dict) and not e.args[2].keys:
                return "%s.constants" % a, "jsondict"
            _bad("getattr `%s`" % _d(e), e)
        if name == "get_annotations" and n == 1 and not kw:
            a, ka = self.expr(e.args[0], env)
            if ka == "cls":
                return "(clsAnnotations %s %s)" % (self.T(), a), "hintdict"
            if ka == "view":
                return "%s.annotations" % a, "hintdict"
            _bad("get_annotations of a %s" % ka, e)
        simple = {"get_args": ("getArgs", "hint", "hints"), "get_origin": ("getOrigin", "hint", "origin"),
                  "traverse_typehint": ("traverseTypehint", "hint", "hints"), "unoptional": ("unoptional", "hint", "hint"),
                  "is_enum": ("isEnum", "hint", "bool")}
        if name in simple and n == 1 and not kw:
            a, ka = self.expr(e.args[0], env)
            fn, want, res = simple[name]
            if ka != want:
                _bad("%s of a %s" % (name, ka), e)
            return "(%s %s)" % (fn, a), res
        if name == "rv.is_subtype" and n == 2 and not kw:
            a, ka = self.expr(e.args[0], env)
            b, kb = self.expr(e.args[1], env)
            if ka != "hint" or kb != "hint":
                _bad("rv.is_subtype on %s, %s" % (ka, kb), e)
            return self.bind("rvIsSubtype %s %s %s" % (self.T(), a, b), "E"), "bool"
        if name == "field_parent_type" and n == 2 and not kw:
            a, ka = self.expr(e.args[0], env)
            b, kb = self.expr(e.args[1], env)
            if ka != "view" or kb != "str":
                _bad("field_parent_type on %s, %s" % (ka, kb), e)
            return self.bind("fieldParentType %s %s" % (a, b), "E"), "hint"
        if name == "is_subclass_of" and n == 1 and isinstance(e.args[0], ast.Name) and e.args[0].id == "UndefVersion":
            return "isUndefVersion", ("fn", "hint", "bool", "pure")
        if name == "is_instance_of" and n == 1 and isinstance(e.args[0], ast.Name) and e.args[0].id == "type":
            return "isTypeObj", ("fn", "hint", "bool", "pure")
        if name == "ModelField.infer" and n == 0 and set(kw) == {"name", "value", "annotation", "class_validators", "config"}:
            a, ka = self.expr(kw["annotation"], env)
            if ka != "hint":
                _bad("annotation of ModelField.infer is a %s" % ka, e)
            for x in ("name", "value"):
                self.expr(kw[x], env)
            return "(fieldOfHint %s)" % a, "field"
        # ---- methods
        if isinstance(f, ast.Attribute):
            m = f.attr
            if m in ("keys", "items", "values") and n == 0 and not kw:
                t, k = self.expr(f.value, env)
                if k in DICT_VAL and m == "keys":
                    return "(dictKeys %s)" % t, "strs"
                if k in DICT_VAL and m == "values":
                    vk = self.kind_of_elems(DICT_VAL[k])
                    if vk:
                        return "(dictValues %s)" % t, vk
                    return "(dictValues %s)" % t, ("listof", DICT_VAL[k])
                if m == "items" and k in ("hintdict", "jsondict"):
                    return t, ("items", k)
                _bad("`.%s()` of a %s" % (m, k), e)
            if m == "get" and n == 1 and not kw:
                t, k = self.expr(f.value, env)
                a, ka = self.expr(e.args[0], env)
                if k == "fielddict" and ka == "str":
                    return "(dictGet? %s %s)" % (a, t), "optfield"
                _bad("`.get` of a %s" % k, e)
            if m == "intersection" and n == 1 and not kw:
                t, k = self.expr(f.value, env)
                a, ka = self.expr(e.args[0], env)
                if k in ("strset",) and ka in ("strset", "strs"):
                    return "(setInter %s %s)" % (t, a), "strset"
                _bad("`.intersection` on %s, %s" % (k, ka), e)
        _bad("call `%s` is not in the table" % _d(e), e)

    def call_translated(self, info, e, env):
        names = [p[0] for p in info.params]
        npos = info.npos
        if len(e.args) > npos:
            _bad("too many positional arguments: `%s`" % _d(e), e)
        given = {}
        for pn, a in zip(names, e.args):
            given[pn] = a
        for k in e.keywords:
            if k.arg not in names or k.arg in given:
                _bad("unexpected keyword `%s` in `%s`" % (k.arg, _d(e)), e)
            given[k.arg] = k.value
        done = {}
        for a in list(e.args) + [k.value for k in e.keywords]:   # evaluation order as written
            done[id(a)] = self.expr(a, env)
        args = []
        for pn, pk, dflt in info.params:
            if pn in given:
                t, k = done[id(given[pn])]
                args.append(self.coerce(t, k, pk, given[pn]))
            elif dflt is not None:
                args.append(dflt)
            else:
                _bad("missing argument `%s` in `%s`" % (pn, _d(e)), e)
        if info is self.info:
            self.need("E")
            info.rec = info.fuel = True
        head = self.fn_head(info, e)
        text = "%s %s" % (head, " ".join(args))
        if info.mode == "pure" and info is not self.info:
            return "(%s)" % text, info.ret
        mode = info.mode if info is not self.info else self.mode
        if mode == "pure":
            mode = "E"
        r = self.bind(text, mode)
        return (r if info.ret != "unit" else "()"), info.ret

    # ------------------------------------------------------------------ statements
    def tuple_of(self, env, J, kinds, node):
        parts = []
        for n in J:
            v = env.get(n)
            if v is None:
                _bad("`%s` is not bound on every path" % n, node)
            if kinds.setdefault(n, v.kind) != v.kind:
                if v.kind == "none" and (kinds[n] in OPT_OF or kinds[n] == "optref"):
                    pass
                else:
                    _bad("`%s` is a %s on one path and a %s on another" % (n, kinds[n], v.kind), node)
            parts.append(v.lean)
        if not parts:
            return "()"
        return parts[0] if len(parts) == 1 else "(%s)" % ", ".join(parts)

    def unpack(self, env, J, kinds, var="jv"):
        """-> (env after the join, text of the `let`s that take the tuple apart)"""
        env2 = dict(env)
        lets = []
        for i, n in enumerate(J):
            lean = env[n].lean if n in env else "py_" + n
            if len(J) == 1:
                proj = var
            else:
                proj = var + ".2" * i + (".1" if i < len(J) - 1 else "")
            lets.append("let %s := %s;" % (lean, proj))
            env2[n] = Var(lean, kinds[n])
            # aliases of an object that was updated keep pointing to it
            if n in env:
                for m, v in env.items():
                    if v.lean == lean:
                        env2[m] = Var(lean, kinds[n])
        return env2, " ".join(lets)

    def tuple_type(self, J, kinds):
        if not J:
            return "Unit"
        return " × ".join(KT[kinds[n]] for n in J)

    def join_names(self, branches, env, only_env=False):
        """names to carry over a join of several statement lists"""
        J = []
        for b in branches:
            for n in assigned_names(b):
                if n in env and n not in J and n not in self.msgonly:
                    J.append(n)
        tops = [assigned_names(b, top_only=True) for b in branches]
        for n in (tops[0] if tops and not only_env else []):
            if all(n in t for t in tops) and n not in J and n not in env and n not in self.msgonly:
                J.append(n)
        # one entry per Lean variable (aliases)
        seen, out = set(), []
        for n in J:
            lean = env[n].lean if n in env else "py_" + n
            if lean not in seen:
                seen.add(lean)
                out.append(n)
        return out

    def block(self, stmts, env, k, ind, loop=None):
        """Lean term for a statement list; `k(env)` is the term for falling off its end"""
        if not stmts:
            return k(env)
        s, rest = stmts[0], stmts[1:]
        ind2 = ind + "  "

        def go(env2, i=ind):
            return self.block(rest, env2, k, i, loop)

        if isinstance(s, ast.Pass):
            return go(env)
        if isinstance(s, ast.Expr) and isinstance(s.value, ast.Constant) and isinstance(s.value.value, str):
            return go(env)
        if isinstance(s, ast.Return):
            if loop:
                _bad("`return` inside a loop", s)
            return self.ret(s, env, ind)
        if isinstance(s, ast.Continue):
            if not loop:
                _bad("`continue` outside a loop", s)
            return loop(env)
        if isinstance(s, ast.Raise):
            if s.exc is None:
                if not self.exc_var:
                    _bad("bare `raise` outside an except clause", s)
                return "%s(SM.throw %s)" % (ind, self.exc_var)
            x = s.exc
            nm = x.func.id if isinstance(x, ast.Call) and isinstance(x.func, ast.Name) else (x.id if isinstance(x, ast.Name) else None)
            if nm not in EXC or (isinstance(x, ast.Call) and x.keywords) or s.cause is not None:
                _bad("raise of `%s`" % _d(x), s)
            return ind + self.throw(EXC[nm])
        if isinstance(s, (ast.Assign, ast.AnnAssign, ast.AugAssign)):
            return self.assign(s, rest, env, k, ind, loop)
        if isinstance(s, ast.Expr) and isinstance(s.value, ast.Call):
            return self.effect(s, rest, env, k, ind, loop)
        if isinstance(s, ast.If):
            return self.ifstmt(s, rest, env, k, ind, loop)
        if isinstance(s, ast.For):
            return self.forstmt(s, rest, env, k, ind, loop)
        if isinstance(s, ast.Try):
            return self.trystmt(s, rest, env, k, ind, loop)
        _bad("unsupported statement `%s`" % _d(s), s)

    def ret(self, s, env, ind):
        if s.value is None:
            t, kd = "()", "unit"
        elif isinstance(s.value, ast.IfExp):
            v = s.value
            return self.block([ast.If(test=v.test, body=[ast.Return(value=v.body, lineno=s.lineno)],
                                      orelse=[ast.Return(value=v.orelse, lineno=s.lineno)], lineno=s.lineno)], env, None, ind)
        else:
            t, kd = self.expr(s.value, env)
        if kd == "none":
            t, kd = "()", "unit"
        want = self.info.ret
        t = self.coerce(t, kd, want, s)
        pend = self.take()
        if pend and pend[-1][0] == t and kd == want:
            # `return <call>`: the call is the result
            return self.wrap(pend[:-1], "%s(%s)" % (ind + "  " if pend[:-1] else ind, pend[-1][1]), ind)
        return self.wrap(pend, "%s%s" % (ind + "  " if pend else ind, self.pure(t)), ind)

    def fall_off(self, env):
        if self.info.ret != "unit":
            _bad("%s can fall off its end (returns None) but returns a %s elsewhere" % (self.info.spec.name, self.info.ret))
        return "      " + self.pure("()")

    def let(self, lean, text, body_fn, ind):
        pend = self.take()
        i0 = ind + "  " if pend else ind
        body = "%s(let %s := %s;\n%s)" % (i0, lean, text, body_fn(i0 + "  "))
        return self.wrap(pend, body, ind)

    def assign(self, s, rest, env, k, ind, loop):
        def go(env2, i):
            return self.block(rest, env2, k, i, loop)
        if isinstance(s, ast.AugAssign):
            if isinstance(s.target, ast.Name) and s.target.id in self.msgonly:
                return go(env, ind)
            _bad("augmented assignment `%s`" % _d(s), s)
        if isinstance(s, ast.AnnAssign):
            if s.value is None:
                return go(env, ind)
            targets, value = [s.target], s.value
        else:
            targets, value = s.targets, s.value
        if len(targets) != 1:
            _bad("chained assignment", s)
        tg = targets[0]
        if isinstance(tg, ast.Name) and tg.id in self.msgonly:
            return go(env, ind)
        # a, b = x, y
        if isinstance(tg, ast.Tuple):
            if not (isinstance(value, ast.Tuple) and len(value.elts) == len(tg.elts) and all(isinstance(x, ast.Name) for x in tg.elts)):
                _bad("tuple assignment `%s`" % _d(s), s)
            vals = [self.expr(v, env) for v in value.elts]
            env2 = dict(env)
            lets = []
            for x, (t, kd) in zip(tg.elts, vals):
                lean = "py_" + x.id
                lets.append((lean, t))
                env2[x.id] = Var(lean, kd)
            pend = self.take()
            i0 = ind + "  " if pend else ind
            body = go(env2, i0 + "  ")
            for lean, t in reversed(lets):
                body = "%s(let %s := %s;\n%s)" % (i0, lean, t, body)
            return self.wrap(pend, body, ind)
        if isinstance(tg, ast.Name):
            if isinstance(value, ast.IfExp):
                mk = (lambda x: ast.Assign(targets=[tg], value=x, lineno=s.lineno))
                return self.block([ast.If(test=value.test, body=[mk(value.body)], orelse=[mk(value.orelse)], lineno=s.lineno)] + rest,
                                  env, k, ind, loop)
            t, kd = self.expr(value, env)
            if isinstance(kd, tuple):
                _bad("`%s = %s`: not a value of the table" % (tg.id, _d(value)), s)
            if kd == "emptydict":
                _bad("`%s = {}`" % tg.id, s)
            env2 = dict(env)
            # `x = y` for an object that is updated in place: x is another name of the same object
            if isinstance(value, ast.Name) and value.id in env and kd in ("view",):
                env2[tg.id] = env[value.id]
                return go(env2, ind)
            lean = "py_" + tg.id
            env2[tg.id] = Var(lean, kd)
            if self.pending and self.pending[-1][0] == t:
                nm, term, safe = self.pending[-1]
                self.pending[-1] = (lean, term, safe)       # `x = <call>`: bind the result to x directly
                pend = self.take()
                return self.wrap(pend, go(env2, ind + "  "), ind)
            return self.let(lean, t, lambda i: go(env2, i), ind)
        # updates in place
        return self.store(tg, value, s, rest, env, k, ind, loop)

    def rebind(self, name, env, text):
        """the object `name` refers to is replaced by an updated copy"""
        v = env[name]
        env2 = dict(env)
        for m, w in env.items():
            if w.lean == v.lean:
                env2[m] = Var(v.lean, v.kind)
        return env2, v.lean

    def store(self, tg, value, s, rest, env, k, ind, loop):
        def go(env2, i):
            return self.block(rest, env2, k, i, loop)
        # X.__types_checked__ = b
        if isinstance(tg, ast.Attribute) and tg.attr == "__types_checked__":
            o, ko = self.expr(tg.value, env)
            b, kb = self.expr(value, env)
            if ko != "cls" or kb != "bool":
                _bad("`%s`" % _d(s), s)
            self.bind("setChecked %s %s" % (o, b), "SM", name="_")
            return self.wrap(self.take(), go(env, ind + "  "), ind)
        # V.__fields__[k] = f / V.__annotations__[k] = h
        if isinstance(tg, ast.Subscript) and isinstance(tg.value, ast.Attribute) and isinstance(tg.value.value, ast.Name) \
                and tg.value.value.id in env and env[tg.value.value.id].kind == "view":
            vn = tg.value.value.id
            fld = {"__fields__": ("fields", "field"), "__annotations__": ("annotations", "hint")}.get(tg.value.attr)
            if fld:
                kt, kk = self.expr(tg.slice, env)
                vt, vk = self.expr(value, env)
                if kk != "str" or vk != fld[1]:
                    _bad("`%s`: key %s, value %s" % (_d(s), kk, vk), s)
                env2, lean = self.rebind(vn, env, None)
                return self.let(lean, "{ %s with %s := dictSet %s %s %s.%s }" % (lean, fld[0], kt, vt, lean, fld[0]),
                                lambda i: go(env2, i), ind)
        # V.__fields__[k].required = b
        if isinstance(tg, ast.Attribute) and tg.attr == "required" and isinstance(tg.value, ast.Subscript) \
                and isinstance(tg.value.value, ast.Attribute) and tg.value.value.attr == "__fields__" \
                and isinstance(tg.value.value.value, ast.Name) and tg.value.value.value.id in env \
                and env[tg.value.value.value.id].kind == "view":
            vn = tg.value.value.value.id
            kt, kk = self.expr(tg.value.slice, env)
            bt, bk = self.expr(value, env)
            if kk != "str" or bk != "bool":
                _bad("`%s`" % _d(s), s)
            env2, lean = self.rebind(vn, env, None)
            f = self.bind("dictGet %s.fields %s" % (lean, kt), "E")
            return self.let(lean, "{ %s with fields := dictSet %s { %s with required := %s } %s.fields }" % (lean, kt, f, bt, lean),
                            lambda i: go(env2, i), ind)
        _bad("assignment to `%s` is not in the table" % _d(tg), s)

    def effect(self, s, rest, env, k, ind, loop):
        def go(env2, i):
            return self.block(rest, env2, k, i, loop)
        e = s.value
        f = e.func
        if isinstance(f, ast.Attribute) and f.attr in MUTATORS and len(e.args) == 1 and not e.keywords:
            o = f.value
            # walk.append(x)
            if f.attr == "append":
                t, kd = self.expr(o, env)
                a, ka = self.expr(e.args[0], env)
                if kd in ("optref", "none") and ka == "cls":
                    self.bind("listAppend %s %s" % (t, a), "SM", name="_")
                    return self.wrap(self.take(), go(env, ind + "  "), ind)
                _bad("`%s`: append to a %s" % (_d(s), kd), s)
            # S.add(x)
            if f.attr == "add" and isinstance(o, ast.Name) and o.id in env and env[o.id].kind == "strset":
                a, ka = self.expr(e.args[0], env)
                if ka != "str":
                    _bad("`%s`: element is a %s" % (_d(s), ka), s)
                lean = env[o.id].lean
                return self.let(lean, "(%s ++ [%s])" % (lean, a), lambda i: go(env, i), ind)
            # V.__constants__.update(d) / V.__overrides__.update(set)
            if f.attr == "update" and isinstance(o, ast.Attribute) and isinstance(o.value, ast.Name) and o.value.id in env \
                    and env[o.value.id].kind == "view":
                a, ka = self.expr(e.args[0], env)
                env2, lean = self.rebind(o.value.id, env, None)
                if o.attr == "__constants__" and ka == "jsondict":
                    return self.let(lean, "{ %s with constants := dictUpdate %s.constants %s }" % (lean, lean, a), lambda i: go(env2, i), ind)
                if o.attr == "__overrides__" and ka in ("strset", "strs"):
                    return self.let(lean, "{ %s with overrides := %s.overrides ++ %s }" % (lean, lean, a), lambda i: go(env2, i), ind)
            _bad("`%s` is not in the table" % _d(s), s)
        t, kd = self.expr(e, env)
        if kd != "unit" and not self.pending:
            return go(env, ind)      # a value computed and dropped, nothing can happen
        return self.wrap(self.take(), go(env, ind + "  "), ind)

    def narrowing(self, test, env):
        """`if x:` / `if not x:` / `if x is (not) None:` on an Optional value -> (name, kind, positive?)"""
        neg = False
        while isinstance(test, ast.UnaryOp) and isinstance(test.op, ast.Not):
            test, neg = test.operand, not neg
        name = None
        if isinstance(test, ast.Name):
            name = test.id
        elif (isinstance(test, ast.Compare) and len(test.ops) == 1 and isinstance(test.ops[0], (ast.Is, ast.IsNot))
              and isinstance(test.left, ast.Name) and isinstance(test.comparators[0], ast.Constant) and test.comparators[0].value is None):
            name = test.left.id
            if isinstance(test.ops[0], ast.Is):
                neg = not neg
        if name and name in env and env[name].kind in OPT_OF:
            return name, env[name].kind, not neg
        return None

    def ifstmt(self, s, rest, env, k, ind, loop):
        nar = self.narrowing(s.test, env)
        if nar:
            name, kd, pos = nar
            v = env[name]
            env_some = dict(env)
            env_some[name] = Var(v.lean, OPT_OF[kd])
            some_b, none_b = (s.body, s.orelse) if pos else (s.orelse, s.body)
            pend = []

            def mk(i0, a, b):
                return "%s(match %s with\n%s| some %s => (\n%s)\n%s| none => (\n%s))" % (i0, v.lean, i0, v.lean, a, i0, b)
            branches = [(some_b, env_some), (none_b, env)]
        else:
            c = self.cond(s.test, env)
            pend = self.take()

            def mk(i0, a, b):
                return "%s(if %s then\n%s\n%selse\n%s)" % (i0, c, a, i0, b)
            branches = [(s.body, env), (list(s.orelse), env)]
        i0 = ind + "  " if pend else ind
        i1 = i0 + "  "
        leaving = may_leave(s.body) or may_leave(s.orelse)
        if leaving or not rest:
            terms = []
            for b, benv in branches:
                if always_leaves(b):
                    terms.append(self.block(list(b), benv, k, i1, loop))
                else:
                    terms.append(self.block(list(b) + rest, self.unnarrow(benv, env, b), k, i1, loop))
            return self.wrap(pend, mk(i0, terms[0], terms[1]), ind)
        # no branch leaves: join, the rest is translated once
        J = self.join_names([b for b, _ in branches], env)
        kinds = {}
        mon = self.mode != "pure"
        i2 = i1 + "  "

        def kj(e2):
            return i2 + self.pure(self.tuple_of(e2, J, kinds, s))
        terms = [self.block(list(b), benv, kj, i1, loop) for b, benv in branches]
        env2, lets = self.unpack(env, J, kinds)
        var = "jv" if J else "_"
        head = mk(i0 + "  ", terms[0], terms[1])
        if mon:
            body = "%s(((\n%s : %s (%s)) >>= fun %s =>\n%s%s\n%s))" % (
                i0, head, MON[self.mode], self.tuple_type(J, kinds), var, i1, ("(" + lets) if lets else "(",
                self.block(rest, env2, k, i1, loop) + ")")
        else:
            if not J:
                return self.wrap(pend, self.block(rest, env, k, i0, loop), ind)
            body = "%s(let jv : %s :=\n%s;\n%s%s\n%s)" % (i0, self.tuple_type(J, kinds), head, i1, lets, self.block(rest, env2, k, i1, loop))
        return self.wrap(pend, body, ind)

    @staticmethod
    def unnarrow(benv, env, body):
        return benv

    def forstmt(self, s, rest, env, k, ind, loop):
        if loop:
            pass  # nested loops are folds inside the body of a fold
        if s.orelse:
            _bad("for … else", s)
        for n in _walk_no_nested(s):
            if isinstance(n, (ast.Break, ast.While, ast.Return)):
                _bad("break / while / return in a loop", n)
        self.need("E")
        it = s.iter
        # the iterable
        if isinstance(it, ast.Name) and it.id in env and env[it.id].kind in ("optref", "none"):
            items, ek = self.bind("listItems %s" % env[it.id].lean, "SM"), "cls"
        else:
            t, kd = self.expr(it, env)
            if isinstance(kd, tuple) and kd[0] == "items":
                items, ek = t, {"hintdict": "hintitem", "jsondict": "jsonitem"}[kd[1]]
            elif isinstance(kd, tuple) and kd[0] == "listof":
                items, ek = t, kd[1]
            elif kd == "strset":
                self.usesOrd = True
                items, ek = "(setOrder %s)" % t, "str"
            elif kd in ELEM_OF:
                items, ek = t, ELEM_OF[kd]
            elif kd in DICT_VAL:
                items, ek = "(dictKeys %s)" % t, "str"
            else:
                _bad("loop over `%s` (a %s) is not in the table" % (_d(it), kd), s)
        pend = self.take()
        # loop variables
        benv = dict(env)
        tg = s.target
        if ek in ("hintitem", "jsonitem"):
            if not (isinstance(tg, ast.Tuple) and len(tg.elts) == 2 and all(isinstance(x, ast.Name) for x in tg.elts)):
                _bad("loop target `%s` over items" % _d(tg), s)
            kn, vn = tg.elts[0].id, tg.elts[1].id
            benv[kn] = Var("py_" + kn, "str")
            benv[vn] = Var("py_" + vn, "hint" if ek == "hintitem" else "json")
            bindit = "let py_%s := it.1; let py_%s := it.2;" % (kn, vn)
            tnames = [kn, vn]
        else:
            if not isinstance(tg, ast.Name):
                _bad("loop target `%s`" % _d(tg), s)
            benv[tg.id] = Var("py_" + tg.id.replace("__value", "_v"), ek)
            bindit = "let %s := it;" % benv[tg.id].lean
            tnames = [tg.id]
        body_assigned = assigned_names(s.body)
        for n in tnames:
            if n in body_assigned:
                _bad("loop variable `%s` is re-bound in the loop" % n, s)
        J = self.join_names([s.body], env, only_env=True)
        kinds = {n: env[n].kind for n in J}
        i0 = ind + "  " if pend else ind
        i1, i2 = i0 + "  ", i0 + "    "

        def kend(e2):
            return i2 + "  " + self.pure(self.tuple_of(e2, J, kinds, s))
        st_env, st_lets = self.unpack(benv, J, kinds, var="st")
        body = self.block(list(s.body), st_env, kend, i2, loop=kend)
        init = self.tuple_of(env, J, kinds, s)
        env2, lets = self.unpack(env, J, kinds, var="st")
        var = "st" if J else "_"
        term = "%s(List.foldlM (fun (%s : %s) (it : %s) =>\n%s(%s %s\n%s))\n%s%s %s >>= fun %s =>\n%s(%s\n%s))" % (
            i0, var, self.tuple_type(J, kinds), KT[ek], i2, st_lets, bindit, body, i2, init, items, var,
            i1, lets, self.block(rest, env2, k, i1, loop))
        return self.wrap(pend, term, ind)

    def trystmt(self, s, rest, env, k, ind, loop):
        if s.finalbody or s.orelse or len(s.handlers) != 1:
            _bad("try with else / finally / several handlers", s)
        h = s.handlers[0]
        if h.name is not None:
            _bad("`except … as %s`" % h.name, h)
        if not (h.type is None or (isinstance(h.type, ast.Name) and h.type.id in ("Exception", "BaseException"))):
            _bad("except `%s` is not in the table (only `except Exception`)" % _d(h.type), h)
        if loop:
            _bad("try inside a loop", s)
        self.need("SM")
        for n in _walk_no_nested(s):
            if isinstance(n, (ast.Return, ast.Continue)):
                _bad("return inside try / except", n)
        J = self.join_names([s.body, h.body], env)
        kinds = {}
        i1, i2 = ind + "  ", ind + "    "

        def kj(e2):
            return i2 + "  " + self.pure(self.tuple_of(e2, J, kinds, s))
        body = self.block(list(s.body), env, kj, i2, None)
        old, self.exc_var = self.exc_var, "py_exc"
        try:
            handler = self.block(list(h.body), env, kj, i2, None)
        finally:
            self.exc_var = old
        env2, lets = self.unpack(env, J, kinds)
        var = "jv" if J else "_"
        return "%s(SM.tryCatch (\n%s : SM (%s)) (fun py_exc =>\n%s) >>= fun %s =>\n%s(%s\n%s))" % (
            ind, body, self.tuple_type(J, kinds), handler, var, i1, lets, self.block(rest, env2, k, i1, loop))


RET = {"is_list": "bool", "is_set": "bool", "is_union": "bool", "is_classvar": "bool", "is_annotated": "bool", "is_literal": "bool",
       "is_nonetype": "bool", "is_optional": "bool", "_has_literal": "bool", "is_subtype": "bool", "is_public_name": "bool",
       "_is_list_or_set": "bool", "_check_type_mergeable": "bool", "is_mergeable_type": "bool", "is_pub_instance_field": "bool",
       "detect_field_overrides": "strset", "check_overrides": "unit", "check_allowed_types": "unit", "check_types": "unit",
       "__new__": "view", "_expect_schema_class": "unit", "_check_names_public": "unit", "make_mandatory": "view",
       "add_const_fields": "view", "override": "view"}


def _default(d, kind, fn):
    if d is None:
        return None
    if isinstance(d, ast.Constant) and d.value is None and (kind in OPT_OF or kind == "optref"):
        return "none"
    if isinstance(d, ast.Constant) and isinstance(d.value, bool) and kind == "bool":
        return "true" if d.value else "false"
    _bad("default `%s` of a %s parameter of %s" % (_d(d), kind, fn.name), fn)


def _params(fn, kinds, skip_first=0):
    """[(name, kind, default)] for positional then keyword-only parameters; `*names` is one parameter"""
    a = fn.args
    if a.kwarg or a.posonlyargs:
        _bad("%s: **kwargs / positional-only parameters" % fn.name, fn)
    pos = a.args[skip_first:]
    pdef = [None] * (len(pos) - len(a.defaults)) + list(a.defaults)
    out = []
    lst = list(zip(pos, pdef))
    if a.vararg:
        if pos:
            _bad("%s: positional parameters and *%s" % (fn.name, a.vararg.arg), fn)
        lst = [(a.vararg, None)]
    lst += list(zip(a.kwonlyargs, a.kw_defaults))
    if len(lst) != len(kinds):
        _bad("%s takes %d parameters, the table has %d" % (fn.name, len(lst), len(kinds)), fn)
    for (arg, d), kd in zip(lst, kinds):
        if a.vararg and arg is a.vararg and kd != "strs":
            _bad("%s: *%s is not a tuple of names in the table" % (fn.name, arg.arg), fn)
        out.append((arg.arg, kd, _default(d, kd, fn)))
    return out, (1 if a.vararg else len(pos))


class Gen:
    def __init__(self):
        self.mods = {k: Module(k) for k in SRC}
        self.infos = {}
        self.texts = []
        self.summary = []

    def prepare(self, spec):
        """-> (parameters, npos, statement list, (first line, last line))"""
        m = self.mods[spec.mod]
        fn = m.func(spec.name, spec.cls)
        if spec.shape == "fn":
            params, npos = _params(fn, spec.params)
            return params, npos, strip_doc(fn.body), (fn.lineno, fn.end_lineno)
        if spec.shape == "tail":
            body = strip_doc(fn.body)
            idx = [i for i, s in enumerate(body) if isinstance(s, ast.Assign) and len(s.targets) == 1 and isinstance(s.targets[0], ast.Name)
                   and ast.unparse(s.value).replace(" ", "") == "super().__new__(cls,name,bases,dct)"]
            base = [s for s in body if isinstance(s, ast.Assign) and len(s.targets) == 1 and isinstance(s.targets[0], ast.Name)
                    and ast.unparse(s.value).replace(" ", "") == "bases[0]"]
            if len(idx) != 1 or len(base) != 1 or body.index(base[0]) > idx[0]:
                _bad("%s.%s: `x = bases[0]` … `y = super().__new__(cls, name, bases, dct)` not found" % (spec.cls, spec.name), fn)
            names = [base[0].targets[0].id, body[idx[0]].targets[0].id]
            for s in body[:idx[0]]:
                for n in _walk_no_nested(s):
                    if isinstance(n, ast.Name) and isinstance(n.ctx, ast.Store) and n.id in names and s not in (base[0],):
                        _bad("`%s` is assigned twice before the class is built" % n.id, s)
            tail = body[idx[0] + 1:]
            return [(names[0], "view", None), (names[1], "view", None)], 2, tail, (tail[0].lineno if tail else fn.lineno, fn.end_lineno)
        if spec.shape == "deco":
            body = strip_doc(fn.body)
            inner = [s for s in body if isinstance(s, ast.FunctionDef)]
            if len(inner) != 1 or body[-1:] != [b for b in body[-1:] if isinstance(b, ast.Return) and isinstance(b.value, ast.Name)
                                               and b.value.id == inner[0].name] or body.index(inner[0]) != len(body) - 2:
                _bad("%s is not `<statements>; def inner(cls): …; return inner`" % spec.name, fn)
            if inner[0].decorator_list:
                _bad("inner function of %s is decorated" % spec.name, fn)
            p1, n1 = _params(fn, spec.params)
            p2, n2 = _params(inner[0], spec.inner)
            if {p[0] for p in p1} & {p[0] for p in p2}:
                _bad("%s: inner parameter shadows an outer one" % spec.name, fn)
            return p1 + p2, len(p1) + len(p2), body[:-2] + strip_doc(inner[0].body), (fn.lineno, fn.end_lineno)
        _bad("shape %s" % spec.shape)

    def translate(self, spec):
        info = Info(spec)
        info.ret = RET[spec.name]
        params, npos, stmts, lines = self.prepare(spec)
        info.params, info.npos, info.lines = params, npos, lines
        for n in ast.walk(ast.Module(body=stmts, type_ignores=[])):
            if isinstance(n, (ast.Global, ast.Nonlocal, ast.Yield, ast.YieldFrom, ast.Await, ast.While, ast.With, ast.Delete)):
                _bad("%s: `%s` is not in the fragment" % (spec.name, type(n).__name__), n)
        stmts = dict_value_loops(unwalrus(stmts))
        self.infos[spec.name] = info
        for _ in range(8):
            tr = Tr(self, info, self.mods[spec.mod], info.mode)
            tr.msgonly = msg_only_names(stmts) - {p[0] for p in params}
            env = {pn: Var("py_" + pn, pk) for pn, pk, _ in params}
            before = (info.mode, info.needsT, info.needsOrd, info.fuel, info.rec)
            try:
                body = tr.block(stmts, env, tr.fall_off, "    ")
            except Need as nd:
                info.mode = nd.mode
                continue
            if tr.pending:
                _bad("internal: pending computations left in %s" % spec.name)
            info.needsT |= tr.usesT
            info.needsOrd |= tr.usesOrd
            info.fuel |= tr.usesFuel
            if (info.mode, info.needsT, info.needsOrd, info.fuel, info.rec) == before:
                break
        else:
            _bad("internal: no fixpoint for %s" % spec.name)
        self.texts.append(self.emit(info, body))
        self.summary.append("%s l.%d-%d" % (spec.lean if spec.shape != "tail" else "%s.%s(tail)" % (spec.cls, spec.name), lines[0], lines[1]))

    def emit(self, info, body):
        spec = info.spec
        rt = KT[info.ret]
        rty = rt if info.mode == "pure" else "%s %s" % (MON[info.mode], rt if " " not in rt else "(%s)" % rt)
        fixed = []
        if info.needsT:
            fixed.append("(T : Table)")
        if info.needsOrd:
            fixed.append("(setOrder : List Str → List Str)")
        where = "%s%s l. %d-%d" % (SRC[spec.mod], " (%s.%s, after the class is built)" % (spec.cls, spec.name) if spec.shape == "tail" else "",
                                   info.lines[0], info.lines[1])
        doc = "/-- `%s` (%s); mode %s; parameters: %s -/" % (
            spec.name, where, info.mode, ", ".join("%s%s : %s" % (n, "=" + d if d else "", k) for n, k, d in info.params))
        if info.rec:
            tys = " → ".join(["Nat"] + [KT[k] for _, k, _ in info.params] + [rty])
            wild = ", ".join(["0"] + ["_"] * len(info.params))
            pats = ", ".join(["fuel + 1"] + ["py_" + n for n, _, _ in info.params])
            thr = "SM.throw" if info.mode == "SM" else "throw"
            return "%s\ndef %s %s: %s\n  | %s => %s PyErr.recursionError\n  | %s =>\n%s\n" % (
                doc, spec.lean, "".join(f + " " for f in fixed), tys, wild, thr, pats, body)
        if info.fuel:
            fixed.append("(fuel : Nat)")
        ps = " ".join(fixed + ["(py_%s : %s)" % (n, KT[k]) for n, k, _ in info.params])
        return "%s\ndef %s %s : %s :=\n%s\n" % (doc, spec.lean, ps, rty, body)


def gen_subtype_fns():
    """-> (text of Gen/SubtypeFns.lean, info string)"""
    g = Gen()
    dig = anchor_digest(g.mods)
    if ANCHOR_SHA and not ANCHOR_SHA.startswith("ANCHOR") and dig != ANCHOR_SHA:
        _bad("a definition the value dictionary stands for has changed (one of %s): digest %s, expected %s"
             % ("; ".join("%s: %s" % (SRC[k], ", ".join(v)) for k, v in ANCHORS.items()), dig, ANCHOR_SHA))
    for spec in SPECS:
        try:
            g.translate(spec)
        except TranslateError as e:
            raise TranslateError("%s (%s): %s" % (spec.name, SRC[spec.mod], e))
    text = HEADER + "\n" + "\n".join(g.texts) + FOOTER
    return text, "; ".join(g.summary), dig


def write(lean_mod):
    text, info, _ = gen_subtype_fns()
    changed = lean_mod.write_if_changed(os.path.join(lean_mod.LEAN, *GEN), text)
    return "Gen/SubtypeFns.lean %s (%d lines): %s" % ("rewritten" if changed else "unchanged", text.count("\n"), info)


def write_stub(lean_mod, why):
    text = HEADER + "\n/-! NOT TRANSLATED: %s -/\n" % why.replace("-/", "- /") + FOOTER
    lean_mod.write_if_changed(os.path.join(lean_mod.LEAN, *GEN), text)


if __name__ == "__main__":
    import sys
    t, i, d = gen_subtype_fns()
    if "--digest" in sys.argv:
        print(d)
    else:
        print(t)
