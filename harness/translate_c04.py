"""Python-AST -> Lean translator for the record-opening check of property C04.

Regenerates `lean/MetadorModel/Gen/ChainCheck.lean` from the current source on every `./check C04`
run (`write(lean)`, called by `translate(ctx)` in `harness/props/c04.py`). The bridge theorems in
`lean/MetadorModel/Bridge/ChainCheckUB.lean` and `Bridge/ChainCheck.lean`
(`Gen.ChainCheck.f … = (Chain.f …).mapError PyErr.err`) are re-checked by `lake build` on every run,
so the C04 theorems, which are about `Model/Chain.lean` (`validate`, `openFiles`), transfer to what
the source says now.

Translated (source lines of the pinned tree; found by class + name, not by line number)
  src/metador_core/ih5/record.py    `USER_BLOCK_SIZE`                            (l. 35)
                                    `IH5Record._ublock`                          (l. 228-231; two
                                        specialisations: argument an h5py.File / an int)
                                    `IH5Record._check_ublock` (whole body)       (l. 248-288)
                                    `IH5Record._open` (whole body)               (l. 332-387)
                                    `IH5Record.ih5_uuid`                         (l. 391-394)
  src/metador_core/ih5/manifest.py  `IH5MFRecord._open` (whole body)             (l. 145-181)
                                    `IH5MFRecord._check_ublock` (whole body)     (l. 184-199)
  src/metador_core/ih5/overlay.py   `IH5Node._files` is checked to be `return self._record.__files__`
  plus the dispatch of `ret._check_ublock` on the class (`dispatch_check_ublock cls`): the override of
  `IH5MFRecord` when that class defines one, the method of `IH5Record` otherwise.

Value dictionary (fixed; Lean side: `lean/MetadorModel/Py/ChainPy.lean`, table in its header)
  IH5UserBlock ↦ Chain.UB (record_uuid ↦ rid, patch_index ↦ idx : Nat, patch_uuid ↦ pid, prev_patch ↦
      prev : Option, hdf5_hashsum ↦ hash : Option); IH5UBExtManifest ↦ Chain.Ext (is_stub_container ↦
      isStub, manifest_uuid ↦ muuid, manifest_hashsum ↦ mhash); `IH5UBExtManifest.get(ub)` ↦ `ub.ext`
  a container path / the h5py.File opened on it ↦ Chain.File P M (`x.filename`, `Path(x)` ↦ x;
      `self._ublocks[Path(f.filename)]` ↦ `f.ub`); before `ret._ublocks = {Path(p): IH5UserBlock.load(p)
      for p in paths}` a path is `Option (File P M)` and that statement is `paths ← pyLoadAll paths`
      (`Err.load` if some user block does not load); `[h5py.File(p, "r") for p in paths]` ↦ `pyOpenAll`
      (`Err.h5open` if h5py refuses a file); `h5py.File(Path(p), "r+")` on an already opened path ↦ p
  the record object (`self`, `ret`) ↦ its `__files__` (`List (File P M)`); `x._files` ↦ `x.__files__`;
      `cls.__new__(cls)` ↦ an object whose `__files__` is not yet bound; `cls` ↦ `ChainPy.Cls`
  `hashsum_file(f, skip_bytes=USER_BLOCK_SIZE)` on a container ↦ `H f.payload` (any other `skip_bytes`
      is outside the dictionary); `hashsum_file(p)` on a manifest path ↦ `pyHashsumMf HM p`
      (FileNotFoundError if there is no such file); `cls._manifest_filepath(f.filename)` ↦ `f.mf`
      (`Option M`: the content of the sidecar, `none` = no such file); `p.is_file()` ↦ `p.isSome`
  Optional[T] ↦ Option T; `x is None` ↦ `x.isNone`; `x.attr` on an Optional ↦ `(← pyNotNone x).attr`
      (AttributeError on None — no flow-sensitive narrowing: that the guards of the source make this
      unreachable is part of what the bridge theorems prove); `a == b` / `a != b` between an Optional
      and a plain value ↦ comparison with `some b` (`None != "abc"` is True)
  `xs[i]` ↦ `(← pyIdx xs i)` (negative indices from the end, IndexError outside);
      `xs[i] = v` ↦ `pySetIdx`; `len(xs)` ↦ `(xs.length : Int)`; `range(a, b)` loop ↦ `pyForRange a b`;
      `xs.sort(key=lambda f: k)` ↦ `pySortBy` (stable insertion sort, key a `patch_index`);
      `{e for f in xs}` ↦ `pySet (xs.map fun f => e)`; truth value of a list ↦ `!xs.isEmpty`, of a bool ↦
      itself, of an Optional uuid / user block / extension ↦ `isSome`
  `a and b` / `a or b` on bools ↦ `&&` / `||`; when a later operand can raise, short-circuit is kept:
      `if a then b else false` inside the monad; `not` ↦ `!`; `<`, `<=`, `>`, `>=` on ints ↦ `decide`;
      `a if c else b`; `isinstance(obj, h5py.File)` is resolved by the specialisation of `_ublock`
  `kwargs.pop("k", d)` ↦ a parameter `k` of the Lean function (default recorded as `<fn>.default_k`);
      `super()._open(paths, **kwargs)` forwards the remaining ones
  `raise ValueError(<message>)` ↦ `throw (.err <Chain.Err constructor listed for that message>)` (table
      MESSAGES below; the formatted fields are dropped, an unknown message is not translated);
      `assert c` in `IH5MFRecord._check_ublock` ↦ `if !c then throw (.err .stubPatch)`
  local variables ↦ `let mut`; `if/elif/else`, `for`, early `return`/`raise` ↦ the same constructs of
      Lean's `do` notation in `Except PyErr`; a function without anything that can raise ↦ `Id.run do`
  no-ops for the check (dropped, each only in exactly this form): `super().__init__(ret, ret)`,
      `ret._closed = False`, `f.close()` on an h5py.File, `ret._manifest = IH5Manifest.parse_file(p)`,
      docstrings, `msg = "…"` (kept only to resolve the `raise`)

Anything else (other statements, calls, attributes, classes) raises TranslateError with a message naming
what was not understood; the check records it as the undischarged obligation `translate:C04`; what could
be translated is still written, so that only the bridge modules of the affected functions fail.

NOT translated, tied by the correspondence run / oracle only: `IH5UserBlock.load` (magic, size line,
JSON, pydantic; model `UBlock.parseUBT`), `hashsum_file` / `qualified_hashsum` themselves (parameters
`H`, `HM`), h5py accepting a file (`h5ok`), failure of re-opening the newest container in "r+",
`IH5Manifest.parse_file` raising on a manifest whose hashsum matched, the caller `IH5Record.__init__`
(mode handling, `find_files`), exception messages and classes other than the table.

Mutation tests (METADOR_REPO=<scratch worktree> ./check C04 --tier quick, and translate + build of the two bridge
modules alone for the longer list)
  behaviour-changing edits, all exit 1 with the bridge obligations named in the replay: `<=` -> `<` in the index
  check (no failing input: equal indices are a metadata edit outside the property's fault list), `has_patches` =
  `len > 2`, hash required for the newest container, dup-uuid check dropped (these three also with failing inputs
  from the oracle); bridge broken as well for: loop from 2, `and` -> `or` in the missing-hash test, `!=` -> `==`
  for the manifest hash, `allow_baseless` test inverted, `skip_bytes=0` (not in the dictionary), USER_BLOCK_SIZE =
  512, predecessor of the newest container = `_ublock(0)`, stub assertion removed, `if prev is not None` removed
  (AttributeError reachable), sort removed, `is_file()` test removed (FileNotFoundError reachable).
  Seeded changes C04-s1 (hash cache), s2 (predecessor by uuid), s3 (hash of the re-serialised manifest): not
  translatable (`translate:C04` undischarged + bridge); s4 (base test moved under `if has_patches`): translated,
  `gen_open_core` no longer provable.
  behaviour-preserving edits that stay green: renamed locals / parameters, comments and docstrings, `has_patches`
  computed before the sort, `ret._closed = False` moved, `a if c else b` <-> if-statement in `_ublock`, `not (a ==
  b)` for `a != b`, `has_patches` inlined, `_ublock(files[0])` for `_ublock(0)`, a local for `files[-1]`, operands
  of the `elif` test swapped.
  Known to break the tie although harmless for accept/reject: swapping two checks that raise (the bridge is about
  *which* error is raised, too), rewording an exception message, new helper functions or module constants, a
  `while` loop / `enumerate` / `zip(files, files[1:])` instead of `range`, keyword arguments in the calls of
  `_check_ublock`, another exception class than ValueError.
"""
import ast
import os

from . import envshim  # noqa: F401
from .translate import TranslateError, find_class, strip_doc

REC = "src/metador_core/ih5/record.py"
MFS = "src/metador_core/ih5/manifest.py"
OVL = "src/metador_core/ih5/overlay.py"
NS = "MetadorModel.Gen.ChainCheck"

HEADER = """import MetadorModel.Py.ChainPy
/-! GENERATED on every run by harness/translate_c04.py from
    src/metador_core/ih5/record.py and src/metador_core/ih5/manifest.py. Do not edit.
    Value dictionary: Py/ChainPy.lean and the docstring of harness/translate_c04.py. -/
set_option linter.unusedVariables false
namespace MetadorModel.Gen.ChainCheck
open MetadorModel.Chain MetadorModel.ChainPy
"""

# static part of the ValueError message (formatted fields = {}, a leading "{}: " removed) -> Chain.Err
MESSAGES = {
    "Cannot open empty list of containers!": "empty",
    "base container must not have attribute 'prev_patch'!": "basePrev",
    "'record_uuid' inconsistent! Mixed up records?": "recordUuid",
    "hdf5_checksum is missing!": "hashMissing",
    "file has been modified, stored and computed checksum are different!": "hashMismatch",
    "patch container must have greater index than predecessor!": "index",
    "patch must have an attribute 'prev_patch'!": "prevMissing",
    "patch for {}, but predecessor is {}": "prevMismatch",
    "Some patch_uuid is not unique, invalid file set!": "dupPid",
    "Manifest file {} does not exist, cannot open!": "mfMissing",
    "Manifest has been modified, unexpected hashsum!": "mfMismatch",
}
ASSERT_ERR = {"IH5MFRecord._check_ublock": "stubPatch"}

UB_FIELDS = {"record_uuid": ("rid", "uuid"), "patch_index": ("idx", "nat"), "patch_uuid": ("pid", "uuid"),
             "prev_patch": ("prev", ("opt", "uuid")), "hdf5_hashsum": ("hash", ("opt", "digest"))}
EXT_FIELDS = {"is_stub_container": ("isStub", "bool"), "manifest_uuid": ("muuid", "uuid"),
              "manifest_hashsum": ("mhash", "digest")}
ALWAYS_TRUTHY = {"uuid", "ub", "ext", "file"}

LEAN_KEYWORDS = {"at", "from", "fun", "end", "do", "then", "else", "if", "let", "have", "show", "match", "with", "in",
                 "open", "def", "theorem", "by", "where", "instance", "structure", "class", "namespace", "section",
                 "import", "return", "for", "mut", "try", "catch", "finally", "unless", "type", "H", "HM", "P", "M",
                 "prefix", "local", "variable", "universe", "macro", "syntax", "deriving", "mutual", "partial", "private"}


def lty(t):
    if isinstance(t, tuple) and t[0] == "opt":
        return "Option (%s)" % lty(t[1])
    if isinstance(t, tuple) and t[0] == "set":
        return "List (%s)" % lty(t[1])
    return {"bool": "Bool", "nat": "Nat", "int": "Int", "uuid": "Uuid", "digest": "Digest", "ub": "UB", "ext": "Ext",
            "file": "File P M", "mfile": "Option M", "files": "List (File P M)", "rec": "List (File P M)",
            "paths0": "List (Option (File P M))", "cls": "Cls", "unit": "Unit"}[t]


def lname(py):
    return py + "_" if py in LEAN_KEYWORDS else py


def _d(e):
    try:
        return ast.unparse(e)[:110]
    except Exception:  # noqa: BLE001
        return ast.dump(e)[:110]


def _src(rel):
    path = os.path.join(envshim.REPO, rel)
    try:
        return ast.parse(open(path).read(), filename=path)
    except (OSError, SyntaxError) as e:
        raise TranslateError("cannot parse %s: %s" % (rel, e))


class Val:
    """Lean text of a Python expression. impure: the text contains nested actions `(← …)`;
    static: truth value known at translation time (isinstance on a specialised parameter)."""

    def __init__(self, lean, ty, impure=False, static=None, action=None):
        self.lean, self.ty, self.impure, self.static = lean, ty, impure, static
        self.action = action  # for `(← act)`: the text of `act`


class Var:
    def __init__(self, lean, ty, msg=None):
        self.lean, self.ty, self.msg = lean, ty, msg


def is_opt(t):
    return isinstance(t, tuple) and t[0] == "opt"


def _is_name(e, n):
    return isinstance(e, ast.Name) and e.id == n


def _is_super_call(e, meth):
    """`super().<meth>(…)`"""
    return (isinstance(e, ast.Call) and isinstance(e.func, ast.Attribute) and e.func.attr == meth
            and isinstance(e.func.value, ast.Call) and _is_name(e.func.value.func, "super") and not e.func.value.args)


class Fn:
    """translator of one method body"""

    def __init__(self, gen, qual, fnode, ptypes, ret_ty, kind):
        self.gen, self.qual, self.fn, self.ret_ty, self.kind = gen, qual, fnode, ret_ty, kind
        self.env = {}
        self.impure = False
        self.kwparams = []   # (python name, lean name, type, default lean)
        self.kwname = None
        self.bound = set()   # python names already bound by `let mut`
        self.header = []     # `let mut p := p` lines of reassigned parameters
        a = fnode.args
        if a.vararg or a.kwonlyargs or a.posonlyargs:
            raise TranslateError("%s: unsupported parameter kinds" % qual)
        if a.kwarg:
            self.kwname = a.kwarg.arg
        if len(a.args) != len(ptypes):
            raise TranslateError("%s: expected %d positional parameters, found %d" % (qual, len(ptypes), len(a.args)))
        self.params = []
        assigned = {t.id for n in ast.walk(fnode) for t in self._targets(n) if isinstance(t, ast.Name)}
        for arg, ty in zip(a.args, ptypes):
            ln = lname(arg.arg)
            self.env[arg.arg] = Var(ln, ty)
            self.params.append((arg.arg, ln, ty))
            if arg.arg in assigned:
                self.header.append("let mut %s := %s" % (ln, ln))
            self.bound.add(arg.arg)
        nd = len(a.defaults)
        self.defaults = {}
        for arg, d in zip(a.args[len(a.args) - nd:], a.defaults):
            self.defaults[arg.arg] = d

    @staticmethod
    def _targets(n):
        if isinstance(n, ast.Assign):
            return n.targets
        if isinstance(n, (ast.AnnAssign, ast.AugAssign)):
            return [n.target]
        return []

    def err(self, what, node=None):
        where = " (line %d)" % node.lineno if node is not None and hasattr(node, "lineno") else ""
        return TranslateError("%s%s: %s" % (self.qual, where, what))

    # ------------------------------------------------------------------ coercions
    def coerce(self, v, want, node=None):
        if v.ty == want or (v.ty in ("files", "rec") and want in ("files", "rec")):
            return v
        if v.ty == ("opt", None) and is_opt(want):
            return Val("(none : %s)" % lty(want), want, v.impure)
        if is_opt(want) and not is_opt(v.ty):
            inner = self.coerce(v, want[1], node)
            return Val("(some %s)" % inner.lean, want, inner.impure)
        if v.ty == "nat" and want == "int":
            return Val("(Int.ofNat %s)" % v.lean, "int", v.impure)
        raise self.err("a value of type %s where %s is expected: %s" % (v.ty, want, v.lean), node)

    def truth(self, v, node=None):
        if v.ty == "bool":
            return v
        if v.ty in ("files", "rec", "paths0") or (isinstance(v.ty, tuple) and v.ty[0] == "set"):
            return Val("(!(%s).isEmpty)" % v.lean, "bool", v.impure)
        if is_opt(v.ty) and v.ty[1] in ALWAYS_TRUTHY:
            return Val("(%s).isSome" % v.lean, "bool", v.impure)
        raise self.err("truth value of a %s is not in the dictionary: %s" % (v.ty, v.lean), node)

    def notnone(self, v):
        """receiver of an attribute access"""
        if is_opt(v.ty) and v.ty[1] is not None:
            self.impure = True
            return Val("(← pyNotNone %s)" % v.lean, v.ty[1], True)
        return v

    # ------------------------------------------------------------------ expressions
    def ex(self, e):
        if isinstance(e, ast.Constant):
            if e.value is None:
                return Val("none", ("opt", None))
            if isinstance(e.value, bool):
                return Val("true" if e.value else "false", "bool")
            if isinstance(e.value, int):
                return Val("(%d : Int)" % e.value, "int")
            raise self.err("constant %r" % (e.value,), e)
        if isinstance(e, ast.Name):
            if e.id in self.env:
                v = self.env[e.id]
                if v.ty == "rec0":
                    raise self.err("`%s` is used before its `__files__` are bound" % e.id, e)
                if v.ty == "msg":
                    raise self.err("message variable `%s` used as a value" % e.id, e)
                return Val(v.lean, v.ty)
            if e.id == "USER_BLOCK_SIZE" and "USER_BLOCK_SIZE" in self.gen.consts:
                return Val("(Int.ofNat USER_BLOCK_SIZE)", "int")
            raise self.err("unknown name `%s`" % e.id, e)
        if isinstance(e, ast.UnaryOp) and isinstance(e.op, ast.USub):
            v = self.coerce(self.ex(e.operand), "int", e)
            return Val("(-%s)" % v.lean, "int", v.impure)
        if isinstance(e, ast.UnaryOp) and isinstance(e.op, ast.Not):
            v = self.truth(self.ex(e.operand), e)
            return Val("(!%s)" % v.lean, "bool", v.impure, None if v.static is None else not v.static)
        if isinstance(e, ast.BinOp) and isinstance(e.op, (ast.Add, ast.Sub)):
            l = self.coerce(self.ex(e.left), "int", e)
            r = self.coerce(self.ex(e.right), "int", e)
            return Val("(%s %s %s)" % (l.lean, "+" if isinstance(e.op, ast.Add) else "-", r.lean), "int", l.impure or r.impure)
        if isinstance(e, ast.BoolOp):
            return self.boolop(e)
        if isinstance(e, ast.Compare):
            return self.compare(e)
        if isinstance(e, ast.IfExp):
            c = self.truth(self.ex(e.test), e)
            if c.static is not None:
                return self.ex(e.body if c.static else e.orelse)
            a, b = self.ex(e.body), self.ex(e.orelse)
            if a.ty != b.ty:
                b = self.coerce(b, a.ty, e) if not is_opt(b.ty) or is_opt(a.ty) else b
                a = self.coerce(a, b.ty, e)
            if a.impure or b.impure:
                self.impure = True
                return Val("(← (do if %s then pure (%s) else pure (%s)))" % (c.lean, a.lean, b.lean), a.ty, True)
            return Val("(if %s then %s else %s)" % (c.lean, a.lean, b.lean), a.ty, c.impure)
        if isinstance(e, ast.Attribute):
            return self.attribute(e)
        if isinstance(e, ast.Subscript):
            return self.subscript(e)
        if isinstance(e, ast.Call):
            return self.call(e)
        if isinstance(e, ast.ListComp):
            return self.listcomp(e)
        if isinstance(e, ast.SetComp):
            return self.setcomp(e)
        raise self.err("unsupported expression `%s`" % _d(e), e)

    def boolop(self, e):
        vals = [self.truth(self.ex(v), v) for v in e.values]
        is_and = isinstance(e.op, ast.And)
        # operands after the first that can raise: keep Python's short-circuit evaluation
        acc = vals[-1]
        for v in reversed(vals[:-1]):
            if acc.impure:
                self.impure = True
                if is_and:
                    txt = "(← (do if %s then pure (%s) else pure false))" % (v.lean, acc.lean)
                else:
                    txt = "(← (do if %s then pure true else pure (%s)))" % (v.lean, acc.lean)
                acc = Val(txt, "bool", True)
            else:
                acc = Val("(%s %s %s)" % (v.lean, "&&" if is_and else "||", acc.lean), "bool", v.impure)
        return acc

    def compare(self, e):
        if len(e.ops) != 1:
            raise self.err("chained comparison `%s`" % _d(e), e)
        op, l, r = e.ops[0], self.ex(e.left), self.ex(e.comparators[0])
        imp = l.impure or r.impure
        if isinstance(op, (ast.Is, ast.IsNot)):
            if r.ty != ("opt", None):
                raise self.err("`is` with something other than None: `%s`" % _d(e), e)
            if not is_opt(l.ty) or l.ty[1] is None:
                raise self.err("`%s`: the left side is not an Optional of the dictionary (%s)" % (_d(e), l.ty), e)
            return Val("(%s).%s" % (l.lean, "isNone" if isinstance(op, ast.Is) else "isSome"), "bool", imp)
        if isinstance(op, (ast.Eq, ast.NotEq)):
            if l.ty != r.ty:
                if l.ty == "nat" and r.ty == "int":
                    l = self.coerce(l, "int", e)
                elif l.ty == "int" and r.ty == "nat":
                    r = self.coerce(r, "int", e)
                elif is_opt(l.ty):
                    r = self.coerce(r, l.ty, e)
                else:
                    l = self.coerce(l, r.ty, e)
            if l.ty in ("file", "files", "rec", "paths0", "mfile", "cls") or l.ty == ("opt", None):
                raise self.err("equality on %s is not in the dictionary: `%s`" % (l.ty, _d(e)), e)
            return Val("(%s %s %s)" % (l.lean, "==" if isinstance(op, ast.Eq) else "!=", r.lean), "bool", imp)
        sym = {ast.Lt: "<", ast.LtE: "≤", ast.Gt: ">", ast.GtE: "≥"}.get(type(op))
        if sym is None:
            raise self.err("unsupported comparison `%s`" % _d(e), e)
        if l.ty == "nat" and r.ty == "nat":
            pass
        else:
            l, r = self.coerce(l, "int", e), self.coerce(r, "int", e)
        return Val("(decide (%s %s %s))" % (l.lean, sym, r.lean), "bool", imp)

    def attribute(self, e):
        # self._ublocks[...] is handled in subscript; here: fields and properties
        if isinstance(e.value, ast.Name) and e.value.id in self.env and self.env[e.value.id].ty == "rec0":
            raise self.err("`%s` before `__files__` is bound" % _d(e), e)
        base = self.ex(e.value)
        if base.ty in ("rec", "files") and e.attr in ("__files__", "_files"):
            if e.attr == "_files":
                self.gen.need_files_property()
            return Val(base.lean, "files", base.impure)
        if base.ty == "rec" and e.attr == "ih5_uuid":
            return self.gen.call_fn(self, "ih5_uuid", [base], e)
        if base.ty == "file" and e.attr == "filename":
            return base
        b = self.notnone(base)
        if b.ty == "ub" and e.attr in UB_FIELDS:
            f, t = UB_FIELDS[e.attr]
            return Val("%s.%s" % (b.lean, f), t, b.impure)
        if b.ty == "ext" and e.attr in EXT_FIELDS:
            f, t = EXT_FIELDS[e.attr]
            return Val("%s.%s" % (b.lean, f), t, b.impure)
        raise self.err("attribute `%s` of a %s is not in the dictionary" % (e.attr, base.ty), e)

    def subscript(self, e):
        # self._ublocks[Path(f.filename)]  ↦  f.ub
        if isinstance(e.value, ast.Attribute) and e.value.attr == "_ublocks" and isinstance(e.value.value, ast.Name) \
                and e.value.value.id in self.env and self.env[e.value.value.id].ty == "rec":
            k = self.ex(e.slice)
            if k.ty != "file":
                raise self.err("`_ublocks` is indexed by something that is not a container path: `%s`" % _d(e.slice), e)
            return Val("%s.ub" % k.lean, "ub", k.impure)
        base = self.ex(e.value)
        if base.ty in ("files", "rec") and not isinstance(e.slice, ast.Slice):
            i = self.coerce(self.ex(e.slice), "int", e)
            self.impure = True
            return Val("(← pyIdx %s %s)" % (base.lean, i.lean), "file", True)
        raise self.err("unsupported subscript `%s`" % _d(e), e)

    def call(self, e):
        f = e.func
        if isinstance(f, ast.Name):
            if f.id == "Path" and len(e.args) == 1 and not e.keywords:
                v = self.ex(e.args[0])
                if v.ty in ("file", "mfile"):
                    return v
                raise self.err("Path(…) of a %s" % (v.ty,), e)
            if f.id == "len" and len(e.args) == 1 and not e.keywords:
                v = self.ex(e.args[0])
                if v.ty in ("files", "rec", "paths0") or (isinstance(v.ty, tuple) and v.ty[0] == "set"):
                    return Val("(Int.ofNat (%s).length)" % v.lean, "int", v.impure)
                raise self.err("len of a %s" % (v.ty,), e)
            if f.id == "isinstance" and len(e.args) == 2 and not e.keywords:
                v = self.ex(e.args[0])
                if _d(e.args[1]) == "h5py.File" and v.ty in ("file", "int"):
                    st = v.ty == "file"
                    return Val("true" if st else "false", "bool", False, st)
                raise self.err("`%s` is not in the dictionary" % _d(e), e)
            if f.id == "hashsum_file":
                return self.hashsum_file(e)
        if isinstance(f, ast.Attribute):
            recv = f.value
            # kwargs.pop("name", default)
            if self.kwname and _is_name(recv, self.kwname) and f.attr == "pop":
                return self.kwpop(e, None)
            if _d(f) == "IH5UBExtManifest.get" and len(e.args) == 1 and not e.keywords:
                v = self.notnone(self.ex(e.args[0]))
                if v.ty == "ub":
                    return Val("%s.ext" % v.lean, ("opt", "ext"), v.impure)
                raise self.err("IH5UBExtManifest.get of a %s" % (v.ty,), e)
            if _is_name(recv, "cls") and f.attr == "_manifest_filepath" and len(e.args) == 1 and not e.keywords:
                v = self.ex(e.args[0])
                if v.ty == "file":
                    return Val("%s.mf" % v.lean, "mfile", v.impure)
                raise self.err("_manifest_filepath of a %s" % (v.ty,), e)
            if f.attr == "is_file" and not e.args and not e.keywords:
                v = self.notnone(self.ex(recv))
                if v.ty == "mfile":
                    return Val("(%s).isSome" % v.lean, "bool", v.impure)
                raise self.err("is_file() of a %s" % (v.ty,), e)
            if f.attr == "File" and _is_name(recv, "h5py") and len(e.args) == 2 and not e.keywords \
                    and isinstance(e.args[1], ast.Constant) and e.args[1].value == "r+":
                v = self.ex(e.args[0])
                if v.ty == "file":
                    return v
                raise self.err("h5py.File(…, 'r+') of a %s" % (v.ty,), e)
            # method calls on the record
            if f.attr in ("_ublock", "_check_ublock") and not _is_super_call(e, f.attr):
                r = self.ex(recv)
                if r.ty != "rec":
                    raise self.err("`%s` on a %s" % (f.attr, r.ty), e)
                if e.keywords:
                    raise self.err("keyword arguments in `%s`" % _d(e), e)
                return self.gen.call_fn(self, f.attr, [r] + [self.ex(a) for a in e.args], e,
                                        dispatch=(self.kind == "classmethod" and f.attr == "_check_ublock"))
            if _is_super_call(e, "_check_ublock") and self.qual == "IH5MFRecord._check_ublock":
                if e.keywords:
                    raise self.err("keyword arguments in `%s`" % _d(e), e)
                slf = self.ex(ast.Name(id=self.fn.args.args[0].arg, ctx=ast.Load()))
                return self.gen.call_fn(self, "_check_ublock", [slf] + [self.ex(a) for a in e.args], e, base=True)
            if _is_super_call(e, "_open") and self.qual == "IH5MFRecord._open":
                return self.super_open(e)
        raise self.err("unsupported call `%s`" % _d(e), e)

    def hashsum_file(self, e):
        if len(e.args) != 1:
            raise self.err("`%s`" % _d(e), e)
        v = self.notnone(self.ex(e.args[0]))
        if v.ty == "file":
            kws = {k.arg: k.value for k in e.keywords}
            if set(kws) == {"skip_bytes"} and _is_name(kws["skip_bytes"], "USER_BLOCK_SIZE") and "USER_BLOCK_SIZE" in self.gen.consts:
                return Val("(H %s.payload)" % v.lean, "digest", v.impure)
            raise self.err("`%s`: the hash of a container is in the dictionary only with skip_bytes=USER_BLOCK_SIZE" % _d(e), e)
        if v.ty == "mfile" and not e.keywords:
            self.impure = True
            return Val("(← pyHashsumMf HM %s)" % v.lean, "digest", True)
        raise self.err("`%s` (argument of type %s)" % (_d(e), v.ty), e)

    def kwpop(self, e, ann):
        if len(e.args) != 2 or e.keywords or not (isinstance(e.args[0], ast.Constant) and isinstance(e.args[0].value, str)):
            raise self.err("`%s`: expected kwargs.pop(\"name\", default)" % _d(e), e)
        name = e.args[0].value
        d = self.ex(e.args[1])
        if ann is not None:
            ty = {"bool": "bool", "Optional[Path]": ("opt", "mfile")}.get(_d(ann))
            if ty is None:
                raise self.err("annotation `%s` of a keyword parameter" % _d(ann), e)
        elif d.ty == "bool":
            ty = "bool"
        else:
            raise self.err("type of keyword parameter `%s` unknown" % name, e)
        d = self.coerce(d, ty, e)
        for n, ln, t, _ in self.kwparams:
            if n == name:
                raise self.err("keyword `%s` popped twice" % name, e)
        ln = lname(name)
        if name in self.env and self.env[name].lean == ln:
            ln = "kw_" + name
        self.kwparams.append((name, ln, ty, d.lean))
        return Val(ln, ty)

    def super_open(self, e):
        base = self.gen.done.get("IH5Record._open")
        if base is None:
            raise self.err("`super()._open` but IH5Record._open is not translated", e)
        if len(e.args) != 1 or len(e.keywords) != 1 or e.keywords[0].arg is not None or not _is_name(e.keywords[0].value, self.kwname or ""):
            raise self.err("`%s`: expected super()._open(paths, **kwargs)" % _d(e), e)
        p = self.coerce(self.ex(e.args[0]), "paths0", e)
        args = []
        for name, ln, ty, dflt in base["kw"]:
            mine = [k for k in self.kwparams if k[0] == name]
            if mine:
                raise self.err("keyword `%s` is popped before it is forwarded" % name, e)
            self.kwparams.append((name, ln, ty, dflt))
            args.append(ln)
        self.impure = True
        cls = self.env.get("cls")
        if cls is None or cls.ty != "cls":
            raise self.err("no `cls`", e)
        return Val("(← IH5Record._open H HM %s %s%s)" % (cls.lean, p.lean, "".join(" " + a for a in args)), "rec", True)

    def listcomp(self, e):
        # [h5py.File(p, "r") for p in paths]
        if len(e.generators) == 1 and not e.generators[0].ifs and isinstance(e.generators[0].target, ast.Name) and not e.generators[0].is_async:
            g = e.generators[0]
            c = e.elt
            if isinstance(c, ast.Call) and _d(c.func) == "h5py.File" and len(c.args) == 2 and not c.keywords and _is_name(c.args[0], g.target.id) \
                    and isinstance(c.args[1], ast.Constant) and c.args[1].value == "r":
                it = self.ex(g.iter)
                if it.ty == "files":
                    self.impure = True
                    return Val("(← pyOpenAll %s)" % it.lean, "files", True)
                if it.ty == "paths0":
                    raise self.err("containers are opened with h5py before their user blocks are loaded", e)
        raise self.err("unsupported list comprehension `%s`" % _d(e), e)

    def lam(self, target, body, it):
        """`body` with `target` bound to an element of the file list `it`"""
        if target in self.env:
            raise self.err("comprehension/lambda variable `%s` shadows a local" % target)
        ln = lname(target)
        self.env[target] = Var(ln, "file")
        try:
            v = self.ex(body)
        finally:
            del self.env[target]
        if v.impure:
            raise self.err("the element expression `%s` can raise" % _d(body), body)
        return ln, v

    def setcomp(self, e):
        if len(e.generators) == 1 and not e.generators[0].ifs and isinstance(e.generators[0].target, ast.Name) and not e.generators[0].is_async:
            g = e.generators[0]
            it = self.ex(g.iter)
            if it.ty in ("files", "rec"):
                ln, v = self.lam(g.target.id, e.elt, it)
                if v.ty not in ("uuid", "nat", "digest"):
                    raise self.err("set of %s" % (v.ty,), e)
                return Val("(pySet (%s.map (fun %s => %s)))" % (it.lean, ln, v.lean), ("set", v.ty), it.impure)
        raise self.err("unsupported set comprehension `%s`" % _d(e), e)

    # ------------------------------------------------------------------ statements
    def assign_name(self, name, v, ind, node):
        """(re)binding of a local"""
        if v.ty == ("opt", None):
            raise self.err("`%s = None` without a type" % name, node)
        if name in self.env and is_opt(self.env[name].ty) and not is_opt(v.ty):
            v = self.coerce(v, self.env[name].ty, node)
        if name in self.env and self.env[name].ty not in (v.ty, "rec0", "msg") and not (self.env[name].ty in ("rec", "files") and v.ty in ("rec", "files")):
            raise self.err("`%s` changes its type from %s to %s" % (name, self.env[name].ty, v.ty), node)
        if name in self.bound and name in self.env and self.env[name].ty == v.ty:
            return ["%s%s := %s" % (ind, self.env[name].lean, v.lean)]
        ln = lname(name)
        self.env[name] = Var(ln, v.ty)
        self.bound.add(name)
        return ["%slet mut %s := %s" % (ind, ln, v.lean)]

    def msg_template(self, e):
        """static text of a message expression, formatted fields ↦ {}"""
        if isinstance(e, ast.Constant) and isinstance(e.value, str):
            return e.value
        if isinstance(e, ast.Name) and e.id in self.env and self.env[e.id].ty == "msg":
            return self.env[e.id].msg
        if isinstance(e, ast.JoinedStr):
            out = ""
            for p in e.values:
                if isinstance(p, ast.Constant):
                    out += p.value
                elif isinstance(p, ast.FormattedValue):
                    if isinstance(p.value, ast.Name) and p.value.id in self.env and self.env[p.value.id].ty == "msg":
                        out += self.env[p.value.id].msg
                    else:
                        out += "{}"
            return out
        return None

    def stmt(self, s, ind, top):
        if isinstance(s, ast.Expr) and isinstance(s.value, ast.Constant) and isinstance(s.value.value, str):
            return []
        if isinstance(s, ast.Pass):
            return []
        if isinstance(s, (ast.Assign, ast.AnnAssign)):
            return self.assign(s, ind, top)
        if isinstance(s, ast.Expr) and isinstance(s.value, ast.Call):
            return self.exprstmt(s.value, ind, s)
        if isinstance(s, ast.If):
            c = self.truth(self.ex(s.test), s)
            if c.static is not None:
                # `isinstance` on a specialised parameter: only the branch that is taken
                out = []
                for s2 in (s.body if c.static else s.orelse):
                    out += self.stmt(s2, ind, top)
                return out
            out = ["%sif %s then" % (ind, c.lean)]
            saved = dict(self.env)
            out += self.block(s.body, ind + "  ")
            self.env = self.scope_exit(saved)
            if s.orelse:
                out.append("%selse" % ind)
                out += self.block(s.orelse, ind + "  ")
                self.env = self.scope_exit(saved)
            return out
        if isinstance(s, ast.For):
            return self.forloop(s, ind)
        if isinstance(s, ast.Raise):
            self.impure = True
            exc = s.exc
            if not (isinstance(exc, ast.Call) and _is_name(exc.func, "ValueError") and len(exc.args) == 1 and not exc.keywords) or s.cause is not None:
                raise self.err("`%s`: only `raise ValueError(<message>)` is in the dictionary" % _d(s), s)
            t = self.msg_template(exc.args[0])
            if t is None:
                raise self.err("message of `%s` is not a string literal / f-string" % _d(s), s)
            if t.startswith("{}: "):
                t = t[4:]
            if t not in MESSAGES:
                raise self.err("exception message %r is not in the table MESSAGES (message ↦ Chain.Err)" % t, s)
            return ["%sthrow (PyErr.err Err.%s)" % (ind, MESSAGES[t])]
        if isinstance(s, ast.Assert):
            if self.qual not in ASSERT_ERR or s.msg is not None:
                raise self.err("`assert` is in the dictionary only in %s" % ", ".join(ASSERT_ERR), s)
            self.impure = True
            c = self.truth(self.ex(s.test), s)
            return ["%sif (!%s) then" % (ind, c.lean), "%s  throw (PyErr.err Err.%s)" % (ind, ASSERT_ERR[self.qual])]
        if isinstance(s, ast.Return):
            if s.value is None:
                if self.ret_ty != "unit":
                    raise self.err("bare return", s)
                return ["%sreturn ()" % ind]
            v = self.coerce(self.ex(s.value), self.ret_ty, s)
            return ["%sreturn %s" % (ind, v.lean)]
        raise self.err("unsupported statement `%s`" % _d(s).split("\n")[0], s)

    def scope_exit(self, saved):
        """names first bound inside a branch are not visible afterwards (Lean scoping); message
        variables and types of outer names are restored"""
        env = dict(saved)
        return env

    def block(self, body, ind, top=False):
        out = []
        bound0 = set(self.bound)
        for s in body:
            out += self.stmt(s, ind, top)
        if not top:
            self.bound = bound0 | {n for n in self.bound if n in bound0}
        if not out:
            out = ["%spure ()" % ind]
        elif out[-1].lstrip().startswith(("let ", "let mut ")) or ":=" in out[-1] and not out[-1].lstrip().startswith(("if ", "return", "throw")):
            out.append("%spure ()" % ind)
        return out

    def assign(self, s, ind, top):
        if isinstance(s, ast.Assign):
            if len(s.targets) != 1:
                raise self.err("multiple assignment targets", s)
            tgt, val, ann = s.targets[0], s.value, None
        else:
            tgt, val, ann = s.target, s.value, s.annotation
            if val is None:
                return []
        if isinstance(tgt, ast.Name):
            # msg = "…" / f"…"
            t = self.msg_template(val) if isinstance(val, (ast.Constant, ast.JoinedStr)) else None
            if t is not None and isinstance(val, (ast.JoinedStr,)) or (isinstance(val, ast.Constant) and isinstance(val.value, str)):
                if tgt.id in self.env and self.env[tgt.id].ty != "msg":
                    raise self.err("`%s` is rebound to a string" % tgt.id, s)
                self.env[tgt.id] = Var(None, "msg", t)
                return []
            # x = kwargs.pop("x", d)
            if isinstance(val, ast.Call) and isinstance(val.func, ast.Attribute) and self.kwname and _is_name(val.func.value, self.kwname) and val.func.attr == "pop":
                v = self.kwpop(val, ann)
                name = val.args[0].value
                if tgt.id == name and v.lean == lname(name):
                    self.env[tgt.id] = Var(v.lean, v.ty)
                    reassigned = sum(1 for n in ast.walk(self.fn) for t2 in self._targets(n) if _is_name(t2, tgt.id)) > 1
                    if reassigned:
                        self.bound.add(tgt.id)
                        return ["%slet mut %s := %s" % (ind, v.lean, v.lean)]
                    return []
                return self.assign_name(tgt.id, v, ind, s)
            # ret = cls.__new__(cls)
            if _d(val) == "cls.__new__(cls)":
                if tgt.id in self.env:
                    raise self.err("`%s` is rebound to a new object" % tgt.id, s)
                self.env[tgt.id] = Var(lname(tgt.id), "rec0")
                return []
            v = self.ex(val)
            return self.assign_name(tgt.id, v, ind, s)
        if isinstance(tgt, ast.Attribute) and isinstance(tgt.value, ast.Name) and tgt.value.id in self.env:
            obj = self.env[tgt.value.id]
            if obj.ty in ("rec0", "rec"):
                if tgt.attr == "_closed" and isinstance(val, ast.Constant) and val.value is False:
                    return []
                if tgt.attr == "_manifest" and isinstance(val, ast.Call) and _d(val.func) == "IH5Manifest.parse_file" and len(val.args) == 1 and not val.keywords:
                    v = self.notnone(self.ex(val.args[0]))
                    if v.ty != "mfile":
                        raise self.err("parse_file of a %s" % (v.ty,), s)
                    if v.impure:
                        return ["%slet _ := %s" % (ind, v.lean)]
                    return []
                if tgt.attr == "_ublocks" and obj.ty == "rec0":
                    return self.load_ublocks(tgt.value.id, val, ind, top, s)
                if tgt.attr == "__files__":
                    if not getattr(self, "_loaded_for", None) == tgt.value.id:
                        raise self.err("`%s.__files__` is bound before `%s._ublocks`" % (tgt.value.id, tgt.value.id), s)
                    v = self.ex(val)
                    if v.ty != "files":
                        raise self.err("`__files__` bound to a %s" % (v.ty,), s)
                    ln = lname(tgt.value.id)
                    if obj.ty == "rec0":
                        self.env[tgt.value.id] = Var(ln, "rec")
                        self.bound.add(tgt.value.id)
                        return ["%slet mut %s := %s" % (ind, ln, v.lean)]
                    return ["%s%s := %s" % (ind, ln, v.lean)]
        if isinstance(tgt, ast.Subscript):
            base = self.ex(tgt.value)
            if base.ty in ("files", "rec") and isinstance(tgt.value, ast.Attribute) and isinstance(tgt.value.value, ast.Name) \
                    and tgt.value.value.id in self.bound and not isinstance(tgt.slice, ast.Slice):
                i = self.coerce(self.ex(tgt.slice), "int", s)
                v = self.ex(val)
                if v.ty != "file":
                    raise self.err("list element of type %s" % (v.ty,), s)
                self.impure = True
                return ["%s%s := (← pySetIdx %s %s %s)" % (ind, base.lean, base.lean, i.lean, v.lean)]
        raise self.err("unsupported assignment `%s`" % _d(s), s)

    def load_ublocks(self, recname, val, ind, top, s):
        """ret._ublocks = {Path(p): IH5UserBlock.load(p) for p in paths}"""
        ok = isinstance(val, ast.DictComp) and len(val.generators) == 1 and not val.generators[0].ifs and isinstance(val.generators[0].target, ast.Name) \
            and not val.generators[0].is_async
        if ok:
            g = val.generators[0]
            p = g.target.id
            ok = _d(val.key) == "Path(%s)" % p and _d(val.value) == "IH5UserBlock.load(%s)" % p and isinstance(g.iter, ast.Name)
        if not ok:
            raise self.err("`%s`: expected {Path(p): IH5UserBlock.load(p) for p in <paths>}" % _d(val), s)
        if not top:
            raise self.err("the user blocks are loaded inside a branch", s)
        it = self.env.get(g.iter.id)
        if it is None or it.ty != "paths0":
            raise self.err("user blocks are loaded for `%s` which is not the list of paths" % g.iter.id, s)
        self.impure = True
        self._loaded_for = recname
        self.env[g.iter.id] = Var(it.lean, "files")
        self.bound.discard(g.iter.id)
        return ["%slet %s ← pyLoadAll %s" % (ind, it.lean, it.lean)]

    def exprstmt(self, c, ind, s):
        f = c.func
        # super().__init__(ret, ret)
        if _is_super_call(c, "__init__") and len(c.args) == 2 and not c.keywords and all(isinstance(a, ast.Name) and a.id in self.env and self.env[a.id].ty in ("rec0", "rec") for a in c.args):
            return []
        if isinstance(f, ast.Attribute):
            # f.close()
            if f.attr == "close" and not c.args and not c.keywords:
                v = self.ex(f.value)
                if v.ty == "file" and not v.impure:
                    return []
            # ret.__files__.sort(key=lambda f: …)
            if f.attr == "sort" and not c.args and len(c.keywords) == 1 and c.keywords[0].arg == "key" and isinstance(c.keywords[0].value, ast.Lambda):
                lam = c.keywords[0].value
                recv = self.ex(f.value)
                if recv.ty == "files" and isinstance(f.value, ast.Attribute) and isinstance(f.value.value, ast.Name) and f.value.value.id in self.bound \
                        and len(lam.args.args) == 1 and not lam.args.defaults:
                    ln, k = self.lam(lam.args.args[0].arg, lam.body, recv)
                    if k.ty != "nat":
                        raise self.err("sort key of type %s (only a patch_index is in the dictionary)" % (k.ty,), s)
                    return ["%s%s := pySortBy (fun %s => %s) %s" % (ind, recv.lean, ln, k.lean, recv.lean)]
            if f.attr == "_check_ublock":
                v = self.ex(c)
                if v.ty != "unit" or v.action is None:
                    raise self.err("`%s` used as a statement" % _d(c), s)
                return ["%s%s" % (ind, v.action)]
        raise self.err("unsupported statement `%s`" % _d(c), s)

    def forloop(self, s, ind):
        it = s.iter
        if s.orelse or not isinstance(s.target, ast.Name) or not (isinstance(it, ast.Call) and _is_name(it.func, "range") and len(it.args) == 2 and not it.keywords):
            raise self.err("only `for i in range(a, b):` is in the dictionary: `%s`" % _d(s).split("\n")[0], s)
        a = self.coerce(self.ex(it.args[0]), "int", s)
        b = self.coerce(self.ex(it.args[1]), "int", s)
        i = s.target.id
        if i in self.env:
            raise self.err("loop variable `%s` shadows a local" % i, s)
        # names bound in the body must not be used afterwards, outer names must not be rebound
        outer = set(self.env)
        for n in ast.walk(ast.Module(body=s.body, type_ignores=[])):
            for t in self._targets(n):
                if isinstance(t, ast.Name) and t.id in outer and self.env[t.id].ty != "msg":
                    raise self.err("the loop body rebinds `%s`" % t.id, s)
                if not isinstance(t, ast.Name):
                    raise self.err("the loop body assigns to `%s`" % _d(t), s)
        local = {t.id for n in ast.walk(ast.Module(body=s.body, type_ignores=[])) for t in self._targets(n) if isinstance(t, ast.Name)} | {i}
        self._loop_locals = getattr(self, "_loop_locals", set()) | local
        saved, bound0 = dict(self.env), set(self.bound)
        self.env[i] = Var(lname(i), "int")
        self.impure = True
        body = self.block(s.body, ind + "  ")
        self.env, self.bound = saved, bound0
        return ["%spyForRange %s %s (fun %s => do" % (ind, a.lean, b.lean, lname(i))] + body[:-1] + [body[-1] + ")"]

    # ------------------------------------------------------------------ whole function
    def translate(self, lean_name, extra_params=()):
        body = strip_doc(self.fn.body)
        self._loop_locals = set()
        lines = self.block(body, "  ", top=True)
        # a name bound only inside a loop and read after it would not be in scope
        if self.ret_ty == "unit" and not lines[-1].lstrip().startswith(("return", "throw", "pure ()")):
            lines.append("  pure ()")
        ps = ["{P M : Type}", "(H : P → Digest)", "(HM : M → Digest)"]
        ps += ["(%s : %s)" % (ln, lty(ty)) for ln, ty in extra_params]
        ps += ["(%s : %s)" % (ln, lty(ty)) for _, ln, ty in self.params]
        ps += ["(%s : %s)" % (ln, lty(ty)) for _, ln, ty, _ in self.kwparams]
        rt = lty(self.ret_ty)
        hdr = ["  " + h for h in self.header]
        if self.impure:
            txt = "def %s %s :\n    Except PyErr (%s) := do\n%s\n" % (lean_name, " ".join(ps), rt, "\n".join(hdr + lines))
        else:
            txt = "def %s %s :\n    %s := Id.run do\n%s\n" % (lean_name, " ".join(ps), rt, "\n".join(hdr + lines))
        return txt


class Gen:
    def __init__(self):
        self.trees = {f: _src(f) for f in (REC, MFS, OVL)}
        self.consts = {}
        self.done = {}   # qualified python name -> dict(lean=…, impure=…, params=[types], ret=…, kw=[…])
        self.out = [HEADER]
        self.errors = []
        self._files_checked = False
        self.mf_overrides = None

    # `x._files` (overlay.py, IH5Node): `return self._record.__files__`; the record is its own `_record`
    def need_files_property(self):
        if self._files_checked:
            return
        cls = find_class(self.trees[OVL], "IH5Node")
        fns = [n for n in cls.body if isinstance(n, ast.FunctionDef) and n.name == "_files"]
        if len(fns) != 1:
            raise TranslateError("IH5Node._files: %d definitions" % len(fns))
        body = strip_doc(fns[0].body)
        slf = fns[0].args.args[0].arg
        if not (len(body) == 1 and isinstance(body[0], ast.Return) and _d(body[0].value) == "%s._record.__files__" % slf
                and any(_is_name(d, "property") for d in fns[0].decorator_list)):
            raise TranslateError("IH5Node._files is no longer `return self._record.__files__`")
        for c in ("IH5Record", "IH5MFRecord"):
            tree = self.trees[REC if c == "IH5Record" else MFS]
            if any(isinstance(n, ast.FunctionDef) and n.name in ("_files", "_record") for n in find_class(tree, c).body):
                raise TranslateError("%s overrides _files/_record" % c)
        self._files_checked = True

    def method(self, file, cls, name, decorator=None):
        c = find_class(self.trees[file], cls)
        fns = [n for n in c.body if isinstance(n, (ast.FunctionDef, ast.AsyncFunctionDef)) and n.name == name]
        if len(fns) != 1 or not isinstance(fns[0], ast.FunctionDef):
            raise TranslateError("%s.%s: %d definitions" % (cls, name, len(fns)))
        decos = [_d(d) for d in fns[0].decorator_list]
        if decos != ([decorator] if decorator else []):
            raise TranslateError("%s.%s: decorators %s, expected %s" % (cls, name, decos, decorator))
        return fns[0]

    def has_method(self, file, cls, name):
        return any(isinstance(n, (ast.FunctionDef, ast.AsyncFunctionDef)) and n.name == name for n in find_class(self.trees[file], cls).body)

    def call_fn(self, fn, name, args, node, dispatch=False, base=False):
        """call of a translated method; args[0] is the record"""
        if name == "_ublock":
            if len(args) != 2:
                raise fn.err("`%s`" % _d(node), node)
            spec = {"file": "file", "int": "int"}.get(args[1].ty)
            if spec is None:
                raise fn.err("`_ublock` of a %s" % (args[1].ty,), node)
            key = "IH5Record._ublock_" + spec
        elif name == "ih5_uuid":
            key = "IH5Record.ih5_uuid"
        elif name == "_check_ublock":
            key = "_check_ublock" if dispatch else "IH5Record._check_ublock"
            if not dispatch and not base and fn.qual.endswith("._check_ublock"):
                raise fn.err("recursive `_check_ublock`", node)
        else:
            raise fn.err("call of `%s`" % name, node)
        d = self.done.get(key)
        if d is None:
            raise fn.err("`%s` is not translated" % key, node)
        ptys = d["params"]
        given = list(args)
        if len(given) > len(ptys):
            raise fn.err("too many arguments in `%s`" % _d(node), node)
        # defaults of the callee
        for k in range(len(given), len(ptys)):
            dv = d["defaults"][k]
            if dv is None:
                raise fn.err("missing argument %d in `%s`" % (k, _d(node)), node)
            given.append(Val(dv, ptys[k]))
        given = [fn.coerce(v, t, node) for v, t in zip(given, ptys)]
        imp = any(v.impure for v in given)
        head = "%s H HM" % d["lean"]
        if dispatch:
            cls = fn.env.get("cls")
            if cls is None or cls.ty != "cls":
                raise fn.err("method dispatch without `cls`", node)
            head += " " + cls.lean
        txt = "(%s %s)" % (head, " ".join(v.lean for v in given))
        if d["impure"]:
            fn.impure = True
            return Val("(← %s)" % txt, d["ret"], True, action=txt[1:-1])
        return Val(txt, d["ret"], imp)

    def emit(self, key, thunk):
        try:
            thunk()
        except TranslateError as e:
            self.errors.append(str(e) if str(e).startswith(key) else "%s: %s" % (key, e))
            self.out.append("/-! NOT TRANSLATED `%s`: %s -/\n" % (key, str(e).replace("-/", "- /")))
        except Exception as e:  # noqa: BLE001  (a shape the translator did not foresee: an obligation, never a crash)
            msg = "%s: not understood (%s: %s)" % (key, type(e).__name__, e)
            self.errors.append(msg)
            self.out.append("/-! NOT TRANSLATED `%s`: %s -/\n" % (key, msg.replace("-/", "- /")))

    def fn_defaults(self, f, ptypes):
        """Lean text of the default values of the positional parameters (None where there is none)"""
        res = []
        for (py, ln, ty) in f.params:
            d = f.defaults.get(py)
            if d is None:
                res.append(None)
                continue
            try:
                v = f.coerce(Fn.ex(f, d), ty)
                res.append(v.lean)
            except TranslateError:
                res.append(None)
        return res

    def run(self):
        out = self.out

        def c_ubs():
            v = None
            for n in self.trees[REC].body:
                if isinstance(n, ast.AnnAssign) and _is_name(n.target, "USER_BLOCK_SIZE"):
                    v = n.value
                elif isinstance(n, ast.Assign) and any(_is_name(t, "USER_BLOCK_SIZE") for t in n.targets):
                    v = n.value
            if not (isinstance(v, ast.Constant) and isinstance(v.value, int) and not isinstance(v.value, bool) and v.value >= 0):
                raise TranslateError("USER_BLOCK_SIZE is not a non-negative integer constant")
            n_assign = sum(1 for n in ast.walk(self.trees[REC]) for t in Fn._targets(n) if _is_name(t, "USER_BLOCK_SIZE"))
            if n_assign != 1:
                raise TranslateError("USER_BLOCK_SIZE is assigned %d times" % n_assign)
            self.consts["USER_BLOCK_SIZE"] = v.value
            out.append("/-- `USER_BLOCK_SIZE` (%s) -/\ndef USER_BLOCK_SIZE : Nat := %d\n" % (REC, v.value))
        self.emit("USER_BLOCK_SIZE", c_ubs)

        def one(key, file, cls, name, ptypes, ret, kind, lean_name, deco=None, extra=(), doc=""):
            def th():
                node = self.method(file, cls, name, deco)
                f = Fn(self, "%s.%s" % (cls, name), node, ptypes, ret, kind)
                if extra:
                    f.env["cls"] = Var("cls", "cls")
                txt = f.translate(lean_name, [("cls", "cls")] if extra else [])
                self.done[key] = dict(lean=lean_name, impure=f.impure, params=ptypes, ret=ret, kw=list(f.kwparams), defaults=self.fn_defaults(f, ptypes))
                out.append("/-- `%s.%s` (%s, l. %d-%d)%s -/\n%s" % (cls, name, file, node.lineno, node.end_lineno, doc, txt))
                for n, ln, ty, d in f.kwparams:
                    out.append("/-- default of the keyword parameter `%s` of `%s.%s` -/\ndef %s.default_%s%s : %s := %s\n" % (
                        n, cls, name, lean_name, n, " {M : Type}" if " M" in lty(ty) + " " else "", lty(ty), d))
            self.emit(key, th)

        if self.has_method(MFS, "IH5MFRecord", "_ublock") or self.has_method(MFS, "IH5MFRecord", "ih5_uuid"):
            self.errors.append("IH5MFRecord overrides _ublock / ih5_uuid: not understood")
            out.append("/-! NOT TRANSLATED: IH5MFRecord overrides _ublock / ih5_uuid -/\n")
            return
        one("IH5Record._ublock_file", REC, "IH5Record", "_ublock", ["rec", "file"], "ub", "method", "IH5Record._ublock_file",
            doc=", argument an `h5py.File`")
        one("IH5Record._ublock_int", REC, "IH5Record", "_ublock", ["rec", "int"], "ub", "method", "IH5Record._ublock_int",
            doc=", argument an `int`")
        one("IH5Record.ih5_uuid", REC, "IH5Record", "ih5_uuid", ["rec"], "uuid", "method", "IH5Record.ih5_uuid", deco="property")
        cu = ["rec", "file", "ub", ("opt", "ub"), "bool"]
        one("IH5Record._check_ublock", REC, "IH5Record", "_check_ublock", cu, "unit", "method", "IH5Record._check_ublock")
        base = self.done.get("IH5Record._check_ublock")
        if self.has_method(MFS, "IH5MFRecord", "_check_ublock"):
            one("IH5MFRecord._check_ublock", MFS, "IH5MFRecord", "_check_ublock", cu, "unit", "method", "IH5MFRecord._check_ublock")
            mf = self.done.get("IH5MFRecord._check_ublock")
        else:
            mf = base
        if base and mf:
            def arm(d):
                call = "%s H HM self filename ub prev check_hashsum" % d["lean"]
                return call if d["impure"] else "pure (%s)" % call
            out.append("/-- `ret._check_ublock(…)`: the method of the class of `ret`%s -/\n"
                       "def dispatch_check_ublock {P M : Type} (H : P → Digest) (HM : M → Digest) (cls : Cls) (self : List (File P M)) (filename : File P M)\n"
                       "    (ub : UB) (prev : Option UB) (check_hashsum : Bool) : Except PyErr Unit :=\n"
                       "  match cls with\n  | .IH5Record => %s\n  | .IH5MFRecord => %s\n" % (
                           "" if mf is not base else " (IH5MFRecord does not override it)", arm(base), arm(mf)))
            self.done["_check_ublock"] = dict(lean="dispatch_check_ublock", impure=True, params=cu, ret="unit", kw=[], defaults=base["defaults"])
        one("IH5Record._open", REC, "IH5Record", "_open", ["cls", "paths0"], "rec", "classmethod", "IH5Record._open", deco="classmethod")
        if self.has_method(MFS, "IH5MFRecord", "_open"):
            one("IH5MFRecord._open", MFS, "IH5MFRecord", "_open", ["cls", "paths0"], "rec", "classmethod", "IH5MFRecord._open", deco="classmethod")
        else:
            self.errors.append("IH5MFRecord._open: not found")
            out.append("/-! NOT TRANSLATED `IH5MFRecord._open`: not found -/\n")


def gen_chaincheck():
    g = Gen()
    g.run()
    g.out.append("end %s\n" % NS)
    return "\n".join(g.out), g.errors


def _path(lean_mod):
    return os.path.join(lean_mod.LEAN, "MetadorModel", "Gen", "ChainCheck.lean")


def write(lean_mod):
    """regenerate Gen/ChainCheck.lean; returns an info string"""
    try:
        text, errors = gen_chaincheck()
    except Exception as e:  # noqa: BLE001
        # nothing could be translated: leave no text of an earlier run (possibly of another tree) behind
        write_stub(lean_mod, "%s: %s" % (type(e).__name__, e))
        if isinstance(e, TranslateError):
            raise
        raise TranslateError("%s: %s" % (type(e).__name__, e))
    changed = lean_mod.write_if_changed(_path(lean_mod), text)
    if errors:
        # what could be translated is written (so that only the bridge modules of the affected functions fail)
        raise TranslateError("; ".join(errors))
    return "Gen/ChainCheck.lean %s (%d lines)" % ("rewritten" if changed else "unchanged", text.count("\n"))


def write_stub(lean_mod, why):
    """what is written when the translator itself fails: no definitions, so that the bridge cannot build"""
    text = HEADER + "\n/-! NOT TRANSLATED: %s -/\n\nend %s\n" % (why.replace("-/", "- /"), NS)
    lean_mod.write_if_changed(_path(lean_mod), text)


if __name__ == "__main__":
    _t, _e = gen_chaincheck()
    print(_t)
    print("\n".join("NOT TRANSLATED " + x for x in _e))
