"""Python-AST -> Lean translator for the byte / hashing / deletion-marker functions of C17.

Regenerates `lean/MetadorModel/Gen/BytesFns.lean` from the current source on every `./check C17`
run (`gen_bytesfns()`, called by `translate(ctx)` in `harness/props/c17.py`). The bridge theorems in
`lean/MetadorModel/Bridge/BytesFns.lean` (`Gen.BytesFns.f … = Model f …`) are re-checked by
`lake build` on every run, so the C17 (and the hashing part of the C19) theorems, which are about
`Model/Bytes.lean`, transfer to what the source says now.

Translated (source lines of the pinned tree; found by name, not by line number)
  src/metador_core/packer/utils.py   `_h5_wrap_bytes`                      (l. 21-25)
  src/metador_core/ih5/overlay.py    `DEL_VALUE`                           (l. 37)
                                     `_is_del_mark`                        (l. 42-43)
                                     `_node_is_del_mark`                   (l. 46-49)
                                     `IH5Node._guard_value`                (l. 126-132)
  src/metador_core/util/hashsums.py  `_hash_alg`                           (l. 9-14)
                                     `hashsum` (whole body incl. the loop) (l. 18-33)
                                     `DEF_HASH_ALG`                        (l. 36)
                                     `qualified_hashsum`                   (l. 40-42)
                                     `file_hashsum`                        (l. 45-47)

Value dictionary (fixed; Lean side: `lean/MetadorModel/Model/BytesPy.lean`, table in its header)
  bytes ↦ Bytes (List UInt8); str ↦ Str (List Char); int ↦ Nat; len(x) ↦ x.length
  numpy.void(b) / np.void(b) ↦ H5Val.void b;  h5py.Empty("b") ↦ H5Val.empty
  any object given to `_is_del_mark` / `_node_is_del_mark` / `_guard_value` ↦ PyObj
  isinstance(x, np.void) ↦ x is `.value (.void b)` (then `x.tobytes()` ↦ b; `tobytes` is accepted
      only on a name narrowed this way or on the constant DEL_VALUE); isinstance(x, h5py.Dataset) ↦
      `.dataset v` (then `x[()]` ↦ `.value v`); IH5Node / h5py.Group / h5py.SoftLink /
      h5py.ExternalLink ↦ `.ih5node` / `.group` / `.softLink` / `.externalLink`
  data: Union[bytes, BinaryIO] ↦ PyData; isinstance(data, bytes) ↦ `.bytes b`, otherwise `.stream r`
  a binary stream (BytesIO(b), open(path, "rb")) ↦ the bytes between its position and EOF;
      `c = s.read(n)` ↦ `c := s.take n; s := s.drop n`;  `path: Path` ↦ the content of that file
  hashlib object ↦ σ (parameter `hl : HashLib σ`): hashlib.<a> ↦ `fun _ => hl.new "<a>"`,
      h.block_size ↦ hl.blockSize h, `h.update(c)` ↦ re-binding `h := hl.update h c`,
      h.hexdigest() ↦ hl.hexdigest h
  `try: h = D[k]() / except KeyError: <raise>` on a module-level dict literal D ↦ match on pyDictGet
  truth value: bool ↦ itself, int ↦ n != 0, bytes/str ↦ !x.isEmpty, numpy/h5py value ↦ pyTruthy
      (np.void: some byte non-zero; h5py.Empty: true); `x and y` ↦ `if truth x then y else x`,
      `x or y` ↦ `if truth x then x else y`, value-returning, on any operand type (branches that
      cannot be taken because the truth value of that operand is already known are dropped; all
      remaining results must have one type); `a if c else b`; ==, != (and <, <=, >, >= on int)
  `while True:` whose body reads from a stream and leaves with `if not <chunk>: break` ↦ structural
      recursion on a fuel counter = len(stream) + 1 (an iteration that does not break has consumed at
      least one byte) over the tuple of loop-carried names (order of first binding in the function)
  raise ValueError(…) / TypeError(…) ↦ `.error .valueError` / `.error .typeError` (messages dropped);
      a call of a translated function that may raise is bound first (`match … | .error e => .error e`)
  early `return`, `if/elif/else`, `with open(…) as f:` ↦ nested Lean `if` / `match` / `let`

Anything else (other statements, calls, classes, annotations that contradict the table) raises
TranslateError with a message naming what was not understood; the check records it as the
undischarged obligation `translate:C17`.

NOT translated, tied by the correspondence run / oracle only: `pack_file` (order of its steps),
`FileMetaHarvester.run` (`stat().st_size`, `hashsum(open(path,"rb"), "sha256")`), the call sites of
`_guard_value` in `create_dataset` / `__setitem__`, h5py's storing of `np.void` / `Empty` values
(`h5Store`), hashlib itself (parameter `hl`; streaming law = hypothesis of the theorems), the short-read
behaviour of `read(n)`, failure of `open`, exception messages.

Attribution. A function that is not understood is left out of Gen/BytesFns.lean (comment `NOT
TRANSLATED` there, obligation `translate:C17` undischarged), the others are written; the bridge
theorems are split over three modules (Bridge/BytesFnsWrap|Del|Hash.lean, one per source file), so only
the theorems about the file that changed lose their proof.

Mutation tests (METADOR_REPO=<scratch worktree> ./check C17 --tier quick, seed 0; 2026-09-29)
  behaviour-changing, all exit 1:
    `len(bs) > 1` in _h5_wrap_bytes            -> gen_h5_wrap_bytes broken + oracle bytes-differ
    `!=` for `==` in _is_del_mark              -> BytesFnsDel broken + oracle deletion-marker-stored-silently
    DEL_VALUE = np.void(b"\x7e")               -> gen_del_value … broken + oracle
    first test of _guard_value removed         -> gen_guard_value broken + oracle
    `val = node` in _node_is_del_mark          -> gen_node_is_del_mark broken + oracle
    `"sha512": hashlib.sha256` in _hash_alg    -> gen_hash_alg broken, NO failing input (C17 only uses
                                                  sha256): found by the translated tie alone
    `f"{alg}-{…}"` in qualified_hashsum        -> gen_qualified_hashsum broken + oracle
    `h.update(chunk[:-1])` before the test     -> hashsum NOT TRANSLATED (slice) + oracle sha256-differs
    seeded C17-s1 (`(bs and numpy.void(bs)) or h5py.Empty("b")`) -> translated faithfully
        (`if !bs.isEmpty then (if pyTruthy (.void bs) then .void bs else .empty) else .empty`),
        gen_h5_wrap_bytes broken + oracle bytes-differ
    seeded C17-s3 (`data is DEL_VALUE`)        -> _guard_value NOT TRANSLATED (identity) + oracle
    (C17-s2, C17-s4 do not touch a translated function.)
  behaviour-preserving, all stay green (33/33 obligations): renamed locals and parameters; comments
    and docstrings; `a if c else b` <-> if-statement (with returns, and with assignments in both
    branches); the `isinstance(data, bytes)` block and the `try` block of `hashsum` swapped;
    `if not isinstance(val, np.void): return False` + return in _is_del_mark; `isinstance(x, A) or
    isinstance(x, B)` -> `isinstance(x, (A, B))`; `h5py.Empty("b") if len(bs) == 0 else numpy.void(bs)`;
    the first two tests of _guard_value swapped; `digest = hashsum(data, alg)` bound to a local first.
  Known to break the tie although harmless for hashlib: `h.update(chunk)` before
    `if len(chunk) < h.block_size: break` (loop shape without the `if not chunk: break` termination
    pattern: NOT TRANSLATED, exit 1 `no-failing-input-found`); reading `h.block_size` into a local before
    the loop (translates, but the model reads it in every iteration as the pinned source does:
    gen_hashsum_loop breaks); a helper function, a new module constant, `for`/`iter(callable, b"")`
    loops, `data is None`, slices: not in the dictionary.
"""
import ast
import os

from . import envshim  # noqa: F401
from .translate import TranslateError, find_class, find_func, lean_str, strip_doc

HEADER = """import MetadorModel.Model.BytesPy
/-! GENERATED on every run by harness/translate_c17.py from
    src/metador_core/packer/utils.py, src/metador_core/ih5/overlay.py,
    src/metador_core/util/hashsums.py. Do not edit. Value dictionary: Model/BytesPy.lean. -/
set_option linter.unusedVariables false
namespace MetadorModel.Gen.BytesFns
open MetadorModel.Bytes MetadorModel.BytesPy
"""

LEAN_TY = dict(bytes="Bytes", str="Str", nat="Nat", bool="Bool", h5val="H5Val", obj="PyObj",
               data="PyData", stream="Bytes", hash="σ", unit="Unit", file="Bytes")
LEAN_KEYWORDS = {"at", "from", "fun", "end", "do", "then", "else", "if", "let", "have", "show", "match", "with",
                 "in", "open", "def", "theorem", "by", "where", "instance", "structure", "class", "namespace",
                 "section", "import", "return", "for", "mut", "try", "catch", "finally", "unless", "type",
                 "hl", "fuel", "σ", "e"}
EXC = {"ValueError": ".valueError", "TypeError": ".typeError"}

UTILS = "src/metador_core/packer/utils.py"
OVERLAY = "src/metador_core/ih5/overlay.py"
HASHSUMS = "src/metador_core/util/hashsums.py"

# name -> (file, class or None, parameter types, result type, may raise, needs hashlib parameter)
FUNCS = {
    "_h5_wrap_bytes": (UTILS, None, ["bytes"], "h5val", False, False),
    "_is_del_mark": (OVERLAY, None, ["obj"], "bool", False, False),
    "_node_is_del_mark": (OVERLAY, None, ["obj"], "bool", False, False),
    "_guard_value": (OVERLAY, "IH5Node", ["self", "obj"], "unit", True, False),
    "hashsum": (HASHSUMS, None, ["data", "str"], "str", True, True),
    "qualified_hashsum": (HASHSUMS, None, ["data", "str"], "str", True, True),
    "file_hashsum": (HASHSUMS, None, ["file", "str"], "str", True, True),
}
COERCE = {("h5val", "obj"): "(PyObj.value %s)", ("bytes", "data"): "(PyData.bytes %s)",
          ("stream", "data"): "(PyData.stream %s)"}


def _src(rel):
    path = os.path.join(envshim.REPO, rel)
    try:
        return ast.parse(open(path).read(), filename=path)
    except (OSError, SyntaxError) as e:
        raise TranslateError("cannot parse %s: %s" % (rel, e))


def _d(e):
    try:
        return ast.unparse(e)[:100]
    except Exception:  # noqa: BLE001
        return ast.dump(e)[:100]


def lname(py):
    return py + "_" if py in LEAN_KEYWORDS else py


def lean_bytes(b):
    return "([%s] : Bytes)" % ", ".join("0x%02x" % x for x in b)


class V:
    """binding of a Python name: Lean text, type, what `isinstance` told about it"""

    def __init__(self, lean, ty, narrow=None):
        self.lean, self.ty, self.narrow = lean, ty, narrow


# --------------------------------------------------------------------------- value trees
class Leaf:
    def __init__(self, lean, ty, truth=None):
        self.lean, self.ty, self.truth = lean, ty, truth


class Ite:
    """render(thn_text, els_text) -> Lean text"""

    def __init__(self, render, thn, els):
        self.render, self.thn, self.els = render, thn, els


def _if_render(c):
    return lambda a, b: "(if %s then %s else %s)" % (c, a, b)


def leaves(t):
    return [t] if isinstance(t, Leaf) else leaves(t.thn) + leaves(t.els)


def map_leaves(t, f):
    if isinstance(t, Leaf):
        return f(t)
    return Ite(t.render, map_leaves(t.thn, f), map_leaves(t.els, f))


def render(t, leaf=lambda l: l.lean):
    if isinstance(t, Leaf):
        return leaf(t)
    return t.render(render(t.thn, leaf), render(t.els, leaf))


def truthy(lean, ty):
    if ty == "bool":
        return lean
    if ty == "nat":
        return "(%s != 0)" % lean
    if ty in ("bytes", "str"):
        return "(!(%s).isEmpty)" % lean
    if ty == "h5val":
        return "(pyTruthy %s)" % lean
    raise TranslateError("truth value of a %s is not in the dictionary" % ty)


# --------------------------------------------------------------------------- classes of isinstance
def class_key(e):
    if isinstance(e, ast.Attribute) and isinstance(e.value, ast.Name):
        if e.value.id in ("np", "numpy") and e.attr == "void":
            return "void"
        if e.value.id == "h5py" and e.attr in ("Dataset", "Group", "SoftLink", "ExternalLink"):
            return e.attr
    if isinstance(e, ast.Name) and e.id in ("IH5Node", "bytes"):
        return e.id
    raise TranslateError("isinstance: class %s is not in the dictionary" % _d(e))


def pattern(ty, key, payload):
    """Lean pattern for `isinstance(x, key)` on a value of type ty"""
    p = payload or "_"
    tab = {
        ("obj", "void"): ".value (.void %s)" % p, ("obj", "Dataset"): ".dataset %s" % p, ("obj", "Group"): ".group",
        ("obj", "IH5Node"): ".ih5node", ("obj", "SoftLink"): ".softLink", ("obj", "ExternalLink"): ".externalLink",
        ("h5val", "void"): ".void %s" % p, ("data", "bytes"): ".bytes %s" % p,
    }
    if (ty, key) not in tab:
        raise TranslateError("isinstance(<%s>, %s) is not in the dictionary" % (ty, key))
    return tab[(ty, key)]


class Fn:
    """translator of one function"""

    def __init__(self, name, consts, known):
        self.name, self.consts, self.known = name, consts, known
        self.file, self.cls, self.ptys, self.rty, self.raises, self.hl = FUNCS[name]
        self.binds = []
        self.aux = []
        self.nloop = 0
        self.ntmp = 0

    # ---------------------------------------------------------------- expressions
    def isinst(self, e, env):
        """`isinstance(<name>, <one class>)` / `not` of it -> (name, V, class key, positive) or None"""
        pos = True
        while isinstance(e, ast.UnaryOp) and isinstance(e.op, ast.Not):
            e, pos = e.operand, not pos
        if (isinstance(e, ast.Call) and isinstance(e.func, ast.Name) and e.func.id == "isinstance" and len(e.args) == 2
                and not e.keywords and isinstance(e.args[0], ast.Name) and e.args[0].id in env
                and not isinstance(e.args[1], ast.Tuple)):
            return e.args[0].id, env[e.args[0].id], class_key(e.args[1]), pos
        return None

    def narrow(self, test, env):
        """-> (render, env if test holds, env if not)"""
        name, v, key, pos = test
        t_env, f_env = dict(env), dict(env)
        if v.ty == "data" and key == "bytes":
            pb, pr = lname(name) + "_b", lname(name) + "_r"
            t_env[name] = V(pb, "bytes")
            f_env[name] = V(pr, "stream")
            pats = (".bytes %s" % pb, ".stream %s" % pr)
        else:
            pay = None
            if key in ("void", "Dataset"):
                pay = lname(name) + ("_b" if key == "void" else "_v")
                t_env[name] = V(v.lean, v.ty, (key, pay))
            pats = (pattern(v.ty, key, pay), "_")

        def rnd(a, b, scrut=v.lean, pats=pats):
            return "(match %s with\n | %s => %s\n | %s => %s)" % (scrut, pats[0], a, pats[1], b)
        if pos:
            return rnd, t_env, f_env
        return (lambda a, b: rnd(b, a)), f_env, t_env

    def tree(self, e, env):
        if isinstance(e, ast.BoolOp):
            return self.boolop(isinstance(e.op, ast.And), list(e.values), env)
        if isinstance(e, ast.IfExp):
            n0 = len(self.binds)
            test = self.isinst(e.test, env)
            if test:
                rnd, te, fe = self.narrow(test, env)
            else:
                rnd, te, fe = _if_render(self.truth(e.test, env)), env, env
            n1 = len(self.binds)
            r = Ite(rnd, self.tree(e.body, te), self.tree(e.orelse, fe))
            if len(self.binds) != n1:
                raise TranslateError("call that may raise inside a conditional expression: %s" % _d(e))
            del n0
            return r
        if isinstance(e, ast.UnaryOp) and isinstance(e.op, ast.Not):
            test = self.isinst(e, env)
            if test:
                rnd, _, _ = self.narrow(test, env)
                return Ite(rnd, Leaf("true", "bool", True), Leaf("false", "bool", False))
            return Leaf("(!%s)" % self.truth(e.operand, env), "bool")
        lean, ty = self.atom(e, env)
        return Leaf(lean, ty)

    def boolop(self, is_and, values, env):
        first, rest = values[0], values[1:]
        if not rest:
            return self.tree(first, env)
        test = self.isinst(first, env)
        n0 = None
        if test:
            rnd, te, fe = self.narrow(test, env)
            n0 = len(self.binds)
            if is_and:
                r = Ite(rnd, self.boolop(is_and, rest, te), Leaf("false", "bool", False))
            else:
                r = Ite(rnd, Leaf("true", "bool", True), self.boolop(is_and, rest, fe))
        else:
            ta = self.tree(first, env)
            n0 = len(self.binds)
            tb = self.boolop(is_and, rest, env)

            def f(l):
                if l.truth is not None:
                    return tb if l.truth == is_and else l
                c = truthy(l.lean, l.ty)
                keep = Leaf(l.lean, l.ty, not is_and)
                return Ite(_if_render(c), tb, keep) if is_and else Ite(_if_render(c), keep, tb)
            # all-boolean operands without narrowing: plain && / ||
            if isinstance(ta, Leaf) and isinstance(tb, Leaf) and ta.ty == tb.ty == "bool" and ta.truth is None:
                r = Leaf("(%s %s %s)" % (ta.lean, "&&" if is_and else "||", tb.lean), "bool")
            else:
                r = map_leaves(ta, f)
        if len(self.binds) != n0:
            raise TranslateError("call that may raise inside `and`/`or`")
        return r

    def value(self, e, env):
        """-> (lean, type); all branches of a conditional value must have one type"""
        t = self.tree(e, env)
        tys = sorted({l.ty for l in leaves(t)})
        if len(tys) != 1:
            raise TranslateError("value of `%s` may be a %s" % (_d(e), " or a ".join(tys)))
        return render(t), tys[0]

    def truth(self, e, env):
        t = self.tree(e, env)
        return render(t, lambda l: ("true" if l.truth else "false") if l.truth is not None and l.ty != "bool" else truthy(l.lean, l.ty))

    def coerce(self, lean, ty, want, what):
        if ty == want:
            return lean
        if (ty, want) in COERCE:
            return COERCE[(ty, want)] % lean
        raise TranslateError("%s: a %s where a %s is expected" % (what, ty, want))

    def atom(self, e, env):
        if isinstance(e, ast.Name):
            if e.id in env:
                return env[e.id].lean, env[e.id].ty
            if e.id in self.consts and self.consts[e.id][1] != "dict":
                return self.consts[e.id][0], self.consts[e.id][1]
            raise TranslateError("unknown name %s" % e.id)
        if isinstance(e, ast.Constant):
            v = e.value
            if isinstance(v, bool):
                return ("true" if v else "false"), "bool"
            if isinstance(v, str):
                return lean_str(v), "str"
            if isinstance(v, bytes):
                return lean_bytes(v), "bytes"
            if isinstance(v, int) and v >= 0:
                return "(%d : Nat)" % v, "nat"
            raise TranslateError("constant %r is not in the dictionary" % (v,))
        if isinstance(e, ast.JoinedStr):
            parts = []
            for p in e.values:
                if isinstance(p, ast.Constant) and isinstance(p.value, str):
                    parts.append(lean_str(p.value))
                elif isinstance(p, ast.FormattedValue) and p.conversion == -1 and p.format_spec is None:
                    x, t = self.value(p.value, env)
                    if t != "str":
                        raise TranslateError("f-string part of type %s" % t)
                    parts.append(x)
                else:
                    raise TranslateError("unsupported f-string part")
            return "(" + " ++ ".join(parts or ["([] : Str)"]) + ")", "str"
        if isinstance(e, ast.Compare) and len(e.ops) == 1:
            op = type(e.ops[0])
            if op in (ast.Is, ast.IsNot, ast.In, ast.NotIn):
                raise TranslateError("`%s`: object identity / membership is not in the dictionary" % _d(e))
            a, at = self.value(e.left, env)
            b, bt = self.value(e.comparators[0], env)
            if at != bt or at in ("hash", "data", "stream", "file"):
                raise TranslateError("comparison of a %s with a %s" % (at, bt))
            if op in (ast.Eq, ast.NotEq):
                return "(%s %s %s)" % (a, "==" if op is ast.Eq else "!=", b), "bool"
            sym = {ast.Lt: "<", ast.LtE: "≤", ast.Gt: ">", ast.GtE: "≥"}.get(op)
            if sym and at == "nat":
                return "(decide (%s %s %s))" % (a, sym, b), "bool"
            raise TranslateError("comparison %s on %s" % (op.__name__, at))
        if isinstance(e, ast.Attribute) and isinstance(e.value, ast.Name) and e.value.id in env:
            v = env[e.value.id]
            if v.ty == "hash" and e.attr == "block_size":
                return "(hl.blockSize %s)" % v.lean, "nat"
            raise TranslateError("attribute %s of a %s" % (e.attr, v.ty))
        if isinstance(e, ast.Subscript) and isinstance(e.value, ast.Name) and e.value.id in env:
            v = env[e.value.id]
            if isinstance(e.slice, ast.Tuple) and not e.slice.elts and v.narrow and v.narrow[0] == "Dataset":
                return "(PyObj.value %s)" % v.narrow[1], "obj"
            raise TranslateError("subscript %s (only `node[()]` on a name known to be an h5py.Dataset)" % _d(e))
        if isinstance(e, ast.Call):
            return self.call(e, env)
        raise TranslateError("unsupported expression %s" % _d(e))

    def call(self, e, env):
        f = e.func
        if e.keywords:
            raise TranslateError("keyword arguments in %s" % _d(e))
        if isinstance(f, ast.Name):
            if f.id == "len" and len(e.args) == 1:
                x, t = self.value(e.args[0], env)
                if t in ("bytes", "str"):
                    return "(%s).length" % x, "nat"
                raise TranslateError("len of a %s" % t)
            if f.id == "isinstance" and len(e.args) == 2 and isinstance(e.args[0], ast.Name) and e.args[0].id in env:
                v = env[e.args[0].id]
                cs = e.args[1].elts if isinstance(e.args[1], ast.Tuple) else [e.args[1]]
                ts = ["(match %s with | %s => true | _ => false)" % (v.lean, pattern(v.ty, class_key(c), None)) for c in cs]
                return ("(" + " || ".join(ts) + ")" if len(ts) > 1 else ts[0]), "bool"
            if f.id == "BytesIO" and len(e.args) == 1:
                x, t = self.value(e.args[0], env)
                if t == "bytes":
                    return x, "stream"
                raise TranslateError("BytesIO of a %s" % t)
            if f.id == "open" and len(e.args) == 2 and isinstance(e.args[1], ast.Constant) and e.args[1].value == "rb":
                x, t = self.value(e.args[0], env)
                if t == "file":
                    return x, "stream"
                raise TranslateError("open of a %s" % t)
            if f.id in self.known:
                return self.call_known(f.id, e.args, env)
            raise TranslateError("call of %s is not in the dictionary" % f.id)
        if isinstance(f, ast.Attribute) and isinstance(f.value, ast.Name):
            mod, attr = f.value.id, f.attr
            if mod in ("np", "numpy") and attr == "void" and len(e.args) == 1:
                x, t = self.value(e.args[0], env)
                if t == "bytes":
                    return "(H5Val.void %s)" % x, "h5val"
                raise TranslateError("numpy.void of a %s" % t)
            if mod == "h5py" and attr == "Empty" and len(e.args) == 1 and isinstance(e.args[0], ast.Constant) and e.args[0].value == "b":
                return "H5Val.empty", "h5val"
            if attr == "tobytes" and not e.args:
                if mod in env and env[mod].narrow and env[mod].narrow[0] == "void":
                    return env[mod].narrow[1], "bytes"
                if mod not in env and mod in self.consts and self.consts[mod][2] is not None:
                    return self.consts[mod][2], "bytes"
                raise TranslateError("%s.tobytes(): %s is not known to be a numpy.void here" % (mod, mod))
            if attr == "hexdigest" and not e.args and mod in env and env[mod].ty == "hash":
                return "(hl.hexdigest %s)" % env[mod].lean, "str"
        raise TranslateError("call %s is not in the dictionary" % _d(e))

    def call_known(self, name, args, env):
        _, _, ptys, rty, raises, hl = FUNCS[name]
        ptys = [t for t in ptys if t != "self"]
        defaults = self.known[name]
        if not (len(ptys) - len(defaults) <= len(args) <= len(ptys)):
            raise TranslateError("call of %s with %d arguments" % (name, len(args)))
        out = []
        for a, want in zip(args, ptys):
            x, t = self.value(a, env)
            out.append(self.coerce(x, t, want, "argument of %s" % name))
        out += defaults[len(defaults) - (len(ptys) - len(args)):] if len(args) < len(ptys) else []
        txt = "(%s%s %s)" % (name, " hl" if hl else "", " ".join(out))
        if raises:
            if not self.raises:
                raise TranslateError("%s may raise, %s is declared not to" % (name, self.name))
            self.ntmp += 1
            tmp = "t%d" % self.ntmp
            self.binds.append((tmp, txt))
            return tmp, rty
        return txt, rty

    def take_binds(self):
        b, self.binds = self.binds, []
        return "".join("match %s with\n| .error e => .error e\n| .ok %s =>\n" % (c, t) for t, c in b)

    # ---------------------------------------------------------------- statements
    def terminates(self, body, in_loop):
        if not body:
            return False
        s = body[-1]
        if isinstance(s, (ast.Return, ast.Raise)):
            return True
        if in_loop and isinstance(s, (ast.Break, ast.Continue)):
            return True
        if isinstance(s, ast.If):
            return self.terminates(s.body, in_loop) and self.terminates(s.orelse, in_loop)
        return False

    def assigned(self, body):
        """names (re)bound by a block without control flow, in order of first binding"""
        out = []

        def add(n):
            if n not in out:
                out.append(n)
        for s in body:
            if isinstance(s, ast.If):
                for n in self.assigned(s.body) + self.assigned(s.orelse):
                    add(n)
            elif isinstance(s, ast.Assign) and len(s.targets) == 1 and isinstance(s.targets[0], ast.Name):
                r = self.read_call(s.value)
                if r:
                    add(r[0])
                add(s.targets[0].id)
            elif isinstance(s, ast.Expr) and isinstance(s.value, ast.Call) and isinstance(s.value.func, ast.Attribute) and isinstance(s.value.func.value, ast.Name):
                add(s.value.func.value.id)
            elif isinstance(s, (ast.Pass, ast.Break, ast.Continue)) or (isinstance(s, ast.Expr) and isinstance(s.value, ast.Constant)):
                pass
            else:
                raise TranslateError("unsupported statement inside a branch: %s" % _d(s))
        return out

    def read_call(self, e):
        """`<stream>.read(<n>)` -> (stream name, n expr)"""
        if (isinstance(e, ast.Call) and isinstance(e.func, ast.Attribute) and e.func.attr == "read"
                and isinstance(e.func.value, ast.Name) and len(e.args) == 1 and not e.keywords):
            return e.func.value.id, e.args[0]
        return None

    def fall(self, env, ctx):
        kind = ctx[0]
        if kind == "fn":
            if self.rty == "unit":
                return ".ok ()" if self.raises else "()"
            raise TranslateError("%s may fall off its end (returns None)" % self.name)
        if kind == "tuple":
            names = ctx[1]
            for n in names:
                if n not in env:
                    raise TranslateError("name %s may be unbound after a branch" % n)
            ctx[2].append([env[n].ty for n in names])
            return "(" + ", ".join(env[n].lean for n in names) + ")"
        if kind == "loop":  # next iteration
            _, names, tys, fname = ctx
            for n, t in zip(names, tys):
                if env[n].ty != t:
                    raise TranslateError("loop changes the type of %s" % n)
            return "%s fuel %s" % (fname, " ".join(env[n].lean for n in names))
        raise TranslateError("internal: context")

    def leave(self, env, ctx):
        _, names, tys, _ = ctx
        return "(" + ", ".join(env[n].lean for n in names) + ")"

    def ret(self, e, env):
        if e is None or (isinstance(e, ast.Constant) and e.value is None):
            if self.rty != "unit":
                raise TranslateError("%s returns None" % self.name)
            return ".ok ()" if self.raises else "()"
        x, t = self.value(e, env)
        x = self.coerce(x, t, self.rty, "result of %s" % self.name)
        pre = self.take_binds()
        return pre + (".ok %s" % x if self.raises else x)

    def block(self, body, env, ctx):
        if not body:
            return self.fall(env, ctx)
        s, rest = body[0], list(body[1:])
        in_loop = ctx[0] == "loop"
        if isinstance(s, ast.Pass) or (isinstance(s, ast.Expr) and isinstance(s.value, ast.Constant)):
            return self.block(rest, env, ctx)
        if isinstance(s, ast.Return):
            if ctx[0] != "fn":
                raise TranslateError("return inside a loop or a non-returning branch")
            return self.ret(s.value, env)
        if isinstance(s, ast.Raise):
            if ctx[0] == "tuple" or not self.raises:
                raise TranslateError("raise where the dictionary expects none (%s)" % self.name)
            exc = s.exc.func if isinstance(s.exc, ast.Call) else s.exc
            if not (isinstance(exc, ast.Name) and exc.id in EXC):
                raise TranslateError("raise of %s is not in the dictionary" % _d(s.exc) if s.exc else "bare raise")
            return ".error %s" % EXC[exc.id]
        if isinstance(s, ast.Break) and in_loop:
            return self.leave(env, ctx)
        if isinstance(s, ast.Continue) and in_loop:
            return self.fall(env, ctx)
        if isinstance(s, ast.Assign) and len(s.targets) == 1 and isinstance(s.targets[0], ast.Name):
            tgt = s.targets[0].id
            rd = self.read_call(s.value)
            env2 = dict(env)
            if rd:
                sname, nexpr = rd
                if sname not in env or env[sname].ty != "stream":
                    raise TranslateError("%s.read(…): %s is not known to be a stream here" % (sname, sname))
                n, nt = self.value(nexpr, env)
                if nt != "nat":
                    raise TranslateError("read(<%s>)" % nt)
                pre = self.take_binds()
                src = env[sname].lean
                env2[tgt] = V(lname(tgt), "bytes")
                env2[sname] = V(lname(sname), "stream")
                if tgt == sname:
                    raise TranslateError("stream overwritten by its own read")
                return pre + "let %s := (%s).take %s\nlet %s := (%s).drop %s\n" % (lname(tgt), src, n, lname(sname), src, n) + self.block(rest, env2, ctx)
            x, t = self.value(s.value, env)
            pre = self.take_binds()
            env2[tgt] = V(lname(tgt), t)
            return pre + "let %s := %s\n" % (lname(tgt), x) + self.block(rest, env2, ctx)
        if isinstance(s, ast.Expr) and isinstance(s.value, ast.Call):
            c = s.value
            if (isinstance(c.func, ast.Attribute) and c.func.attr == "update" and isinstance(c.func.value, ast.Name)
                    and c.func.value.id in env and env[c.func.value.id].ty == "hash" and len(c.args) == 1 and not c.keywords):
                h = c.func.value.id
                x, t = self.value(c.args[0], env)
                if t != "bytes":
                    raise TranslateError("update(<%s>)" % t)
                pre = self.take_binds()
                env2 = dict(env)
                env2[h] = V(lname(h), "hash")
                return pre + "let %s := hl.update %s %s\n" % (lname(h), env[h].lean, x) + self.block(rest, env2, ctx)
            raise TranslateError("call statement %s is not in the dictionary" % _d(c))
        if isinstance(s, ast.If):
            return self.if_stmt(s, rest, env, ctx)
        if isinstance(s, ast.Try):
            return self.try_stmt(s, rest, env, ctx)
        if isinstance(s, ast.While):
            return self.while_stmt(s, rest, env, ctx)
        if isinstance(s, ast.With):
            if len(s.items) != 1 or not isinstance(s.items[0].optional_vars, ast.Name):
                raise TranslateError("with statement %s" % _d(s))
            x, t = self.value(s.items[0].context_expr, env)
            if t != "stream":
                raise TranslateError("with over a %s" % t)
            f = s.items[0].optional_vars.id
            env2 = dict(env)
            env2[f] = V(lname(f), "stream")
            return "let %s := %s\n" % (lname(f), x) + self.block(list(s.body) + rest, env2, ctx)
        raise TranslateError("unsupported statement %s" % _d(s))

    def cond(self, test, env):
        t = self.isinst(test, env)
        if t:
            return self.narrow(t, env)
        c = self.truth(test, env)
        if self.binds:
            raise TranslateError("call that may raise inside a condition")
        return _if_render(c), env, env

    def if_stmt(self, s, rest, env, ctx):
        in_loop = ctx[0] == "loop"
        rnd, te, fe = self.cond(s.test, env)
        if self.terminates(s.body, in_loop):
            a = self.block(list(s.body), te, ctx)
            b = self.block(list(s.orelse) + rest, fe, ctx)
            return rnd("(\n%s)" % a, "(\n%s)" % b)
        if s.orelse and self.terminates(s.orelse, in_loop):
            a = self.block(list(s.body) + rest, te, ctx)
            b = self.block(list(s.orelse), fe, ctx)
            return rnd("(\n%s)" % a, "(\n%s)" % b)
        for n in ast.walk(s):
            if isinstance(n, (ast.Return, ast.Raise, ast.Break, ast.Continue, ast.While, ast.For, ast.Try, ast.With)):
                raise TranslateError("control flow inside a branch that does not end in return/raise: %s" % _d(n))
        names = self.assigned(list(s.body) + list(s.orelse))
        if not names:
            return self.block(rest, env, ctx)
        tys = []
        a = self.block(list(s.body), te, ("tuple", names, tys))
        b = self.block(list(s.orelse), fe, ("tuple", names, tys))
        if any(t != tys[0] for t in tys):
            raise TranslateError("names %s have different types after the branches of `if %s`" % (names, _d(s.test)))
        env2 = dict(env)
        for n, t in zip(names, tys[0]):
            env2[n] = V(lname(n), t)
        return "match %s with\n| (%s) =>\n" % (rnd("(\n%s)" % a, "(\n%s)" % b), ", ".join(lname(n) for n in names)) + self.block(rest, env2, ctx)

    def try_stmt(self, s, rest, env, ctx):
        ok = (len(s.body) == 1 and isinstance(s.body[0], ast.Assign) and len(s.body[0].targets) == 1
              and isinstance(s.body[0].targets[0], ast.Name) and not s.orelse and not s.finalbody and len(s.handlers) == 1
              and isinstance(s.handlers[0].type, ast.Name) and s.handlers[0].type.id == "KeyError")
        v = s.body[0].value if ok else None
        ok = ok and isinstance(v, ast.Call) and not v.args and not v.keywords and isinstance(v.func, ast.Subscript) \
            and isinstance(v.func.value, ast.Name) and self.consts.get(v.func.value.id, (0, 0))[1] == "dict"
        if not ok:
            raise TranslateError("try statement is not `try: h = <dict constant>[k]() / except KeyError: …`: %s" % _d(s))
        if not self.terminates(s.handlers[0].body, False) or ctx[0] != "fn":
            raise TranslateError("KeyError handler does not raise/return")
        k, kt = self.value(v.func.slice, env)
        if kt != "str":
            raise TranslateError("dict key of type %s" % kt)
        h = s.body[0].targets[0].id
        hb = self.block(list(s.handlers[0].body), env, ctx)
        env2 = dict(env)
        env2[h] = V(lname(h), "hash")
        return ("match pyDictGet (%s hl) %s with\n| none => (\n%s)\n| some ctor =>\nlet %s := ctor ()\n" % (self.consts[v.func.value.id][0], k, hb, lname(h))
                + self.block(rest, env2, ctx))

    def while_stmt(self, s, rest, env, ctx):
        if not (isinstance(s.test, ast.Constant) and s.test.value is True) or s.orelse or ctx[0] != "fn":
            raise TranslateError("only `while True:` at function level is in the dictionary")
        body = list(s.body)
        # termination: a top-level `c = <stream>.read(n)` followed by a top-level `if not c: break`
        stream = chunk = None
        for st in body:
            if isinstance(st, ast.Assign) and len(st.targets) == 1 and isinstance(st.targets[0], ast.Name):
                rd = self.read_call(st.value)
                if rd and stream is None:
                    stream, chunk = rd[0], st.targets[0].id
                elif chunk and st.targets[0].id in (chunk, stream):
                    chunk = None
                    break
            elif (stream and chunk and isinstance(st, ast.If) and isinstance(st.test, ast.UnaryOp) and isinstance(st.test.op, ast.Not)
                  and isinstance(st.test.operand, ast.Name) and st.test.operand.id == chunk
                  and len(st.body) == 1 and isinstance(st.body[0], ast.Break) and not st.orelse):
                break
            elif stream and any(isinstance(n, (ast.Continue, ast.While, ast.For)) for n in ast.walk(st)):
                chunk = None
                break
        else:
            chunk = None
        if not (stream and chunk) or stream not in env or env[stream].ty != "stream":
            raise TranslateError("while True: no `c = <stream>.read(n)` followed by `if not c: break` found (termination measure)")
        for n in ast.walk(s):
            if isinstance(n, (ast.Return, ast.Raise, ast.Try, ast.With)) or (n is not s and isinstance(n, (ast.While, ast.For))):
                raise TranslateError("unsupported statement inside the loop: %s" % _d(n))
        # loop-carried names: bound before the loop and re-bound inside
        bound = []

        def collect(b):
            for st in b:
                if isinstance(st, ast.If):
                    collect(st.body)
                    collect(st.orelse)
                elif isinstance(st, (ast.Break, ast.Continue, ast.Pass)):
                    pass
                else:
                    for n in self.assigned([st]):
                        if n not in bound:
                            bound.append(n)
        collect(body)
        carried = [n for n in env if n in bound]
        local = [n for n in bound if n not in env]
        for st in rest:
            for n in ast.walk(st):
                if isinstance(n, ast.Name) and n.id in local:
                    raise TranslateError("name %s bound only inside the loop is used after it" % n.id)
        tys = [env[n].ty for n in carried]
        # names bound before the loop that the body only reads: fixed parameters of the loop function
        used = {n.id for st in body for n in ast.walk(st) if isinstance(n, ast.Name)}
        fixed = [n for n in env if n in used and n not in carried]
        self.nloop += 1
        fname = "%s.loop%d" % (self.name, self.nloop)
        fcall = "%s hl%s" % (fname, "".join(" " + lname(n) for n in fixed))
        lenv = dict(env)
        for n in fixed:
            if env[n].narrow:
                raise TranslateError("loop reads %s, which is narrowed by isinstance" % n)
            lenv[n] = V(lname(n), env[n].ty)
        for n, t in zip(carried, tys):
            lenv[n] = V(lname(n), t)
        lbody = self.block(body, lenv, ("loop", carried, tys, fcall))
        pats = ", ".join(lname(n) for n in carried)
        self.aux.append(
            "/-- the `while True:` loop of `%s`; state = (%s); fuel = number of iterations allowed -/\n"
            "def %s {σ : Type} (hl : HashLib σ)%s : Nat → %s → (%s)\n  | 0, %s => (%s)\n  | fuel + 1, %s =>\n%s\n" % (
                self.name, pats, fname, "".join(" (%s : %s)" % (lname(n), LEAN_TY[env[n].ty]) for n in fixed),
                " → ".join(LEAN_TY[t] for t in tys), " × ".join(LEAN_TY[t] for t in tys),
                pats, pats, pats, _indent(lbody, 4)))
        env2 = dict(env)
        for n, t in zip(carried, tys):
            env2[n] = V(lname(n), t)
        return ("match %s hl%s ((%s).length + 1) %s with\n| (%s) =>\n" % (fname, "".join(" " + env[n].lean for n in fixed), env[stream].lean, " ".join(env[n].lean for n in carried), pats)
                + self.block(rest, env2, ctx))

    # ---------------------------------------------------------------- whole function
    def translate(self, fn):
        a = fn.args
        if a.vararg or a.kwarg or a.kwonlyargs or a.posonlyargs:
            raise TranslateError("%s: unsupported parameter kinds" % self.name)
        if len(a.args) != len(self.ptys):
            raise TranslateError("%s: %d parameters, the dictionary knows %d" % (self.name, len(a.args), len(self.ptys)))
        env = {}
        params = []
        ann_ty = {"bytes": "bytes", "str": "str", "Path": "file", "Union[bytes, BinaryIO]": "data", "bool": "bool"}
        for arg, ty in zip(a.args, self.ptys):
            if ty == "self":
                for n in ast.walk(fn):
                    if isinstance(n, ast.Name) and n.id == arg.arg:
                        raise TranslateError("%s uses %s" % (self.name, arg.arg))
                continue
            if arg.annotation is not None:
                got = ann_ty.get(ast.unparse(arg.annotation))
                if got != ty:
                    raise TranslateError("%s: parameter %s annotated %s, the dictionary says %s" % (self.name, arg.arg, ast.unparse(arg.annotation), ty))
            env[arg.arg] = V(lname(arg.arg), ty)
            params.append((lname(arg.arg), ty))
        if fn.returns is not None and ann_ty.get(ast.unparse(fn.returns)) != self.rty:
            raise TranslateError("%s: return annotation %s, the dictionary says %s" % (self.name, ast.unparse(fn.returns), self.rty))
        if fn.decorator_list:
            raise TranslateError("%s is decorated" % self.name)
        body = self.block(strip_doc(list(fn.body)), env, ("fn",))
        rty = LEAN_TY[self.rty]
        if self.raises:
            rty = "Except Err %s" % rty
        hl = "{σ : Type} (hl : HashLib σ) " if self.hl else ""
        sig = " ".join("(%s : %s)" % (p, LEAN_TY[t]) for p, t in params)
        out = list(self.aux)
        out.append("/-- `%s` (%s) -/\ndef %s %s%s : %s :=\n%s\n" % (self.name, self.file, self.name, hl, sig, rty, _indent(body, 2)))
        # defaults
        defaults = []
        nd = len(a.defaults)
        for d in a.defaults:
            x, t = self.atom(d, {})
            defaults.append(x)
        for (p, t), d in zip(params[len(params) - nd:], a.defaults):
            x, dt = self.atom(d, {})
            if dt != t:
                raise TranslateError("%s: default of %s is a %s" % (self.name, p, dt))
        if nd:
            req = params[:len(params) - nd]
            out.append("def %s_d %s%s : %s := %s%s %s\n" % (
                self.name, hl, " ".join("(%s : %s)" % (p, LEAN_TY[t]) for p, t in req), rty, self.name, " hl" if self.hl else "",
                " ".join([p for p, _ in req] + defaults)))
        return "\n".join(out), defaults


def _indent(txt, n):
    """indent by nesting depth of parentheses (cosmetic; Lean does not care inside parentheses)"""
    out = []
    depth = 0
    for line in txt.split("\n"):
        d = depth - (1 if line.startswith(")") else 0)
        out.append(" " * (n + 2 * max(d, 0)) + line)
        depth += line.count("(") - line.count(")")
    return "\n".join(out)


# --------------------------------------------------------------------------- module constants
def _module_assign(tree, name):
    found = [n for n in tree.body if (isinstance(n, ast.Assign) and len(n.targets) == 1 and isinstance(n.targets[0], ast.Name) and n.targets[0].id == name)
             or (isinstance(n, ast.AnnAssign) and isinstance(n.target, ast.Name) and n.target.id == name and n.value is not None)]
    if len(found) != 1:
        raise TranslateError("module constant %s: %d assignments" % (name, len(found)))
    for n in ast.walk(tree):
        if n is not found[0] and isinstance(n, (ast.Assign, ast.AugAssign, ast.AnnAssign, ast.Delete, ast.Global)):
            for t in ast.walk(n):
                if isinstance(t, ast.Name) and t.id == name and isinstance(t.ctx, (ast.Store, ast.Del)):
                    raise TranslateError("module constant %s is re-bound" % name)
                if isinstance(t, ast.Subscript) and isinstance(t.value, ast.Name) and t.value.id == name and isinstance(t.ctx, (ast.Store, ast.Del)):
                    raise TranslateError("module constant %s is modified" % name)
    return found[0].value


def gen_bytesfns():
    trees = {f: _src(f) for f in (UTILS, OVERLAY, HASHSUMS)}
    out = [HEADER]
    consts = {}  # name -> (lean, type, bytes literal if a numpy.void constant)
    known = {}   # translated function -> Lean texts of its default arguments

    errors = []

    def emit_fn(name):
        try:
            emit_fn_(name)
        except TranslateError as e:
            errors.append("%s: %s" % (name, e))
            out.append("/-! NOT TRANSLATED `%s`: %s -/\n" % (name, str(e).replace("-/", "- /")))

    def emit_const(name, f):
        try:
            f()
        except TranslateError as e:
            errors.append("%s: %s" % (name, e))
            out.append("/-! NOT TRANSLATED `%s`: %s -/\n" % (name, str(e).replace("-/", "- /")))

    def emit_fn_(name):
        file, cls, *_ = FUNCS[name]
        node = find_class(trees[file], cls) if cls else trees[file]
        fns = [n for n in node.body if isinstance(n, ast.FunctionDef) and n.name == name]
        if len(fns) != 1:
            raise TranslateError("%d definitions of %s" % (len(fns), name))
        if any(isinstance(n, ast.AsyncFunctionDef) and n.name == name for n in node.body):
            raise TranslateError("%s is async" % name)
        tr = Fn(name, consts, known)
        txt, defaults = tr.translate(fns[0])
        known[name] = defaults
        out.append(txt)

    emit_fn("_h5_wrap_bytes")
    def c_del():
        v = _module_assign(trees[OVERLAY], "DEL_VALUE")
        if not (isinstance(v, ast.Call) and isinstance(v.func, ast.Attribute) and isinstance(v.func.value, ast.Name) and v.func.value.id in ("np", "numpy")
                and v.func.attr == "void" and len(v.args) == 1 and not v.keywords and isinstance(v.args[0], ast.Constant) and isinstance(v.args[0].value, bytes)):
            raise TranslateError("DEL_VALUE is not `np.void(<bytes constant>)`: %s" % _d(v))
        consts["DEL_VALUE"] = ("DEL_VALUE", "h5val", lean_bytes(v.args[0].value))
        out.append("/-- `DEL_VALUE` (%s) -/\ndef DEL_VALUE : H5Val := (H5Val.void %s)\n" % (OVERLAY, lean_bytes(v.args[0].value)))
    emit_const("DEL_VALUE", c_del)
    for n in ("_is_del_mark", "_node_is_del_mark", "_guard_value"):
        emit_fn(n)
    def c_hash():
        v = _module_assign(trees[HASHSUMS], "_hash_alg")
        if not isinstance(v, ast.Dict):
            raise TranslateError("_hash_alg is not a dict literal")
        rows, keys = [], []
        for k, x in zip(v.keys, v.values):
            if not (isinstance(k, ast.Constant) and isinstance(k.value, str) and isinstance(x, ast.Attribute) and isinstance(x.value, ast.Name) and x.value.id == "hashlib"):
                raise TranslateError("_hash_alg entry %s: %s is not `\"<name>\": hashlib.<alg>`" % (_d(k) if k else "**", _d(x)))
            if k.value in keys:
                raise TranslateError("_hash_alg: duplicate key %r" % k.value)
            keys.append(k.value)
            rows.append("(%s, fun _ => hl.new %s)" % (lean_str(k.value), lean_str(x.attr)))
        consts["_hash_alg"] = ("_hash_alg", "dict", None)
        out.append("/-- `_hash_alg` (%s): key ↦ constructor of the hash object -/\ndef _hash_alg {σ : Type} (hl : HashLib σ) : List (Str × (Unit → σ)) :=\n  [%s]\n" % (HASHSUMS, ",\n   ".join(rows)))
    emit_const("_hash_alg", c_hash)
    emit_fn("hashsum")
    def c_def():
        v = _module_assign(trees[HASHSUMS], "DEF_HASH_ALG")
        if not (isinstance(v, ast.Constant) and isinstance(v.value, str)):
            raise TranslateError("DEF_HASH_ALG is not a string constant")
        consts["DEF_HASH_ALG"] = ("DEF_HASH_ALG", "str", None)
        out.append("/-- `DEF_HASH_ALG` (%s) -/\ndef DEF_HASH_ALG : Str := %s\n" % (HASHSUMS, lean_str(v.value)))
    emit_const("DEF_HASH_ALG", c_def)
    emit_fn("qualified_hashsum")
    emit_fn("file_hashsum")
    out.append("end MetadorModel.Gen.BytesFns\n")
    return "\n".join(out), errors


class PartlyTranslated(TranslateError):
    """some functions were not understood; Gen/BytesFns.lean holds the others"""


def write(lean_mod):
    """regenerate Gen/BytesFns.lean; returns an info string"""
    text, errors = gen_bytesfns()
    changed = lean_mod.write_if_changed(os.path.join(lean_mod.LEAN, "MetadorModel", "Gen", "BytesFns.lean"), text)
    if errors:
        # what could be translated is written (so that only the bridge modules of the affected functions fail)
        raise PartlyTranslated("; ".join(errors))
    return "Gen/BytesFns.lean %s (%d lines)" % ("rewritten" if changed else "unchanged", text.count("\n"))


def write_stub(lean_mod, why):
    """what is written when the source is not understood: no definitions, so that the bridge cannot build"""
    text = HEADER + "\n/-! NOT TRANSLATED: %s -/\n\nend MetadorModel.Gen.BytesFns\n" % why.replace("-/", "- /")
    lean_mod.write_if_changed(os.path.join(lean_mod.LEAN, "MetadorModel", "Gen", "BytesFns.lean"), text)


if __name__ == "__main__":
    _t, _e = gen_bytesfns()
    print(_t)
    print("\n".join("NOT TRANSLATED " + x for x in _e))
