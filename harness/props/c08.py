"""C08 — Reserved `metador_*` namespace is invisible and untouchable for users.

Lean: Model/Paths.lean (path predicates, guard sequencing of a wrapped method, filtered
listings over a flat raw tree), Model/PathsAlias.lean (path arguments of other types than str,
values that name / reference other nodes, a raw tree with links), Proofs/Paths.lean,
Proofs/PathsAlias.lean, Props/C08.lean; translated on every run:
Gen/Paths.lean (the four functions of container/utils.py) + Bridge/Paths.lean, and
Gen/GroupMethods.lean (method table of the wrapper classes, the value classes refused by
`__setitem__`, the statements of `_guard_path`) + Bridge/GroupMethods.lean.

Correspondence (driver `drv_pth`):
  * `paths`  — is_internal_path / is_meta_base_path / to_meta_base_path / to_data_node_path on
               generated strings, exact;
  * `plant`  — raw trees with reserved-named nodes planted through `mc.__wrapped__`;
               keys/len/iter/values/items/visit/visititems/in through the wrapper vs. the
               model's filtered listing, exact;
  * `hist`   — histories mixing data and metadata operations: for every path-taking call the
               model says `rej` (some path argument has a reserved segment, or is not a str,
               or the assigned value is of a link / reference class) or `pass`;
               `rej` must be an error on the real code. Groups: `proto` (protocol x reserved
               shape x argument position), `near`, `ptype` (the same with the path handed over
               as bytes, numpy.bytes_, numpy.str_, a str subclass, pathlib, tuple, bytearray -
               reserved and ordinary shapes), `alias` (SoftLink / ExternalLink / HardLink /
               node object / object + region reference / array of references / named datatype
               assigned under ordinary names, to reserved and to user targets, followed by
               user operations through the new name), `rand`.
  * `attrs`  — (oracle only, no model lines) attribute sweep: after a history, on every user
               node, every public attribute of the *raw* driver object (dir() of the h5py /
               IH5 object and of its class, plus the zero-argument collection hooks) is
               requested through the wrapper. Whatever is not refused is examined for what it
               hands out: node-valued attributes, and for callables the names / nodes passed to
               a recording callback, returned, or yielded. For group methods outside the known
               protocol, reserved paths are tried in the leading argument positions.
Oracle (real code only, no model): (a) a call with a reserved segment in any path-typed
argument raises and leaves the raw dump of `mc.__wrapped__` unchanged; (b) no listing / visit
result contains a reserved segment; (c) after every step the user-visible tree equals a plain
`h5py.File` driven by the same user operations (reserved calls are not user operations);
(d) no attribute of the raw object reachable through the wrapper hands out a reserved name or a
bookkeeping node, and none addresses a bookkeeping entity when given a reserved path;
(e) once a value that names / references other nodes (or a named datatype) has been accepted:
everything reachable by names alone (`keys` -> `in` -> `[]` recursively, links followed) is no
bookkeeping entity - neither by reserved name nor (h5py driver) by HDF5 object identity under an
ordinary name - and equals what is reachable in the plain tree (`check_walk`).
A path handed over as a non-str value may be refused wholesale (that is "rejected without
effect"); if it is served, it must be served like on the plain tree.
"""
import os

from .. import core, lean
from .. import translate as tr

ID = "C08"
MOD = "harness.props.c08"
T = "MetadorModel.C08."
B1 = "MetadorModel.Bridge.Paths."
B2 = "MetadorModel.Bridge.GroupMethods."
LEAN = dict(
    modules=["MetadorModel.Props.C08", "MetadorModel.Bridge.Paths", "MetadorModel.Bridge.GroupMethods"],
    theorems=[T + n for n in [
        "isInternal_iff", "isInternal_of_reserved_seg", "metaBase_roundtrip", "metaBase_is_reserved",
        "methods_guarded", "reserved_rejected", "reserved_rejected_table", "userView_hides",
        "contains_reserved_rejected", "near_miss_not_reserved", "bookkeeping_invisible", "userView_refines", "userView_history",
        "typed_guards_extend_str", "typed_rejected", "typed_rejected_table", "link_values_refused", "link_values_refused_src",
        "links_never_accepted", "visible_names_are_user_entities", "visible_names_are_user_entities_src", "softlink_accepted_exposes",
        "type_values_refused", "no_raw_handle_escapes", "legacy_named_type_escapes"]]
    + [B1 + n for n in ["gen_is_internal_path", "gen_is_meta_base_path", "gen_to_meta_base_path",
                        "gen_to_data_node_path", "gen_constants"]]
    + [B2 + n for n in ["methods_guarded", "listings_filtered", "protocol_covered", "unknown_refused",
                        "passthrough_harmless", "table_nonempty", "link_values_refused", "type_values_refused", "guard_path_shape"]],
    drivers=["drv_pth"],
)

REVERSED_PROBE = True  # F18: reversed(group) must be filtered too (fixed in /repo 3aabc95)
# F35: objects handed out by protocol methods that are NOT wrapped (h5py named datatypes:
# `m["t"] = numpy.dtype("int32")`, then `m["t"].parent` was the raw h5py group listing
# metador_container). Fixed in /repo 12ab905 (such values are refused).
RAW_HANDLE_PROBE = True


def translate(ctx):
    gen = os.path.join(lean.LEAN, "MetadorModel", "Gen")
    a = lean.write_if_changed(os.path.join(gen, "Paths.lean"), tr.gen_paths())
    b = lean.write_if_changed(os.path.join(gen, "GroupMethods.lean"), tr.gen_group_methods())
    return "Gen/Paths.lean %s, Gen/GroupMethods.lean %s" % ("rewritten" if a else "unchanged", "rewritten" if b else "unchanged")


def hx(s):
    return s.encode().hex() if s else "-"


# A path argument of an op is a plain `str`, or `{"t": <type>, "p": <text>}`: the same text handed
# over as another Python type (what h5py itself accepts as a name is str and bytes; the others
# are values a caller may pass where a path is expected).
PATH_TYPES = ["bytes", "npbytes", "npstr", "strsub", "pathlib", "tuple", "bytearray"]
STR_LIKE = ("npstr", "strsub")    # subclasses of str: every str method works on them
BYTES_LIKE = ("bytes", "npbytes")  # accepted as names by h5py


def ptxt(p):
    """the path text of a (possibly typed) path argument"""
    return p["p"] if isinstance(p, dict) else p


def ptype(p):
    return p["t"] if isinstance(p, dict) else "str"


def is_strlike(p):
    return ptype(p) == "str" or ptype(p) in STR_LIKE


def typed(p, t):
    return p if t == "str" else {"t": t, "p": p}


class _StrSub(str):
    """a user-defined subclass of str"""


def _mk(p):
    """materialise a (possibly typed) path argument"""
    if not isinstance(p, dict):
        return p
    t, x = p["t"], p["p"]
    if t == "bytes":
        return x.encode()
    if t == "bytearray":
        return bytearray(x.encode())
    if t == "strsub":
        return _StrSub(x)
    if t == "pathlib":
        import pathlib
        return pathlib.PurePosixPath(x)
    if t == "tuple":
        return tuple(x.split("/"))
    import numpy as np
    if t == "npbytes":
        return np.bytes_(x.encode())
    if t == "npstr":
        return np.str_(x)
    raise RuntimeError("unknown path type %r" % (t,))


def has_reserved(p):
    """Specification of 'reserved': some '/'-separated segment starts with metador_ (this is
    the property's wording, deliberately not `is_internal_path`). For a typed path argument
    the text it spells."""
    p = ptxt(p)
    return isinstance(p, str) and any(seg.startswith("metador_") for seg in p.split("/"))


# ----------------------------------------------------------------------------- real code
_meta = {}


def _bib():
    if "bib" not in _meta:
        from metador_core.plugins import schemas
        BibMeta = schemas.get("core.bib", (0, 1, 0))
        Person = BibMeta.Fields.author.schemas.Person
        _meta["bib"] = BibMeta(name="D1", abstract="txt", dateCreated="2023-01-23", author=[Person(name="Jane Doe")], creator=Person(name="Jane Doe"))
        DirMeta = schemas.get("core.dir", (0, 1, 0))
        _meta["dirc"] = DirMeta
    return _meta


def _val(v):
    import numpy as np
    if isinstance(v, dict):
        if "b" in v:
            return np.void(bytes.fromhex(v["b"])) if v.get("void") else bytes.fromhex(v["b"])
        if "a" in v:
            return np.array(v["a"], dtype="int64")
    return v


def _desc_val(x):
    import numpy as np
    a = np.asarray(x)
    if a.dtype.kind == "O":  # object / region references: tokens of the file they live in
        return [str(a.dtype), list(a.shape), "<%d references>" % a.size]
    return [str(a.dtype), list(a.shape), a.tobytes().hex()]


def _attrs(node):
    out = {}
    for k in node.attrs.keys():
        out[k] = _desc_val(node.attrs[k])
    return out


def _is_ds(node):
    return hasattr(node, "ndim")


def dump(root):
    """Full dump (names, kinds, dataset bytes, attributes) of an h5py / IH5 / Metador group."""
    out = {"/": ["g", _attrs(root)]}

    def cb(name, node):
        if _is_ds(node):
            out[name] = ["d", _desc_val(node[()]), _attrs(node)]
        elif hasattr(node, "keys"):
            out[name] = ["g", _attrs(node)]
        else:  # named datatype (h5py driver only)
            out[name] = ["t", str(getattr(node, "dtype", "?")), _attrs(node)]

    root.visititems(cb)
    return out


def _kind(n):
    return "d" if _is_ds(n) else ("g" if hasattr(n, "keys") else "t")


def _raw_of(n):
    """the raw driver object behind a node handed out by the interface (observation only)"""
    try:
        from metador_core.container.wrappers import MetadorNode
        if isinstance(n, MetadorNode):
            return n.__wrapped__
    except Exception:
        pass
    return n


def _ident(n):
    """identity of the HDF5 object behind a node (h5py driver): (file number, object address).
    None where the driver has no object identity besides the name (IH5)."""
    try:
        import h5py
        r = _raw_of(n)
        if isinstance(r, h5py.HLObject):
            info = h5py.h5o.get_info(r.id)
            return (info.fileno, info.addr)
    except Exception:
        pass
    return None


WALK_LIMIT = 250
WALK_DEPTH = 6


def walk(root, seen_nodes=None):
    """What a user reaches by names alone: from `root`, every key of every group is looked up
    with `in` and `[]` and groups are descended into - links are followed, so a node shows up
    under every name it can be reached by (bounded: link cycles). name -> [kind, …]; the nodes
    handed out are appended to `seen_nodes` as (name, node)."""
    out = {}

    def rec(g, path, d):
        try:
            ks = sorted(g.keys())
            ln = len(g)
        except Exception as e:
            out[path or "/"] = ["g", "keys-raise", _exc(e)]
            return
        out[path or "/"] = ["g", ks, ln]
        for k in ks:
            if len(out) > WALK_LIMIT:
                return
            p = path + "/" + k
            try:
                inn = bool(k in g)
            except Exception:
                inn = "err"
            try:
                n = g[k]
            except Exception:
                out[p] = ["unresolvable", inn]
                continue
            if n is None:
                out[p] = ["none", inn]
                continue
            if seen_nodes is not None:
                seen_nodes.append((p, n))
            kd = _kind(n)
            if kd == "g" and d < WALK_DEPTH:
                rec(n, p, d + 1)
                out[p] = out[p] + [inn]
            else:
                out[p] = [kd, inn]

    rec(root, "", 0)
    return out


def _exc(e):
    return type(e).__name__


class _Run:
    """Executes the ops of one history on a MetadorContainer and on a plain h5py.File."""

    def __init__(self, case, tmp):
        import h5py
        from metador_core.container import MetadorContainer
        from metador_core.ih5.container import IH5Record

        self.case = case
        self.drv = case.get("drv", "h5")
        if self.drv == "h5":
            self.mc = MetadorContainer(os.path.join(tmp, "c.h5"), "w")
        else:
            self.mc = MetadorContainer(os.path.join(tmp, "rec"), "w", driver=IH5Record)
        self.ref = h5py.File(os.path.join(tmp, "ref.h5"), "w")
        self.raw = self.mc.__wrapped__
        self.out, self.oracle, self.tags = [], [], set()
        self.lockstep = not case.get("no_ref")
        self._rawdump = None  # cached raw dump (valid while only rejected calls happened)
        self._nview = 0
        self.aliased = False  # a value naming / referencing other nodes was accepted
        self._aux = None
        self.tmp = tmp

    def close(self):
        for x in (self.mc, self.ref, self._aux):
            try:
                x.close()
            except Exception:
                pass

    # -- helpers
    def hit(self, kind, i, op, **kw):
        d = dict(kind=kind, step=i, op=op)
        d.update(kw)
        self.oracle.append(d)

    def grp(self, on, g):
        return on if g == "/" else on[g]

    def call(self, on, op):
        """Perform op on `on` (MetadorContainer or plain h5py.File). Returns a result summary."""
        k = op[0]
        is_mc = on is self.mc
        if k == "patch":
            if is_mc and self.drv == "ih5":
                self.raw.commit_patch()
                self.raw.create_patch()
            return None
        if k in ("meta_set", "meta_del"):
            if not is_mc:
                return None
            node = self.grp(on, op[1])
            if k == "meta_set":
                m = _bib()
                node.meta[op[2]] = m["bib"] if op[2] == "core.bib" else m["dirc"].parse_obj(m["bib"].dict())
            else:
                del node.meta[op[2]]
            return None
        g = self.grp(on, op[1])
        a2 = _mk(op[2]) if len(op) > 2 else None
        if k == "getitem":
            n = g[a2]
            return ["node", n.name, _kind(n)]
        if k == "get":
            n = g.get(a2)
            return ["none"] if n is None else ["node", n.name, _kind(n)]
        if k == "in":
            return ["bool", bool(a2 in g)]
        if k == "set":
            g[a2] = _val(op[3])
        elif k == "setv":  # value that can alias / reference other nodes, or a named datatype
            g[a2] = self.value(on, op[3])
        elif k == "cdv":  # the same kind of value through create_dataset(data=…)
            g.create_dataset(a2, data=self.value(on, op[3]))
        elif k == "cg":
            g.create_group(a2)
        elif k == "rg":
            g.require_group(a2)
        elif k == "cd":
            g.create_dataset(a2, data=_val(op[3]))
        elif k == "rd":
            g.require_dataset(a2, shape=tuple(op[3]), dtype="int64")
        elif k == "del":
            del g[a2]
        elif k == "move":
            g.move(a2, _mk(op[3]))
        elif k == "copy":
            g.copy(a2, _mk(op[3]))
        elif k == "copyg":  # dest given as group object (+ name=)
            kw = {} if op[4] is None else {"name": _mk(op[4])}
            g.copy(a2, self.grp(on, op[3]), **kw)
        elif k == "copyn":  # source given as node object, dest string
            g.copy(self.grp(on, op[2]), _mk(op[3]))
        elif k == "copyng":  # source node object, dest group object (+ name=)
            kw = {} if op[4] is None else {"name": _mk(op[4])}
            g.copy(self.grp(on, op[2]), self.grp(on, op[3]), **kw)
        else:
            raise RuntimeError("unknown op %r" % (op,))
        return None

    class NoSuchValue(Exception):
        """the value cannot be obtained through the interface (nothing to assign)"""

    def value(self, on, v):
        """A value for `__setitem__` / `create_dataset(data=…)` that names or references other
        nodes. Node objects and references are obtained through the interface under test
        (`on[...]`, `.ref`, `.regionref`) - never through `__wrapped__`."""
        import h5py
        import numpy as np
        kind = v["v"]
        if kind == "soft":
            return h5py.SoftLink(v["to"])
        if kind == "ext":
            fn = v.get("file")
            if fn is None:  # the container's own file
                fn = self.ref.filename if on is self.ref else os.path.join(self.tmp, "c.h5")
            return h5py.ExternalLink(fn, v["to"])
        if kind == "hard":
            return h5py.HardLink()
        if kind == "dtype":
            return np.dtype(v.get("t", "int32"))
        if kind == "dtypeobj":  # a committed datatype object of another (the user's own) file
            if self._aux is None:
                self._aux = h5py.File(os.path.join(self.tmp, "aux.h5"), "w")
                self._aux["t"] = np.dtype("int32")
            return self._aux["t"]
        try:
            node = self.grp(on, v["of"])
            if kind == "node":
                return node
            if kind == "ref":
                return node.ref
            if kind == "regref":
                return node.regionref[0:1]
            if kind == "refarr":
                return np.array([node.ref], dtype=h5py.ref_dtype)
        except Exception as e:
            raise self.NoSuchValue("%s: %s" % (_exc(e), e))
        raise RuntimeError("unknown value %r" % (v,))

    @staticmethod
    def path_args(op):
        """Path-typed arguments of an op as given by the user (the group a method is invoked on
        and node objects obtained through the interface are not path arguments)."""
        k = op[0]
        if k in ("getitem", "get", "in", "set", "setv", "cdv", "cg", "rg", "cd", "rd", "del"):
            return [op[2]]
        if k in ("move", "copy"):
            return [op[2], op[3]]
        if k == "copyg":
            return [op[2]] + ([op[4]] if op[4] is not None else [])
        if k == "copyn":
            return [op[3]]
        if k == "copyng":
            return [op[4]] if op[4] is not None else []
        return []

    # -- listing checks
    def listings(self, i, op, g_path):
        """(b): all listing primitives at group g_path expose user names only; returned names."""
        g = self.grp(self.mc, g_path)
        res = {}
        res["keys"] = list(g.keys())
        res["iter"] = list(iter(g))
        res["len"] = len(g)
        res["values"] = [v.name.split("/")[-1] for v in g.values()]
        res["items"] = [k for k, _ in g.items()]
        vis = []
        g.visit(vis.append)
        res["visit"] = vis
        vis2 = []
        g.visititems(lambda n, o: vis2.append(n))
        res["visititems"] = vis2
        for nm in ("keys", "iter", "values", "items", "visit", "visititems"):
            bad = [x for x in res[nm] if has_reserved(x)]
            if bad:
                self.hit("listing-exposes-reserved", i, op, via=nm, group=g_path, names=sorted(bad)[:5])
        if not (sorted(res["keys"]) == sorted(res["iter"]) == sorted(res["values"]) == sorted(res["items"])) or res["len"] != len(res["keys"]):
            self.hit("listing-inconsistent", i, op, group=g_path, got={k: (sorted(v) if isinstance(v, list) else v) for k, v in res.items()})
        if sorted(res["visit"]) != sorted(res["visititems"]):
            self.hit("listing-inconsistent", i, op, group=g_path, got=dict(visit=sorted(res["visit"]), visititems=sorted(res["visititems"])))
        if REVERSED_PROBE:
            try:
                rv = list(reversed(g))
            except Exception:
                rv = None
            if rv is not None:
                bad = [x for x in rv if isinstance(x, str) and has_reserved(x)]
                if bad:
                    self.hit("reversed-exposes-reserved", i, op, via="reversed", group=g_path, names=sorted(bad)[:5])
        return res

    def check_view(self, i, op):
        """(b) + (c): user-visible tree of the container == plain tree, via every listing."""
        if not self.lockstep:
            self.listings(i, op, "/")
            return
        try:
            mine = dump(self.mc)
        except Exception as e:  # the view itself is broken
            self.hit("user-view-raises", i, op, exc=_exc(e), msg=str(e)[:200])
            return
        want = dump(self.ref)
        for name in mine:
            if has_reserved(name):
                self.hit("listing-exposes-reserved", i, op, via="visititems", group="/", names=[name])
        if mine != want:
            only_mc = sorted(set(mine) - set(want))[:5]
            only_ref = sorted(set(want) - set(mine))[:5]
            diff = sorted(k for k in set(mine) & set(want) if mine[k] != want[k])[:5]
            self.hit("user-tree-differs", i, op, only_container=only_mc, only_plain=only_ref, different=diff)
            return
        # every group: listings agree with the plain tree; every node can be looked up
        # (on IH5 this is slow: every 6th step and at the end)
        self._nview += 1
        if self.drv == "ih5" and op != ["end"] and self._nview % 6:
            return
        for name, d in want.items():
            if d[0] != "g":
                continue
            res = self.listings(i, op, name if name == "/" else "/" + name)
            rg = self.ref if name == "/" else self.ref[name]
            if sorted(res["keys"]) != sorted(rg.keys()) or res["len"] != len(rg):
                self.hit("user-tree-differs", i, op, group=name, keys=sorted(res["keys"]), plain=sorted(rg.keys()))
            vr = []
            rg.visit(vr.append)
            if sorted(res["visit"]) != sorted(vr):
                self.hit("user-tree-differs", i, op, group=name, visit=sorted(res["visit"]), plain=sorted(vr))
        for name in want:
            if name == "/":
                continue
            try:
                ok = (name in self.mc) and (("/" + name) in self.mc) and self.mc[name].name == "/" + name and self.mc.get("/" + name) is not None
            except Exception as e:
                ok = False
            if not ok:
                self.hit("user-node-not-addressable", i, op, path=name)

    def check_walk(self, i, op):
        """(b) + (c) by names alone, following whatever the names lead to: nothing reachable is a
        bookkeeping entity (by reserved name, or - h5py driver - by object identity under an
        ordinary name), and what is reachable equals what is reachable in the plain tree."""
        nodes = []
        try:
            mine = walk(self.mc, nodes)
        except Exception as e:
            self.hit("user-view-raises", i, op, exc=_exc(e), msg=str(e)[:200])
            return
        self.tags.add("walked")
        bad = sorted(n for n in mine if has_reserved(n))
        if bad:
            self.hit("listing-exposes-reserved", i, op, via="keys+getitem", group="/", names=_nouuid(bad)[:5])
        if self.drv == "h5":
            book = {}

            def cb(name, node):
                if has_reserved(name):
                    book.setdefault(_ident(node), name)
            self.raw.visititems(cb)
            book.pop(None, None)
            exposed = [(p, book[_ident(n)]) for p, n in nodes if _ident(n) in book]
            if exposed:
                self.tags.add("exposed")
                self.hit("alias-exposes-bookkeeping", i, op, count=len(exposed),
                         names=[_nouuid_deep([a, "/" + b]) for a, b in exposed[:4]])
        if RAW_HANDLE_PROBE:
            for p, n in nodes:
                if _raw_of(n) is not n:
                    continue  # a wrapper object: its attributes are the subject of the attribute sweep
                for attr in ("parent", "file"):
                    try:
                        v = getattr(n, attr)
                        names = sorted(k for k in v.keys() if has_reserved(k))
                    except Exception:
                        continue
                    if names:
                        self.hit("raw-handle-escapes", i, op, name=p, type=type(n).__name__, via=attr, lists=_nouuid(names)[:4])
                        break
        if self.lockstep:
            want = walk(self.ref)
            if mine != want:
                ks = sorted(set(mine) | set(want))
                diff = [k for k in ks if mine.get(k) != want.get(k)][:4]
                self.hit("user-tree-differs", i, op, via="keys+getitem", names=_nouuid(diff),
                         container=[_nouuid_deep(mine.get(k)) for k in diff], plain=[want.get(k) for k in diff])

    # -- one step
    def step(self, i, op):
        k = op[0]
        if k in ("ls",):
            try:
                if _is_ds(self.grp(self.mc, op[1])):
                    return
            except Exception:
                return
            self.listings(i, op, op[1])
            return
        pargs = self.path_args(op)
        reserved = any(has_reserved(p) for p in pargs)
        if k not in ("meta_set", "meta_del", "patch") and op[1] != "/":
            # the receiver must be an existing user group (a dataset has no path-taking protocol)
            try:
                recv_ok = not _is_ds(self.grp(self.mc, op[1]))
            except Exception:
                recv_ok = False
            if not recv_ok:
                if pargs:
                    self.out.append("err")
                self.tags.add("skipped-no-receiver")
                return
        if k in ("copyg", "copyng") and op[4] is not None and not is_strlike(op[4]):
            # observation, outside the property: `name=` is formatted into the destination path
            # (f-string), so a bytes name b"x" becomes the node name "b'x'" (h5py: "x").
            # Not generated as a user operation.
            self.out.append("err")
            self.tags.add("skipped-typed-name")
            return
        for p_ in pargs:
            if isinstance(p_, dict):
                self.tags.add("ptype:%s:%s" % (p_["t"], "reserved" if has_reserved(p_) else "user"))
        if not reserved and k in ("copyg", "copyng") and op[4] is not None and ptxt(op[4]).startswith("/"):
            # observation, outside the property: an absolute `name=` next to a destination
            # group is taken relative to the group by the wrapper (dest.name + "/" + name) and
            # from the root by h5py. Not generated as a user operation.
            self.out.append("ok")
            self.tags.add("skipped-absolute-name")
            return
        if reserved:
            self.tags.add("reserved:" + k)
            if any(has_reserved(p) and not ptxt(p).startswith("metador_") and "/metador_" in ptxt(p) for p in pargs):
                self.tags.add("reserved-nested")
            before = self._rawdump if self._rawdump is not None else dump(self.raw)
            try:
                self.call(self.mc, op)
                res = "ok"
            except Exception as e:
                res = "err"
            after = dump(self.raw)
            self._rawdump = after
            self.out.append(res)
            if res == "ok":
                self.hit("reserved-accepted", i, op, changed=before != after)
            elif before != after:
                new = sorted(set(after) - set(before))[:5]
                gone = sorted(set(before) - set(after))[:5]
                self.hit("reserved-effect", i, op, created=new, removed=gone)
            return
        self._rawdump = None
        # user operation. The plain reference is driven by the same *successful* operations;
        # an operation that raises must either have left the user view as it was (refused:
        # the reference is not advanced) or have taken its full effect (then the reference is
        # advanced too and the trees must agree - e.g. copy of a metadata-free dataset raises
        # after copying, a recorded observation, not a violation).
        r_mc = r_ref = None
        e_mc = e_ref = None
        try:
            r_mc = self.call(self.mc, op)
        except Exception as e:
            e_mc = e
        refused_clean = False
        if self.lockstep:
            advance = e_mc is None
            if not advance and k not in ("getitem", "get", "in", "meta_set", "meta_del", "patch"):
                try:
                    advance = dump(self.mc) != dump(self.ref)
                    # refused, and the user-visible tree is the one that was examined after the
                    # previous step: nothing new to look at
                    refused_clean = not advance
                except Exception:
                    advance = False
                if advance:
                    self.tags.add("raised-after-effect:" + k)
            if advance or k in ("getitem", "get", "in"):
                try:
                    r_ref = self.call(self.ref, op)
                except Exception as e:
                    e_ref = e
            else:
                e_ref = e_mc
        if pargs:
            line = "ok" if e_mc is None else "err"
            if e_mc is not None and isinstance(e_mc, ValueError) and "internal" in str(e_mc).lower():
                line = "err-internal"
            self.out.append(line)
            if any("metador" in ptxt(p).lower() for p in pargs):
                self.tags.add("near-miss:" + k + (":ok" if e_mc is None else ":err"))
        if k in ("meta_set", "meta_del"):
            self.tags.add(k + (":ok" if e_mc is None else ":err"))
        if k == "patch":
            self.tags.add("patch")
        if self.lockstep and k in ("getitem", "get", "in"):
            a = r_mc if e_mc is None else ["err"]
            b = r_ref if e_ref is None else ["err"]
            if k == "in":  # membership of a path running through a dataset raises in the wrapper, False in h5py
                a = ["bool", False] if a == ["err"] else a
                b = ["bool", False] if b == ["err"] else b
            if k == "get":
                a = ["none"] if a == ["err"] else a
                b = ["none"] if b == ["err"] else b
            refused_type = e_mc is not None and not all(is_strlike(p) for p in pargs)
            if not case_malformed(pargs) and not refused_type:
                # (a path handed over as a non-str value may be refused wholesale; when it is
                # served, it is served like on the plain tree)
                if a != b:
                    self.hit("lookup-differs", i, op, container=a, plain=b)
        if (e_mc is None) != (e_ref is None) and self.lockstep and k not in ("meta_set", "meta_del", "patch"):
            self.tags.add("outcome-differs:" + k)
        if k in ("setv", "cdv"):
            self.tags.add("value:%s:%s" % (op[3].get("v"), "ok" if e_mc is None else ("unobtainable" if isinstance(e_mc, self.NoSuchValue) else "err")))
            if e_mc is None:
                self.aliased = True
        if k not in ("getitem", "get", "in") and not refused_clean:
            self.check_view(i, op)
            if self.aliased and not (self.drv == "ih5" and k not in ("setv", "cdv")):
                self.check_walk(i, op)


def case_malformed(paths):
    paths = [ptxt(p) for p in paths]
    return any(p == "" or "//" in p or p.endswith("/") and p != "/" or "." in p.split("/") for p in paths)


def impl_hist(case):
    import shutil
    import tempfile
    tmp = tempfile.mkdtemp(prefix="c08_")
    run = None
    try:
        run = _Run(case, tmp)
        for i, op in enumerate(case["ops"]):
            run.step(i, op)
        run.check_view(len(case["ops"]), ["end"])
        if run.aliased or case.get("walk"):
            run.check_walk(len(case["ops"]), ["end"])
        return dict(out=run.out, oracle=run.oracle[:6], tags=sorted(run.tags))
    finally:
        if run is not None:
            run.close()
        shutil.rmtree(tmp, ignore_errors=True)


def impl_paths(case):
    from metador_core.container import utils as M
    out = []
    for op in case["ops"]:
        f = op[0]
        if f == "int":
            out.append("T" if M.is_internal_path(op[1]) else "F")
        elif f == "intp":
            out.append("T" if M.is_internal_path(op[1], op[2]) else "F")
        elif f == "mb":
            out.append("T" if M.is_meta_base_path(op[1]) else "F")
        elif f == "tm":
            out.append(hx(M.to_meta_base_path(op[1], bool(op[2]))))
        elif f == "td":
            out.append(hx(M.to_data_node_path(op[1])))
    oracle = []
    tags = set()
    for op in case["ops"]:
        if op[0] == "int":
            # the predicate is exactly "some segment starts with metador_"
            if bool(M.is_internal_path(op[1])) != has_reserved(op[1]):
                oracle.append(dict(kind="is-internal-path-wrong", path=op[1], got=bool(M.is_internal_path(op[1]))))
            tags.add("int:" + ("T" if has_reserved(op[1]) else "F"))
        if op[0] == "tm":
            p, ds = op[1], bool(op[2])
            user = p != "" and (not ds or p == "/" or p.split("/")[-1] != "")
            if user and not has_reserved(p):
                m = M.to_meta_base_path(p, ds)
                if M.to_data_node_path(m) != p:
                    oracle.append(dict(kind="meta-base-roundtrip", path=p, is_dataset=ds, meta=m, back=M.to_data_node_path(m)))
                if not has_reserved(m) or not M.is_meta_base_path(m):
                    oracle.append(dict(kind="meta-base-not-reserved", path=p, is_dataset=ds, meta=m))
                tags.add("roundtrip")
    return dict(out=out, oracle=oracle, tags=sorted(tags))


def impl_plant(case):
    """Raw tree with reserved-named nodes planted behind the wrapper's back."""
    import shutil
    import tempfile

    import h5py
    from metador_core.container import MetadorContainer
    from metador_core.ih5.container import IH5Record

    tmp = tempfile.mkdtemp(prefix="c08p_")
    mc = None
    out, oracle, tags = [], [], set()
    try:
        if case.get("drv", "h5") == "h5":
            mc = MetadorContainer(os.path.join(tmp, "c.h5"), "w")
        else:
            mc = MetadorContainer(os.path.join(tmp, "rec"), "w", driver=IH5Record)
        raw = mc.__wrapped__
        for p, kind in case["nodes"]:
            if kind == "g":
                raw.require_group(p)
            else:
                raw[p] = 1
        for ro in case.get("rawops", []):
            if ro[0] == "delete":
                del raw[ro[1]]
            elif ro[0] == "copy":
                raw.copy(ro[1], ro[2])
            elif ro[0] == "move":
                raw.move(ro[1], ro[2])
            tags.add("rawop:" + ro[0])
        for q in case["queries"]:
            g = mc if q[1] == "/" else mc[q[1]]
            if q[0] == "keys":
                names = {"keys": list(g.keys()), "iter": list(iter(g)), "values": [v.name.split("/")[-1] for v in g.values()],
                         "items": [k for k, _ in g.items()]}
                if REVERSED_PROBE:
                    try:
                        names["reversed"] = list(reversed(g))
                    except Exception:
                        pass
                for via, l in names.items():
                    if any(has_reserved(x) for x in l if isinstance(x, str)):
                        oracle.append(dict(kind=("reversed-exposes-reserved" if via == "reversed" else "listing-exposes-reserved"), via=via, group=q[1], names=sorted(x for x in l if has_reserved(x))[:5]))
                        tags.add("exposed")
                if not (sorted(names["keys"]) == sorted(names["iter"]) == sorted(names["values"]) == sorted(names["items"])):
                    oracle.append(dict(kind="listing-inconsistent", group=q[1]))
                out.append(" ".join(["keys"] + [hx(k) for k in sorted(names["keys"])]))
                out.append("len %d" % len(g))
                if len(list(raw[q[1]].keys())) != len(names["keys"]):
                    tags.add("filtered-some")
            elif q[0] == "visit":
                v1, v2 = [], []
                g.visit(v1.append)
                g.visititems(lambda n, o: v2.append((n, o.name)))
                for n in v1 + [x for x, _ in v2] + [y for _, y in v2]:
                    if has_reserved(n):
                        oracle.append(dict(kind="listing-exposes-reserved", via="visit", group=q[1], names=[n]))
                if sorted(v1) != sorted(x for x, _ in v2):
                    oracle.append(dict(kind="listing-inconsistent", group=q[1]))
                out.append(" ".join(["visit"] + [hx(k) for k in sorted(v1)]))
                rawv = []
                raw[q[1]].visit(rawv.append)
                if len(rawv) != len(v1):
                    tags.add("visit-filtered-some")
            elif q[0] == "in":
                try:
                    r = q[2] in g
                    out.append("T" if r else "F")
                    if has_reserved(q[2]):
                        oracle.append(dict(kind="reserved-accepted", op=q))
                except Exception:
                    out.append("rej")
        return dict(out=out, oracle=oracle[:6], tags=sorted(tags))
    finally:
        if mc is not None:
            try:
                mc.close()
            except Exception:
                pass
        shutil.rmtree(tmp, ignore_errors=True)


# ----------------------------------------------------------------------------- attribute sweep
# Methods whose path arguments are enumerated position by position by `probe_ops` (the sweep
# does not repeat the reserved-argument probe for them; what they hand out is examined all the same).
KNOWN_PROTOCOL = {"__getitem__", "get", "__contains__", "__setitem__", "__delitem__", "create_group", "require_group", "create_dataset",
                  "require_dataset", "move", "copy"}
# zero-argument hooks of collections.abc (Iterable / Reversible / Sized) - what iter(), reversed(), len() use
COLLECTION_HOOKS = ["__iter__", "__reversed__", "__len__"]
# ends the session, nothing to observe afterwards: obtained but not called
NOT_CALLED = {"close", "__exit__", "__del__"}
MAX_YIELD = 400


def _node_name(v):
    """absolute name of v if v looks like an HDF5 node (raw or wrapped), else None"""
    try:
        n = getattr(v, "name", None)
        if isinstance(n, str) and n.startswith("/") and hasattr(v, "attrs"):
            return n
    except Exception:
        pass
    return None


def _handed_out(v, names_are_nodes, acc, depth=0):
    """Collect what a value hands out: names of node objects and - for groups, whose protocol is
    a mapping of member names - strings. Containers, views, iterators and generators are walked."""
    import collections.abc as cabc
    if depth > 3 or len(acc) > MAX_YIELD:
        return
    if isinstance(v, str):
        if names_are_nodes:
            acc.append(v)
        return
    nn = _node_name(v)
    if nn is not None:
        acc.append(nn)
        return
    if isinstance(v, (bytes, bytearray, int, float, bool, type(None))):
        return
    if isinstance(v, dict):
        v = list(v.items())
    if isinstance(v, (list, tuple, set, frozenset, cabc.MappingView, cabc.Iterator)):
        try:
            for n, x in enumerate(v):
                if n > MAX_YIELD:
                    break
                _handed_out(x, names_are_nodes, acc, depth + 1)
        except Exception:
            pass


def _max_positional(f):
    """how many positional arguments f can take (a large number when unknown / *args)"""
    import inspect
    try:
        sig = inspect.signature(f)
    except (TypeError, ValueError):
        return 99
    n = 0
    for prm in sig.parameters.values():
        if prm.kind == prm.VAR_POSITIONAL:
            return 99
        if prm.kind in (prm.POSITIONAL_ONLY, prm.POSITIONAL_OR_KEYWORD):
            n += 1
    return n


def _sweep_names(node):
    raw = node.__wrapped__
    names = set()
    for src in (raw, type(raw), node, type(node)):  # raw protocol + whatever the wrapper adds
        try:
            names |= set(dir(src))
        except Exception:
            pass
    pub = sorted(n for n in names if not n.startswith("_"))
    return pub + [h for h in COLLECTION_HOOKS if h in names]


def _nouuid(names):
    import re
    return sorted(set(re.sub(r"[0-9a-f]{8}-[0-9a-f-]{27}", "<uuid>", x) for x in names))


def _nouuid_deep(x):
    import re
    if isinstance(x, str):
        return re.sub(r"[0-9a-f]{8}-[0-9a-f-]{27}", "<uuid>", x)
    if isinstance(x, list):
        return [_nouuid_deep(y) for y in x]
    return x


def _reserved_in_raw(rawdump):
    return sorted(k for k in rawdump if k != "/" and has_reserved(k))


def impl_attrs(case):
    """After the history `case["ops"]`: on every user node (groups first), request every public
    attribute of the raw object through the wrapper and examine what is handed out."""
    import shutil
    import tempfile
    tmp = tempfile.mkdtemp(prefix="c08a_")
    run = None
    tags = set()
    cwd = os.getcwd()
    try:
        os.chdir(tmp)
        run = _Run(dict(case, kind="hist", no_ref=True), tmp)
        for i, op in enumerate(case["ops"]):
            run.step(i, op)
        oracle = list(run.oracle)
        nstep = len(case["ops"])
        only = case.get("only")  # [[node, attr]…] restriction used by the shrinker

        def hit(kind, **kw):
            d = dict(kind=kind, step=nstep, op=["attr-sweep"])
            d.update(kw)
            oracle.append(d)

        def alive():
            try:
                list(run.mc.keys())
                return True
            except Exception:
                return False

        user = dump(run.mc)
        groups = ["/"] + sorted("/" + k for k, d in user.items() if k != "/" and d[0] == "g")
        dsets = sorted("/" + k for k, d in user.items() if d[0] == "d")
        # prefer nodes that carry metadata / have children with metadata (listing has something to filter)
        rawd = dump(run.raw)
        resv = _reserved_in_raw(rawd)

        def weight(g):
            pre = g.rstrip("/") + "/"
            return -sum(1 for r in resv if ("/" + r).startswith(pre) and "/" not in ("/" + r)[len(pre):])
        groups = ["/"] + sorted((g for g in groups if g != "/"), key=lambda g: (weight(g), g))
        targets = groups[: case.get("max_groups", 5)] + dsets[: case.get("max_dsets", 2)]
        rec_calls = 0
        for tpath in targets:
            if not alive():
                tags.add("container-gone")
                break
            node = run.mc if tpath == "/" else run.mc[tpath]
            is_grp = not _is_ds(node)
            served = refused = 0
            for attr in _sweep_names(node):
                if only is not None and [tpath, attr] not in only:
                    continue
                try:
                    val = getattr(node, attr)
                except Exception:
                    refused += 1
                    continue
                served += 1
                # (1) the value itself
                got = []
                _handed_out(val, False, got)
                bad = sorted(set(x for x in got if has_reserved(x)))
                if bad:
                    hit("attribute-exposes-reserved", via=attr, node=tpath, how="value", names=_nouuid(bad)[:5])
                if not callable(val) or attr in NOT_CALLED:
                    continue
                # (2) what the callable hands out: to a recording callback, as result, by iteration
                for how in ("callback", "noargs"):
                    seen = []

                    def rec(*a, **kw):
                        _handed_out(list(a) + list(kw.values()), is_grp, seen)
                        return None
                    try:
                        r = val(rec) if how == "callback" else val()
                        _handed_out(r, is_grp, seen)
                    except Exception:
                        pass
                    rec_calls += 1
                    bad = sorted(set(x for x in seen if has_reserved(x)))
                    if bad:
                        tags.add("exposed")
                        hit("attribute-exposes-reserved", via=attr, node=tpath, how=how, names=_nouuid(bad)[:5], count=len(bad))
                    if not alive():
                        break
                if not alive():
                    break
                # (3) group methods outside the enumerated protocol: reserved paths as leading arguments
                if not is_grp or attr in KNOWN_PROTOCOL or attr.startswith("__"):
                    continue
                pre = tpath.rstrip("/") + "/"
                inside = [("/" + r)[len(pre):] for r in resv if ("/" + r).startswith(pre)]
                shapes = (["/" + r for r in resv[:2]] + inside[:2] + ["metador_x", "zz/metador_x"])
                try:
                    some_ds = run.mc[dsets[0]] if dsets else 7
                except Exception:
                    some_ds = 7
                npos = _max_positional(val)
                if npos == 0:
                    continue  # takes no argument at all: nothing can be addressed through it
                before = dump(run.raw)
                for shp in shapes:
                    for args in ((shp,), (shp, 7), (shp, some_ds), ("zz_fill", shp)):
                        if len(args) > npos:
                            continue
                        seen = []
                        try:
                            r = val(*args)
                            _handed_out(r, False, seen)
                            res = "ok"
                        except Exception:
                            res = "err"
                        try:
                            after = dump(run.raw)
                        except Exception:
                            after = None
                        shown = [a if isinstance(a, (str, int)) else "<dataset>" for a in args]
                        bad = sorted(set(x for x in seen if has_reserved(x)))
                        if bad:
                            hit("reserved-accepted", method=attr, node=tpath, args=shown, returned=_nouuid(bad)[:5])
                        if after is not None:
                            ch = sorted(k for k in set(before) | set(after) if has_reserved(k) and before.get(k) != after.get(k))
                            if ch:
                                hit("reserved-effect", method=attr, node=tpath, args=shown, outcome=res, changed=_nouuid(ch)[:5])
                            before = after
                        tags.add("reserved-arg-probe")
            tags.add(("group" if is_grp else "dataset") + ":served=%d" % served)
            if refused:
                tags.add(("group" if is_grp else "dataset") + ":refused-some")
        if rec_calls:
            tags.add("callables-probed")
        return dict(out=[], oracle=oracle[:6], tags=sorted(tags))
    finally:
        os.chdir(cwd)
        if run is not None:
            run.close()
        shutil.rmtree(tmp, ignore_errors=True)


def impl_foreign(case):
    """Informational, outside C08: a file that already contains a named datatype (planted through
    the raw file here; not creatable through the container since F35). `_wrap_if_node` hands such
    a node out as the raw h5py object."""
    import shutil
    import tempfile

    import numpy as np
    from metador_core.container import MetadorContainer
    tmp = tempfile.mkdtemp(prefix="c08f_")
    mc = None
    try:
        mc = MetadorContainer(os.path.join(tmp, "c.h5"), "w")
        mc.__wrapped__["ft"] = np.dtype("int32")
        n = mc["ft"]
        lists = []
        try:
            lists = sorted(k for k in n.parent.keys() if has_reserved(k))
        except Exception:
            pass
        return dict(out=[], oracle=[], tags=[], note="type=%s wrapped=%s parent_lists_reserved=%s" % (type(n).__name__, _raw_of(n) is not n, lists))
    except Exception as e:
        return dict(out=[], oracle=[], tags=[], note="probe raised %s" % _exc(e))
    finally:
        if mc is not None:
            try:
                mc.close()
            except Exception:
                pass
        shutil.rmtree(tmp, ignore_errors=True)


def impl(case):
    k = case["kind"]
    if k == "hist":
        return impl_hist(case)
    if k == "paths":
        return impl_paths(case)
    if k == "plant":
        return impl_plant(case)
    if k == "attrs":
        return impl_attrs(case)
    raise RuntimeError("unknown case kind")


# ----------------------------------------------------------------------------- model lines
def lines(case):
    k = case["kind"]
    L = []
    if k == "paths":
        for op in case["ops"]:
            if op[0] in ("int", "mb", "td"):
                L.append("%s %s" % (op[0], hx(op[1])))
            elif op[0] == "intp":
                L.append("intp %s %s" % (hx(op[1]), hx(op[2])))
            elif op[0] == "tm":
                L.append("tm %s %d" % (hx(op[1]), 1 if op[2] else 0))
    elif k == "plant":
        for p, kind in case["nodes"]:
            L.append("node %s %s" % (hx(p), kind))
        for ro in case.get("rawops", []):
            L.append("rop %s %s" % (ro[0], " ".join(hx(x) for x in ro[1:])))
        for q in case["queries"]:
            if q[0] == "keys":
                L.append("keys " + hx(q[1]))
                L.append("len " + hx(q[1]))
            elif q[0] == "visit":
                L.append("visit " + hx(q[1]))
            elif q[0] == "in":
                L.append("in %s %s" % (hx(q[1]), hx(q[2])))
    elif k == "hist":
        for op in case["ops"]:
            pa = _Run.path_args(op)
            if op[0] in ("ls", "patch", "meta_set", "meta_del"):
                continue
            if not pa and op[0] not in ("copyng",):
                continue
            if not pa:
                continue
            meth = {"getitem": "__getitem__", "in": "__contains__", "set": "__setitem__", "del": "__delitem__", "cg": "create_group",
                    "rg": "require_group", "cd": "create_dataset", "cdv": "create_dataset", "rd": "require_dataset", "copyg": "copy", "copyn": "copy", "copyng": "copy"}.get(op[0], op[0])
            if op[0] == "setv":
                # __setitem__ with a value of the given kind: value check, then the path guard
                L.append("setv %s %s" % (op[3]["v"], ptok(pa[0])))
            elif any(isinstance(p, dict) for p in pa):
                L.append("callv %s %s" % (meth, " ".join(ptok(p) for p in pa)))
            else:
                L.append("call %s %s" % (meth, " ".join(hx(p) for p in pa)))
    return L


def ptok(p):
    """driver token of a (possibly typed) path argument: s<hex> str and subclasses of str,
    b<hex> bytes-like, o<hex> any other type"""
    return ("s" if is_strlike(p) else ("b" if ptype(p) in BYTES_LIKE else "o")) + hx(ptxt(p))


def compare(case, ir, mo):
    if case["kind"] == "plant":
        # the driver also prints one `ok` per planted node
        n = len(case["nodes"]) + len(case.get("rawops", []))
        return core.default_compare(case, dict(out=["ok"] * n + ir["out"]), mo)
    if case["kind"] == "attrs":
        return None  # oracle only
    if case["kind"] == "hist":
        a = ir["out"]
        if len(a) != len(mo):
            return "length %d vs %d" % (len(a), len(mo))
        for i, (x, y) in enumerate(zip(a, mo)):
            if y == "rej" and x == "ok":
                return "line %d: model rejects, implementation accepted" % i
            if y == "pass" and x == "err-internal":
                return "line %d: model passes the path guard, implementation refused the path as internal" % i
            if y not in ("rej", "pass"):
                return "line %d: unexpected model output %r" % (i, y)
        return None
    return core.default_compare(case, ir, mo)


# ----------------------------------------------------------------------------- generators
RESERVED_NAMES = ["metador_x", "metador_container", "metador_meta_", "metador_meta_bar", "metador_", "metador_meta_x"]
NEAR_MISS = ["xmetador_", "metador", "Metador_x", "metadorx_", "_metador_x", "xmetador_meta_bar", "meta_metador_", "METADOR_X", "metador-x", "metado_r"]
USER = ["a", "b", "foo", "bar", "d1", "g2"]

SETUP = [
    ["set", "/", "foo/bar", {"a": [1, 2, 3]}],
    ["set", "/", "foo/q", 5],
    ["cg", "/", "foo/sub"],
    ["set", "/", "top", {"a": [7, 8]}],
    ["cg", "/", "g2"],
    ["meta_set", "/foo/bar", "core.bib"],
    ["meta_set", "/foo", "core.bib"],
    ["meta_set", "/", "core.bib"],
    ["meta_set", "/top", "core.bib"],
]

RESERVED_SHAPES = [
    "metador_x", "metador_container", "metador_meta_", "metador_", "/metador_container", "/metador_container/version",
    "/metador_container/links", "foo/metador_meta_bar", "/foo/metador_meta_bar", "foo/metador_meta_", "/metador_meta_top",
    "/metador_meta_", "new/metador_x", "metador_x/sub", "a/metador_meta_x/b", "/a/b/metador_", "foo/sub/metador_x",
    "/foo/sub/metador_meta_", "metador_meta_top", "g2/metador_x/y/z",
]
RESERVED_SHAPES_REL_FOO = ["metador_meta_bar", "metador_meta_", "sub/metador_x", "metador_x", "/foo/metador_meta_bar", "/metador_container", "metador_meta_bar/x"]
MALFORMED_RESERVED = ["./metador_x", "foo//metador_x", "metador_x/", "//metador_container", "foo/./metador_meta_bar", "/foo/../metador_container"]
NEAR_SHAPES = ["xmetador_", "metador", "Metador_x", "metadorx_", "_metador_x", "foo/xmetador_meta_bar", "meta_metador_", "g2/metador",
               "/g2/METADOR_X", "metador-x", "nm/_metador_/k", "foo/sub/metado_r"]


def probe_ops(g, p, fresh):
    """Every path-taking method of the protocol with `p` (a str or a typed path argument) in
    every path-typed position, invoked on group g. `fresh` yields unused user names for the
    other argument."""
    src_ds, src_g = ("foo/q", "g2") if g == "/" else ("q", "sub")
    dst_grp = "/g2" if g == "/" else "/foo/sub"
    abs_ds = "/foo/q"
    ops = [
        ["getitem", g, p], ["get", g, p], ["in", g, p], ["set", g, p, 7], ["del", g, p], ["cg", g, p], ["rg", g, p],
        ["cd", g, p, {"a": [1]}], ["rd", g, p, [2]],
        ["move", g, p, fresh()], ["move", g, src_ds, p], ["copy", g, p, fresh()], ["copy", g, src_ds, p], ["copy", g, src_g, p],
        ["copyg", g, p, dst_grp, None], ["copyn", g, abs_ds, p],
        ["copyg", g, src_ds, dst_grp, p], ["copyng", g, abs_ds, dst_grp, p], ["copyng", g, "/foo/sub", dst_grp, p],
    ]
    return ops


def _fresh_gen(prefix):
    c = [0]

    def f():
        c[0] += 1
        return "%s%d" % (prefix, c[0])
    return f


def proto_cases(ctx):
    """protocol x reserved shape x argument position (exhaustive over the lists above)."""
    cases = []
    for drv in ("h5", "ih5"):
        shapes = [("/", s) for s in RESERVED_SHAPES] + [("/foo", s) for s in RESERVED_SHAPES_REL_FOO]
        if drv == "h5":
            shapes += [("/", s) for s in MALFORMED_RESERVED]
        per = 6 if drv == "h5" else 3
        for i in range(0, len(shapes), per):
            fresh = _fresh_gen("fr")
            ops = list(SETUP)
            for g, s in shapes[i:i + per]:
                ops += probe_ops(g, s, fresh)
            cases.append(dict(kind="hist", drv=drv, ops=ops, group="proto"))
        # near misses: must work like on the plain tree
        for i in range(0, len(NEAR_SHAPES), 4):
            fresh = _fresh_gen("fn")
            ops = list(SETUP)
            for s in NEAR_SHAPES[i:i + 4]:
                for op in probe_ops("/", s, fresh):
                    ops.append(op)
            cases.append(dict(kind="hist", drv=drv, ops=ops, group="near"))
    return cases


# path shapes handed over as every type of PATH_TYPES (reserved: must be refused without effect;
# ordinary: refused without effect, or served exactly like on the plain tree)
TYPED_RESERVED = ["metador_container", "/metador_container", "foo/metador_meta_bar", "/foo/metador_meta_", "metador_x", "nw/metador_x",
                  "metador_container/links", "/metador_meta_top"]
TYPED_USER = ["foo/q", "foo", "nw1", "/top", "g2/nw2"]


def ptype_cases(ctx):
    """protocol x argument position x path type x (reserved | ordinary) shape"""
    cases = []
    for drv in ("h5", "ih5"):
        nres, nusr = (len(TYPED_RESERVED), len(TYPED_USER)) if not ctx.quick else ((5, 3) if drv == "h5" else (3, 2))
        for t in PATH_TYPES:
            shapes = TYPED_RESERVED[:nres] + TYPED_USER[:nusr]
            if ctx.quick:
                # rotate, so that the seeds of the quick tier cover all shapes for all types
                k = (ctx.seed + PATH_TYPES.index(t)) % len(TYPED_RESERVED)
                k2 = (ctx.seed + PATH_TYPES.index(t)) % len(TYPED_USER)
                shapes = (TYPED_RESERVED[k:] + TYPED_RESERVED[:k])[:nres] + (TYPED_USER[k2:] + TYPED_USER[:k2])[:nusr]
            per = 8 if drv == "h5" else 5
            for i in range(0, len(shapes), per):
                fresh = _fresh_gen("ft")
                ops = list(SETUP)
                for sh in shapes[i:i + per]:
                    ops += probe_ops("/", typed(sh, t), fresh)
                cases.append(dict(kind="hist", drv=drv, ops=ops, group="ptype"))
        # relative to a subgroup
        fresh = _fresh_gen("fs")
        ops = list(SETUP)
        for j, sh in enumerate(["metador_meta_bar", "sub/metador_x", "/metador_container", "q"]):
            for t in (PATH_TYPES if drv == "h5" else PATH_TYPES[:2]):
                if not ctx.quick or (j + PATH_TYPES.index(t) + ctx.seed) % (2 if drv == "h5" else 4) == 0:
                    ops += probe_ops("/foo", typed(sh, t), fresh)
        cases.append(dict(kind="hist", drv=drv, ops=ops, group="ptype"))
    return cases


# values for `group[name] = value` / `create_dataset(name, data=value)` that name or reference
# other nodes (`to` / `of` are the paths they name), and named datatypes
ALIAS_TARGETS_RESERVED = ["/metador_container", "/metador_container/links", "/foo/metador_meta_bar", "metador_meta_", "/foo/metador_meta_",
                          "metador_container", "foo/metador_meta_bar", "/metador_meta_top"]
ALIAS_TARGETS_USER = ["/foo", "/foo/bar", "foo/q", "/", "/nothing", "g2"]


def alias_values(target_sets=(ALIAS_TARGETS_RESERVED, ALIAS_TARGETS_USER)):
    vals = []
    for ts in target_sets:
        for to in ts:
            vals.append({"v": "soft", "to": to})
            vals.append({"v": "ext", "to": to})
    for of in ["/foo", "/foo/bar", "/top", "/g2", "/"]:
        vals += [{"v": "node", "of": of}, {"v": "ref", "of": of}, {"v": "refarr", "of": of}]
    vals += [{"v": "regref", "of": "/foo/bar"}, {"v": "regref", "of": "/top"}, {"v": "hard"}, {"v": "dtype", "t": "int32"}, {"v": "dtype", "t": "float64"},
             {"v": "dtypeobj"}]
    return vals


def through_ops(g, name):
    """ordinary user operations that go through the name `name` in group g"""
    pre = name
    return [["ls", g], ["getitem", g, pre], ["get", g, pre], ["in", g, pre], ["getitem", g, pre + "/links"], ["in", g, pre + "/version"],
            ["cg", g, pre + "/inj"], ["set", g, pre + "/injd", 3], ["del", g, pre + "/inj"], ["copy", g, pre, pre + "_cp"], ["move", g, pre, pre + "_mv"],
            ["del", g, pre + "_mv"], ["del", g, pre]]


def alias_cases(ctx):
    """fixed setup, then every kind of naming / referencing value stored under an ordinary name
    at the root and in a subgroup (through __setitem__ and create_dataset), followed by user
    operations through the new name"""
    cases = []
    vals = alias_values()
    for drv in ("h5", "ih5"):
        per = 4 if drv == "h5" else 10
        vv = vals
        if ctx.quick:
            # soft links to every target always (h5py driver); the other kinds rotate over the seeds
            m = 2 if drv == "h5" else 3
            vv = [v for j, v in enumerate(vals) if (drv == "h5" and v["v"] == "soft") or (j + ctx.seed) % m == 0]
        for i in range(0, len(vv), per):
            ops = list(SETUP)
            for j, v in enumerate(vv[i:i + per]):
                g = "/" if (i + j) % 3 else "/foo"
                nm = "al%d" % (i + j)
                ops.append(["setv", g, nm, v])
                ops += through_ops(g, nm) if drv == "h5" and (not ctx.quick or v["v"] in ("soft", "ext", "node", "dtype", "dtypeobj")) else [["ls", g], ["getitem", g, nm], ["del", g, nm]]
                if v["v"] in ("ref", "regref", "refarr", "node"):
                    ops.append(["cdv", g, nm + "c", v])
                    ops += [["ls", g], ["del", g, nm + "c"]]
            cases.append(dict(kind="hist", drv=drv, ops=ops, group="alias", walk=True))
    return cases


def maybe_typed(rng, p, prob=0.08):
    if rng.random() < prob:
        return typed(p, rng.choice(PATH_TYPES))
    return p


def rand_path(rng, exists, reserved_p=0.25, near_p=0.2):
    r = rng.random()
    segs = []
    depth = rng.choice([1, 1, 2, 2, 3])
    base = rng.choice(exists) if exists and rng.random() < 0.6 else None
    if base is not None:
        segs = [s for s in base.split("/") if s][: rng.randrange(0, 3)]
    while len(segs) < depth:
        segs.append(rng.choice(USER))
    if r < reserved_p:
        i = rng.randrange(len(segs))
        segs[i] = rng.choice(RESERVED_NAMES)
        if rng.random() < 0.3:
            segs.append(rng.choice(USER))
    elif r < reserved_p + near_p:
        segs[rng.randrange(len(segs))] = rng.choice(NEAR_MISS)
    p = "/".join(segs)
    if rng.random() < 0.3:
        p = "/" + p
    return p


def rand_hist(rng, drv, n):
    ops = []
    # a model of which user paths probably exist (only to bias the generator)
    groups, dsets = ["/"], []

    def allp():
        return [g for g in groups if g != "/"] + dsets
    for _ in range(n):
        r = rng.random()
        g = "/" if rng.random() < 0.7 or len(groups) < 2 else rng.choice(groups)
        rel = (lambda p: p)  # paths are taken relative to g as they are
        if r < 0.05:
            # a value that names / references other nodes, stored under an ordinary (sometimes
            # reserved) name; later operations may go through that name
            p = rand_path(rng, allp(), reserved_p=0.1)
            tgt = rng.choice(ALIAS_TARGETS_RESERVED + ALIAS_TARGETS_USER + allp()[:6])
            of = rng.choice((allp() or ["/"]) + ["/"])
            v = rng.choice([{"v": "soft", "to": tgt}, {"v": "soft", "to": tgt}, {"v": "ext", "to": tgt}, {"v": "node", "of": of}, {"v": "ref", "of": of},
                            {"v": "refarr", "of": of}, {"v": "regref", "of": of}, {"v": "hard"}, {"v": "dtype", "t": "int32"}, {"v": "dtypeobj"}])
            ops.append([rng.choice(["setv", "setv", "setv", "cdv"]) if v["v"] in ("ref", "refarr", "regref") else "setv", g, p, v])
            if not has_reserved(p) and g == "/":
                groups.append("/" + p.strip("/"))
                if v["v"] in ("soft", "ext") and has_reserved(tgt):
                    groups.append("/" + p.strip("/") + "/" + rng.choice(["links", "schemas", "version", "x"]))
        elif r < 0.16:
            p = rand_path(rng, allp())
            ops.append(["set", g, maybe_typed(rng, p), rng.choice([1, 42, {"a": [1, 2]}, {"a": [[1, 2], [3, 4]]}, {"a": []}] + ([{"b": "61ff62"}] if drv == "h5" else []))])
            if not has_reserved(p) and g == "/":
                dsets.append("/" + p.strip("/"))
        elif r < 0.26:
            p = rand_path(rng, allp())
            ops.append([rng.choice(["cg", "rg"]), g, maybe_typed(rng, p)])
            if not has_reserved(p) and g == "/":
                groups.append("/" + p.strip("/"))
        elif r < 0.32:
            p = rand_path(rng, allp())
            ops.append(rng.choice([["cd", g, maybe_typed(rng, p), {"a": [3, 4]}], ["rd", g, maybe_typed(rng, p), [2]]]))
            if not has_reserved(p) and g == "/":
                dsets.append("/" + p.strip("/"))
        elif r < 0.40 and allp():
            p = rng.choice(allp()) if rng.random() < 0.7 else rand_path(rng, allp())
            ops.append(["del", "/", maybe_typed(rng, p)])
        elif r < 0.50 and allp():
            s = rng.choice(allp()) if rng.random() < 0.75 else rand_path(rng, allp())
            d = rand_path(rng, allp())
            ops.append([rng.choice(["move", "copy"]), "/", maybe_typed(rng, s, 0.05), maybe_typed(rng, d, 0.05)])
            if not has_reserved(d) and not has_reserved(s):
                (dsets if s in dsets else groups).append("/" + d.strip("/"))
        elif r < 0.58 and allp() and len(groups) > 1:
            s = rng.choice(allp())
            dg = rng.choice(groups)
            nm = rng.choice([None, None, rng.choice(USER), rng.choice(RESERVED_NAMES), rng.choice(NEAR_MISS), "a/" + rng.choice(RESERVED_NAMES)])
            ops.append(rng.choice([["copyg", "/", s, dg, nm], ["copyng", "/", s, dg, nm], ["copyn", "/", s, rand_path(rng, allp())]]))
        elif r < 0.72 and allp():
            p = rng.choice(allp() + ["/"])
            ops.append(["meta_set", p, rng.choice(["core.bib", "core.bib", "core.dir"])])
        elif r < 0.77 and allp():
            ops.append(["meta_del", rng.choice(allp() + ["/"]), rng.choice(["core.bib", "core.dir"])])
        elif r < 0.90:
            p = rand_path(rng, allp(), reserved_p=0.4)
            ops.append([rng.choice(["getitem", "get", "in"]), g, maybe_typed(rng, p, 0.12)])
        elif r < 0.95:
            ops.append(["ls", rng.choice(groups)])
        elif drv == "ih5":
            ops.append(["patch"])
    # `g` and `ls` targets must exist when used: keep only ops whose receiver is "/" or created before
    return ops


def sanitize(ops):
    """Drop ops whose receiver group / node-object argument cannot exist at that point (cheap
    static approximation; ops that still fail are simply errors on both sides)."""
    return ops


def rand_string(rng):
    alpha = ["/", "/", "m", "e", "t", "a", "d", "o", "r", "_", "x", ".", "metador_", "metador_meta_", "metador", "/metador_", "_meta_"]
    return "".join(rng.choice(alpha) for _ in range(rng.randrange(0, 7)))


def paths_cases(ctx):
    rng = ctx.rng
    cases = []
    fixed = ["", "/", "//", "metador_", "/metador_", "metador", "a/metador_b", "a/xmetador_b", "metador_meta_", "/metador_meta_", "a/b", "/a/b",
             "a/", "/a/", "a//b", "metador_meta_a", "/a/metador_meta_b", "a/b/metador_meta_", "metador_meta_/x", "/x/metador_meta_y/z",
             "_metador_", "/_metador_x", "foo/bar/baz", "/metador_container/links", "mmetador_", "metador_metador_", "/a/metador_meta_"]
    ops = []
    for s in fixed:
        ops += [["int", s], ["mb", s], ["tm", s, 0], ["tm", s, 1], ["td", s], ["intp", s, "metador_meta_"], ["intp", s, "a"], ["intp", s, ""]]
    cases.append(dict(kind="paths", ops=ops))
    n = 20 if ctx.quick else 1000
    for _ in range(n):
        ops = []
        for _ in range(40):
            s = rand_string(rng) if rng.random() < 0.6 else rand_path(rng, [], 0.4, 0.3)
            f = rng.choice(["int", "int", "mb", "tm", "td", "intp"])
            if f == "tm":
                ops.append(["tm", s, rng.randrange(2)])
            elif f == "intp":
                ops.append(["intp", s, rng.choice(["metador_meta_", "m", "/", "", "metador_"])])
            else:
                ops.append([f, s])
        cases.append(dict(kind="paths", ops=ops))
    return cases


def plant_cases(ctx):
    rng = ctx.rng
    cases = []
    n = 24 if ctx.quick else 2000
    names = USER[:4] + RESERVED_NAMES[:4] + NEAR_MISS[:4]
    for i in range(n):
        drv = "h5" if i % 3 else "ih5"
        nodes = []
        groups = ["/"]
        for _ in range(rng.randrange(4, 12)):
            par = rng.choice(groups)
            nm = rng.choice(names)
            p = (par if par != "/" else "") + "/" + nm
            if any(p == q for q, _ in nodes) or p in ("/metador_container",):
                continue
            kind = rng.choice(["g", "g", "d"])
            nodes.append([p, kind])
            if kind == "g":
                groups.append(p)
        # raw operations on the planted tree (validates the flat model of delete / copy / move)
        rawops = []
        cur = {p: k for p, k in nodes}

        def below(p, q):
            return q == p or q.startswith(p + "/")
        for _ in range(rng.randrange(0, 3)):
            if not cur:
                break
            kind = rng.choice(["delete", "copy", "move"])
            src = rng.choice(sorted(cur))
            if kind == "delete":
                rawops.append(["delete", src])
                for q in [q for q in cur if below(src, q)]:
                    del cur[q]
            else:
                par = rng.choice(["/"] + sorted(q for q, k in cur.items() if k == "g" and not (kind == "move" and below(src, q))))
                dst = (par if par != "/" else "") + "/" + rng.choice(["cp1", "cp2", "metador_cp", "xmetador_cp"])
                if dst in cur:
                    continue
                rawops.append([kind, src, dst])
                sub = {q: k for q, k in cur.items() if below(src, q)}
                for q, k in sub.items():
                    cur[dst + q[len(src):]] = k
                if kind == "move":
                    for q in sub:
                        del cur[q]
        groups = ["/"] + sorted(q for q, k in cur.items() if k == "g")
        nodes_after = [[q, k] for q, k in sorted(cur.items())]
        user_groups = [g for g in groups if not has_reserved(g)]
        queries = []
        for g in user_groups:
            queries.append(["keys", g])
            queries.append(["visit", g])
        for _ in range(6):
            g = rng.choice(user_groups)
            if nodes_after and rng.random() < 0.7:
                p = rng.choice(nodes_after)[0]
                if g != "/" and p.startswith(g + "/") and rng.random() < 0.7:
                    p = p[len(g) + 1:]
                elif g == "/" and rng.random() < 0.5:
                    p = p[1:]
            else:
                p = rand_path(rng, [], 0.3, 0.3)
            ab = p if p.startswith("/") else (g if g != "/" else "") + "/" + p
            through_ds = any(k == "d" and (ab + "/").startswith(q + "/") and ab != q for q, k in nodes_after)
            if p and not through_ds and not case_malformed([p]):
                queries.append(["in", g, p])
        cases.append(dict(kind="plant", drv=drv, nodes=nodes, rawops=rawops, queries=queries))
    return cases


def hist_cases(ctx):
    rng = ctx.rng
    cases = []
    n = 60 if ctx.quick else 5000
    for i in range(n):
        drv = "h5" if i % 3 else "ih5"
        k = rng.randrange(8, 30 if drv == "h5" else 18)
        cases.append(dict(kind="hist", drv=drv, ops=rand_hist(rng, drv, k), group="rand"))
    return cases


def attrs_cases(ctx):
    """attribute sweep after the fixed setup (metadata at root / group / datasets) and after
    random histories, on both drivers"""
    rng = ctx.rng
    cases = [dict(kind="attrs", drv=drv, ops=list(SETUP), group="setup") for drv in ("h5", "ih5")]
    n = 6 if ctx.quick else 300
    for i in range(n):
        drv = "h5" if i % 3 else "ih5"
        k = rng.randrange(6, 24 if drv == "h5" else 14)
        # user operations only matter as a way to reach states: bias to metadata-carrying trees
        ops = [op for op in rand_hist(rng, drv, k) if op[0] not in ("getitem", "get", "in", "ls")]
        pre = list(SETUP[: rng.randrange(0, len(SETUP) + 1)]) if rng.random() < 0.5 else []
        cases.append(dict(kind="attrs", drv=drv, ops=pre + ops, group="rand"))
    return cases


def gen_cases(ctx):
    return proto_cases(ctx) + ptype_cases(ctx) + alias_cases(ctx) + paths_cases(ctx) + plant_cases(ctx) + hist_cases(ctx) + attrs_cases(ctx)


def run(ctx):
    ctx.rule = ("cases: (paths) the four path functions of container/utils.py on fixed + generated strings; (plant) raw trees with "
                "reserved-named nodes planted through mc.__wrapped__, every listing primitive through the wrapper; (hist) fixed setup with metadata at "
                "root/group/dataset followed by every path-taking protocol method x reserved shape x argument position (proto), the same with "
                "near-miss names (near), the same with the path handed over as bytes / numpy.bytes_ / numpy.str_ / str subclass / pathlib / tuple / bytearray for reserved "
                "and ordinary shapes (ptype), every kind of value that names or references other nodes (SoftLink, ExternalLink, HardLink, node object, object and "
                "region reference, array of references, numpy.dtype, h5py.Datatype) assigned under ordinary names with reserved and user targets and followed by "
                "user operations through the new name (alias), and random histories mixing data ops, metadata ops, reserved / near-miss / typed paths and such "
                "values (rand), on h5py.File and IH5Record; "
                "(attrs) after the fixed setup and after random histories, every public attribute of the raw driver object (dir() of the h5py/IH5 "
                "object and class + __iter__/__reversed__/__len__) requested through the wrapper on every user node: refused, or examined for the "
                "names/nodes it hands out (value, recording callback, result, iteration) and, for group methods outside the enumerated protocol, "
                "called with reserved paths in the leading positions. "
                "Non-trivial = tagged: reserved path in a given method, nested reserved segment, near-miss accepted, metadata op succeeded, "
                "listing that actually had something to filter.")
    ctx.trusted.append("harness/translate.py: Python ast -> Lean for is_internal_path/is_meta_base_path/to_meta_base_path/to_data_node_path and the "
                       "ast/inspect extraction of the wrapper method table (guard-before-raw analysis); bridge theorems re-checked on every run")
    ctx.assumptions += [
        "Python str.startswith/find/split/join and list [-1]/append/pop are modelled by the Py* functions of Model/Paths.lean (compared on every run via the `paths` cases)",
        "a wrapped method performs its guards in source order and a raising guard prevents everything after it (Python exception semantics)",
        "h5py reports node.name as the absolute '/'-joined path of the node (hypothesis of userView_hides: listed entries carry their absolute path)",
    ]
    ctx.exhaustive_spaces.append("protocol (17 call shapes incl. copy source/dest string/dest group+name=) x %d reserved shapes x both drivers on a fixed container with metadata at root, group and datasets" % (len(RESERVED_SHAPES) + len(RESERVED_SHAPES_REL_FOO)))
    ctx.exhaustive_spaces.append("every public attribute of the raw object behind every swept node (root, groups, datasets of the fixed setup; both drivers)")
    if not ctx.quick:
        ctx.exhaustive_spaces.append("protocol (call shapes with positional path arguments) x %d path types x %d reserved + %d ordinary shapes x both drivers; %d naming/referencing values x (root, subgroup) on both drivers" % (
            len(PATH_TYPES), len(TYPED_RESERVED), len(TYPED_USER), len(alias_values())))
    ctx.assumptions.append("h5py reports the path a node was reached by as its `name`, and `h5o.get_info(id).addr` identifies the HDF5 object behind a handle (used by the identity oracle of `check_walk`; IH5 has no links and no object identity besides the name)")
    cases = core.load_corpus(ID) + gen_cases(ctx)
    ctx.correspond("reserved-namespace", MOD, cases, lines, "drv_pth", compare=compare, timeout=120)
    for c in cases:
        ctx.dist["kind:" + c["kind"] + (":" + c.get("group", "") if c.get("group") else "") + (":" + c.get("drv", "") if c.get("drv") else "")] += 1
    # informational, non-binding: named datatype planted behind the wrapper's back
    from .. import pool
    r = pool.run_one(MOD, "impl_foreign", {}, timeout=60)
    if "ok" in r and r["ok"].get("note"):
        ctx.notes.append("informational (outside C08, not creatable through the container): foreign named datatype planted through the raw file: " + r["ok"]["note"])


def signature(case, detail):
    k = detail.get("kind") if isinstance(detail, dict) else str(detail)[:40]
    return "%s:%s" % (ID, k)


def shrink(ctx, case, detail):
    from .. import pool
    want = detail.get("kind") if isinstance(detail, dict) else None
    if case.get("kind") == "hist" and len(case.get("ops", [])) > 1:
        def fails(ops):
            r = pool.run_one(MOD, "impl", dict(case, ops=ops), timeout=120)
            return "ok" in r and any(d.get("kind") == want for d in r["ok"]["oracle"])
        ops0 = case["ops"]
        st = detail.get("step") if isinstance(detail, dict) else None
        if isinstance(st, int) and st + 1 < len(ops0) and fails(ops0[:st + 1]):
            ops0 = ops0[:st + 1]  # nothing after the failing step is needed
        ops = core.ddmin(ops0, fails, max_tests=40)
        r = pool.run_one(MOD, "impl", dict(case, ops=ops), timeout=120)
        ds = [d for d in r.get("ok", {}).get("oracle", []) if d.get("kind") == want]
        if ds:
            return dict(case, ops=ops), ds[0]
    if case.get("kind") == "attrs":
        # first the single (node, attribute) pair, then the history that leads to the state
        def run_a(c):
            r = pool.run_one(MOD, "impl", c, timeout=120)
            return [d for d in r.get("ok", {}).get("oracle", []) if d.get("kind") == want] if "ok" in r else []
        cur = case
        at = detail.get("via") or detail.get("method")
        if at and detail.get("node"):
            c2 = dict(case, only=[[detail["node"], at]])
            if run_a(c2):
                cur = c2
        if cur.get("ops") and run_a(dict(cur, ops=[])):
            cur = dict(cur, ops=[])  # already on the empty container
        elif len(cur.get("ops", [])) > 1:
            ops = core.ddmin(cur["ops"], lambda ops: bool(run_a(dict(cur, ops=ops))), max_tests=40)
            cur = dict(cur, ops=ops)
        ds = run_a(cur)
        if ds:
            return cur, ds[0]
        return case, detail
    if case.get("kind") == "plant" and len(case.get("nodes", [])) > 1:
        def fails2(nodes):
            r = pool.run_one(MOD, "impl", dict(case, nodes=nodes), timeout=120)
            return "ok" in r and any(d.get("kind") == want for d in r["ok"]["oracle"])
        nodes = core.ddmin(case["nodes"], fails2, max_tests=30)
        r = pool.run_one(MOD, "impl", dict(case, nodes=nodes), timeout=120)
        ds = [d for d in r.get("ok", {}).get("oracle", []) if d.get("kind") == want]
        if ds:
            return dict(case, nodes=nodes), ds[0]
    return case, detail


def search(ctx):
    """Failing-input search after a broken obligation / correspondence: the full protocol
    enumeration (every method named in the *current* method table, including methods the
    generators do not know) with reserved paths, then more seeds; oracle only."""
    from .. import pool
    # 1. methods of the current table that the fixed generators do not exercise
    extra = []
    try:
        table = tr.group_method_table()
        known = {"__getitem__", "get", "__contains__", "__setitem__", "__delitem__", "create_group", "require_group", "create_dataset",
                 "require_dataset", "move", "copy"}
        for m in table["methods"]:
            if m["name"] not in known and m["pathParams"]:
                extra.append(m)
    except Exception as e:  # noqa: BLE001
        ctx.search_log.append("method table not available: %r" % (e,))
    if extra:
        plain = lambda m: [p for p in m["params"] if not p.startswith("*")]  # noqa: E731
        case = dict(kind="generic", methods=[[m["name"], len(plain(m)), [plain(m).index(p) for p in m["pathParams"] if p in plain(m)]] for m in extra], shapes=RESERVED_SHAPES[:8])
        r = pool.run_one(MOD, "impl_generic", case, timeout=120)
        ctx.search_log.append("generic probe of %d unknown table methods" % len(extra))
        if "ok" in r and r["ok"]["oracle"]:
            return case, r["ok"]["oracle"][0]
    for s in range(1, 4):
        sub = core.Ctx(ID, "thorough" if s == 3 else "quick", ctx.seed + 7919 * s)
        cases = gen_cases(sub)
        res = pool.run(MOD, "impl", cases, timeout=120)
        ctx.search_log.append("seed %d: %d cases, oracle only" % (sub.seed, len(cases)))
        for c, r in zip(cases, res):
            if "ok" in r and r["ok"]["oracle"]:
                return shrink(ctx, c, r["ok"]["oracle"][0])
    return None


def impl_generic(case):
    """Call methods by name (taken from the current method table) with reserved paths in each
    path-typed position; everything else gets harmless arguments."""
    import shutil
    import tempfile
    tmp = tempfile.mkdtemp(prefix="c08g_")
    run = None
    oracle = []
    try:
        run = _Run(dict(kind="hist", drv="h5", ops=[]), tmp)
        for i, op in enumerate(SETUP):
            run.step(i, op)
        for name, nparams, ppos in case["methods"]:
            for shape in case["shapes"]:
                for pos in ppos:
                    args = ["fill%d" % j for j in range(nparams)]
                    args[pos] = shape
                    before = dump(run.raw)
                    try:
                        getattr(run.mc, name)(*args)
                        res = "ok"
                    except Exception:
                        res = "err"
                    after = dump(run.raw)
                    if res == "ok":
                        oracle.append(dict(kind="reserved-accepted", method=name, args=args))
                    elif before != after:
                        oracle.append(dict(kind="reserved-effect", method=name, args=args))
        return dict(out=None, oracle=oracle[:5], tags=[])
    finally:
        if run is not None:
            run.close()
        shutil.rmtree(tmp, ignore_errors=True)


def replay(ctx, rep):
    from .. import pool
    case = rep.get("case")
    if not case:
        print(core.canon(rep)[:3000])
        return 0
    fn = "impl_generic" if case.get("kind") == "generic" else "impl"
    r = pool.run_one(MOD, fn, case, timeout=240)
    print("implementation:", core.canon(r)[:3000])
    if case.get("kind") != "generic":
        try:
            print("model:", lean.run_driver("drv_pth", [lines(case)]))
        except lean.InfraError as e:
            print("model: not available (%s)" % e)
    return 1 if ("ok" in r and r["ok"]["oracle"]) else 0
