"""Shared helpers of the C04 / C11 checks (record chains, user blocks, crash states).

Real records are built with the public API in a temporary directory; the model side gets, for
every file, the first 1024 bytes (hex), the sha256 of everything after them computed with
hashlib, whether h5py can open the file, and the sha256 of the sidecar manifest (if any).
Because uuids are made by `uuid1()` inside the real code, the driver lines can only be written
after the real code ran: `impl` returns them next to its own outcome (`mlines`), and
`correspond2` below plays the role of `ctx.correspond`.
"""
import hashlib
import os
import shutil

from .. import core, lean, pool

UB = 1024


# ----------------------------------------------------------------------------- real code helpers
def classes():
    from metador_core.ih5.manifest import IH5MFRecord
    from metador_core.ih5.record import IH5Record

    return {"ih5": IH5Record, "mf": IH5MFRecord}


def rand_writes(rec, rng, n, tagbase=""):
    """A few random modifications through the public overlay API."""
    import numpy as np

    for i in range(n):
        r = rng.random()
        keys = list(rec.keys())
        if r < 0.45 or not keys:
            name = rng.choice(["a", "b", "c", "g/x", "g/y", "h/k/z"])
            val = rng.choice([rng.randrange(1000), "s%d" % rng.randrange(100), [rng.randrange(9) for _ in range(rng.randrange(1, 5))],
                              np.void(bytes(rng.randrange(256) for _ in range(rng.randrange(1, 12))))])
            try:
                if name in rec:
                    del rec[name]
                rec[name] = val
            except (ValueError, KeyError, TypeError):
                pass
        elif r < 0.6:
            try:
                del rec[rng.choice(keys)]
            except (ValueError, KeyError):
                pass
        elif r < 0.85:
            rec.attrs[rng.choice(["k1", "k2"])] = rng.randrange(100)
        else:
            try:
                rec.create_group(rng.choice(["g", "h", "e%d" % rng.randrange(3)]))
            except (ValueError, KeyError):
                pass


def dump(rec):
    """Canonical dump of what a record shows (paths, values, attributes)."""
    out = []

    def val(v):
        try:
            x = v[()]
        except Exception as e:  # noqa: BLE001
            return "!%s" % type(e).__name__
        try:
            import numpy as np

            if isinstance(x, np.ndarray):
                return "arr:%s:%s" % (x.dtype.kind, x.tolist())
            if isinstance(x, np.void):
                return "void:%s" % bytes(x).hex()
            if isinstance(x, bytes):
                return "bytes:%s" % x.hex()
            if isinstance(x, np.generic):
                return "%s:%r" % (x.dtype.kind, x.item())
        except Exception:  # noqa: BLE001
            pass
        return repr(x)

    def attrs(node):
        return sorted((k, repr(node.attrs[k])) for k in node.attrs.keys())

    out.append(["/", "G", attrs(rec)])

    def visit(name, node):
        if hasattr(node, "keys"):
            out.append([name, "G", attrs(node)])
        else:
            out.append([name, "D", val(node), attrs(node)])

    rec.visititems(visit)
    return core.canon(sorted(out, key=lambda x: x[0]))


def sha(b):
    return "sha256:" + hashlib.sha256(b).hexdigest()


def h5_openable(path):
    import h5py

    try:
        f = h5py.File(path, "r")
    except Exception:  # noqa: BLE001
        return False
    try:
        f.close()
    except Exception:  # noqa: BLE001
        pass
    return True


class ModelLines:
    """Collects driver lines; user blocks are defined once per distinct content."""

    def __init__(self):
        self.lines = []
        self.names = {}

    def ref(self, head, whole):
        key = (head, whole)
        if key not in self.names:
            nm = "b%d" % len(self.names)
            self.names[key] = nm
            self.lines.append("def %s %s %s" % (nm, head.hex() or "-", "T" if whole else "F"))
        return "@" + self.names[key]

    def file(self, path, mf_path=None, data=None, h5ok=None):
        """Describe the file at `path` (or the given bytes) for the model."""
        if data is None:
            with open(path, "rb") as f:
                data = f.read()
        head = data[:UB]
        whole = len(data) <= UB
        ref = self.ref(head, whole)
        dg = sha(data[UB:])
        if h5ok is None:
            h5ok = h5_openable(path)
        mf = "none"
        if mf_path is not None and os.path.isfile(mf_path):
            with open(mf_path, "rb") as f:
                mf = sha(f.read())
        self.lines.append("file %s %s %s %s" % (ref, dg, "T" if h5ok else "F", mf))

    def cfg(self, mf_aware, allow_baseless=False):
        self.lines.append("cfg %s %s" % ("T" if mf_aware else "F", "T" if allow_baseless else "F"))

    def open(self):
        self.lines.append("open")


ERR_KINDS = [
    ("Cannot open empty list", "empty"),
    ("doesn't look like a valid IH5", "load"),
    ("base container must not have", "baseprev"),
    ("'record_uuid' inconsistent", "recorduuid"),
    ("hdf5_checksum is missing", "hashmissing"),
    ("file has been modified", "hashmismatch"),
    ("greater index than predecessor", "index"),
    ("must have an attribute 'prev_patch'", "prevmissing"),
    ("but predecessor is", "prevmismatch"),
    ("patch_uuid is not unique", "duppid"),
    ("does not exist, cannot open", "mfmissing"),
    ("Manifest has been modified", "mfmismatch"),
]


def err_kind(e):
    s = str(e)
    for pat, k in ERR_KINDS:
        if pat in s:
            return k
    if isinstance(e, AssertionError):
        return "assert"
    if isinstance(e, OSError):
        return "h5open"
    return "load:" + type(e).__name__


def open_real(cls, files, **kw):
    """Open a file list read-only with the real code. Returns (record|None, 'ok'|'err', kind)."""
    try:
        r = cls([p for p in files], "r", **kw)
    except Exception as e:  # noqa: BLE001  (every exception is "opening failed")
        return None, "err", err_kind(e)
    return r, "ok", ""


def order_line(rec, files):
    names = [os.path.realpath(str(p)) for p in files]
    idx = [names.index(os.path.realpath(str(p))) for p in rec.ih5_files]
    return " ".join(["ok"] + [str(i) for i in idx])


# ----------------------------------------------------------------------------- correspondence
def correspond2(ctx, group, module, cases, driver="drv_chn", impl="impl", timeout=120.0, compare=None, workers=None):
    """Like ctx.correspond, but the driver lines come out of the real-code run (`mlines`).
    impl returns {"out": [...], "mlines": [...], "sel": [indices of the model output lines that are
    compared with out], "oracle": [...], "tags": [...], "diag": {counter}}."""
    import collections

    st = ctx.groups.setdefault(group, collections.Counter())
    res = pool.run(module, impl, cases, timeout=timeout, workers=workers)
    ok_cases, ok_res, mlines = [], [], []
    for c, r in zip(cases, res):
        st["cases"] += 1
        if r is None:
            raise lean.InfraError("no result from worker")
        if "timeout" in r:
            st["timeouts"] += 1
            ctx.oracle_hit(c, {"kind": "does-not-terminate", "limit_s": timeout}, group=group)
            ctx.note_case(c, ["timeout"], 1)
            continue
        if "crash" in r:
            raise lean.InfraError("harness crashed on case %s: %s\n%s" % (core.canon(c)[:300], r["crash"], r.get("tb", "")))
        ok_cases.append(c)
        ok_res.append(r["ok"])
        mlines.append(r["ok"].get("mlines", []))
    mout = lean.run_driver(driver, mlines)
    ret = []
    for c, ir, ml, mo in zip(ok_cases, ok_res, mlines, mout):
        st["steps"] += len(ir.get("out") or [])
        for d in ir.get("oracle", []) or []:
            ctx.oracle_hit(c, d, group=group)
        for k, v in (ir.get("diag") or {}).items():
            ctx.dist["diag:" + k] += v
        if "bad-op" in mo:
            raise lean.InfraError("model driver %s answered bad-op for %r" % (driver, ml[mo.index("bad-op")][:200]))
        sel = ir.get("sel")
        mo_sel = [mo[i] for i in sel] if sel is not None else mo
        diff = compare(c, ir, mo) if compare else core.default_compare(c, ir, mo_sel)
        if diff is not None:
            st["disagreements"] += 1
            ctx.disagreements.append(dict(group=group, case=c, where=diff, impl=(ir.get("out") or [])[:50], model=mo_sel[:50]))
        ctx.note_case(c, list(ir.get("tags", []) or []), len(ir.get("out") or []))
        ret.append((c, ir, mo_sel))
    return ret


def rmtree(d):
    shutil.rmtree(d, ignore_errors=True)
