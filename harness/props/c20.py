"""C20 — see ctr_common.py (shared generator, real-code runner, oracles, model lines)."""
from . import ctr_common as C

ID = "C20"
MOD = "harness.props.c20"
T = "MetadorModel.C20."
B = "MetadorModel.Bridge.TocFns."  # translated tie (harness/translate_c06.py)
LEAN = dict(
    modules=["MetadorModel.Props.C20", "MetadorModel.Bridge.TocFnsPaths", "MetadorModel.Bridge.TocFnsPkg", "MetadorModel.Bridge.TocFnsSchemas"],
    theorems=[T + n for n in (
        "self_describing",
        "only_used_embedded",
        "reports_of_cache",
        "self_describing_live",
        "self_describing_after_reload",
        "self_describing_reopen",
        "reload_reports_only_used",
        "self_describing_reachable",
    )] + [B + n for n in (
        "gen_jsonschema_path_for",
        "gen_schema_path_for",
        "gen_pkginfo_path_for",
        "gen_pkg_register",
        "gen_pkg_unregister",
        "gen_pkg_init",
        "gen_upc_add",
        "gen_upc_remove",
        "gen_schema_register",
        "gen_schema_unregister",
        "gen_schemas_init",
        "gen_versions",
        "gen_children",
        "gen_parent_path",
    )],
    drivers=["drv_ctr"],
)


translate = C.translate


def impl(case):
    return C.impl_for(ID, case)


env_info = C.env_info
lines = C.lines


def run(ctx):
    C.run_prop(ctx, ID, MOD, rule_extra=(
        "C20 oracle after every step, on the live container and on a container object built afresh on the same data: for every stored "
        "object - embedded JSON Schema present, listed and equal to the schema of the object's class; parent chain and provider equal "
        "to the plugin system's; provider record lists the schema; the stored bytes validate (draft-07) against the embedded schema - "
        "for instances whose fields come from the boundary pools (see above); a container with stored objects that cannot be built "
        "afresh reports nothing (`freshly-opened-container-cannot-be-built`)."))


def signature(case, detail):
    return C.signature(ID, case, detail)


def shrink(ctx, case, detail):
    return C.shrink(ctx, ID, MOD, case, detail)


def search(ctx):
    return C.search(ctx, ID, MOD)


def replay(ctx, rep):
    return C.replay(ctx, ID, MOD, rep)
