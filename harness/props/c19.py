"""C19 — Directory hashsums identify directory content.

Lean: Model/Bytes.lean (chunked hashing), Model/Hashsums.lean (`dir_hashsums` loop),
Proofs/Bytes.lean, Proofs/Hashsums*.lean, Props/C19.lean; driver `drv_hsh`.

Real side: directory trees are created on a real temporary file system (twice per tree: two
creation orders, different timestamps, once addressed through a symlink to the directory),
`dir_hashsums` is run on them. A case is one generated tree plus *every kind* of single edit
of the property's list applied to it (content byte, rename, add/remove, file<->dir, symlink
retarget incl. between files of equal content, file<->symlink-to-that-file, respelled link
texts, symlinks leading outside: to the parent, above it, and to entries NEXT TO the hashed
directory whose names extend / are prefixes of / differ in case from the directory's name).
Third observation per tree: one long-lived directory is edited IN PLACE from tree to tree of the
case (changed files are overwritten through the same inode; timestamps natural, restored to
the previous ones, or all fixed to one instant) and hashed again after every step in the same
process; the same for single files through `file_hashsum`.

Oracle (needs no model): (a) result == reference nested dict computed from the tree
description with hashlib; (b) for every pair of trees of a case: equal results <=> equal trees
under the property's notion (names, file bytes, resolved in-directory symlink targets,
subdirectories); (c) same result for both creations of a tree and for the directory edited in
place into that tree; (d) a symlink leading outside is rejected with ValueError; (e) hashsum/qualified_hashsum/file_hashsum == hashlib for every
accepted algorithm, from bytes, from streams and from streams that return short reads: "streams" cases
run hashsum/qualified_hashsum on binary streams that hand out fewer bytes than asked for before their
end — a plain object with `read`, io.RawIOBase subclasses (over memory and over an unbuffered file), a
BufferedReader over such a raw stream, the unbuffered read end of an os.pipe and of a socket pair that a
thread fills piece by piece — with per-read transfer limits 1, 7, 63, 64, 65, 128, 1000, block size - 1,
REQUEST SIZE - 1 (constant, "some full reads then a short one", random) and total sizes below, at and above
the limit / the block size / the request size. The request size is OBSERVED on the code under test (what
its read loop asks a recording stream for), not assumed.

Correspondence: rendered nested dict / error class vs. the Lean model `dirHashsums` run on the
same tree (entries + digests as a table; enumeration order given and reversed); chunk lengths
of the read loop and `qualified_hashsum` vs. `chunks` / `qualifiedHashsum`; result of `qualified_hashsum`
on a short-read stream vs. `qualifiedHashsumS` (Model/ByteStreams.lean) under the same delivery schedule.
"""
import copy
import hashlib
import io
import posixpath

from .. import core, lean

ID = "C19"
MOD = "harness.props.c19"
T = "MetadorModel.C19."
LEAN = dict(
    modules=["MetadorModel.Props.C19", "MetadorModel.Bridge.HashsumsFns"],
    theorems=[T + n for n in [
        "order_independent", "hashsums_injective", "file_entry_format", "entries_exact",
        "chunking_independent", "hashsum_is_standard_digest", "outside_symlink_rejected", "rejected_of_bad_entry",
        "short_reads_independent",
        "unsupported_alg_rejected", "legacy_symlink_to_file_confused", "legacy_outside_file_symlink_accepted"]]
    # generated-from-source definitions (Gen/HashsumsFns.lean) = the model the theorems above are about
    + ["MetadorModel.Bridge.HashsumsFns." + n for n in [
        "gen_rel_symlink", "gen_rel_symlink_not_link", "gen_seg_loop", "gen_loop_body", "gen_dir_hashsums",
        "gen_default_alg", "gen_dir_hashsums_default", "gen_errors"]],
    drivers=["drv_hsh"],
)


def translate(ctx):
    """Regenerate Gen/HashsumsFns.lean (rel_symlink, dir_hashsums) from the source of envshim.REPO."""
    from .. import translate_c19
    ctx.trusted.append("harness/translate_c19.py (Python ast -> Lean) for rel_symlink / dir_hashsums and its value dictionary "
                       "lean/MetadorModel/Model/HashsumsPy.lean (pathlib/os calls and dict aliasing as model values); "
                       "bridge theorems Bridge/HashsumsFns.lean re-checked on every run")
    changed = translate_c19.write()
    return "Gen/HashsumsFns.lean %s" % ("rewritten" if changed else "unchanged")


VROOT = ["T", "R"]          # virtual absolute path of the scratch root of one tree
VBASE = VROOT + ["base"]    # ... of the hashed directory
ALGS = {"sha256": 64, "sha512": 128}


# ----------------------------------------------------------------------------- tree descriptions
# world: dict "path relative to the scratch root" -> ["f", hex] | ["d"] | ["l", link text]
# the hashed directory is "base"; "out" is a sibling area outside of it.

def hx(s):
    b = s.encode("utf-8", "surrogateescape") if isinstance(s, str) else bytes(s)
    return b.hex() if b else "-"


def hpath(parts):
    return "/".join(hx(p) for p in parts) if parts else "."


def resolve(world, cur, comps, depth=0):
    """realpath (non-strict) inside the described world. cur/comps: component lists, cur is
    virtual-absolute and free of symlinks. Returns component list or None (symlink loop)."""
    cur = list(cur)
    for c in comps:
        if c in ("", "."):
            continue
        if c == "..":
            if cur:
                cur.pop()
            continue
        nxt = cur + [c]
        node = None
        if nxt[:2] == VROOT and len(nxt) > 2:
            node = world.get("/".join(nxt[2:]))
        if node is not None and node[0] == "l":
            if depth > 40:
                return None
            text = node[1]
            if text.startswith("$R"):
                start, rest = list(VROOT), text[2:]
            else:
                start, rest = cur, text
            r = resolve(world, start, rest.split("/"), depth + 1)
            if r is None:
                return None
            cur = r
        else:
            cur = nxt
    return cur


def resolve_link(world, path):
    parts = path.split("/")
    return resolve(world, VROOT, parts)


def stat_target(world, path):
    """node that `stat(path)` (following symlinks, as the kernel does: every intermediate
    component must be an existing directory) ends at, or None."""
    def walk(cur, comps, depth):
        for i, c in enumerate(comps):
            if c in ("", "."):
                continue
            here = node_at(world, cur) if cur != VROOT else ["d"]
            if cur[:2] != VROOT or here is None or here[0] != "d":
                return None  # outside of the described world / not a directory
            if c == "..":
                if len(cur) <= 2:
                    return None
                cur = cur[:-1]
                continue
            nxt = cur + [c]
            node = node_at(world, nxt)
            if node is None:
                return None
            if node[0] == "l":
                if depth > 40:
                    return None
                text = node[1]
                start, rest = (list(VROOT), text[2:]) if text.startswith("$R") else (cur, text)
                cur = walk(start, rest.split("/"), depth + 1)
                if cur is None:
                    return None
            else:
                cur = nxt
        return cur
    r = walk(list(VROOT), path.split("/"), 0)
    if r is None:
        return None
    return node_at(world, r) if r != VROOT else ["d"]


def node_at(world, vparts):
    if vparts[:2] == VROOT and len(vparts) > 2:
        return world.get("/".join(vparts[2:]))
    return None


def view(world):
    """The tree under base as the property sees it."""
    v = {}
    for p, n in world.items():
        if not p.startswith("base/"):
            continue
        rel = p[5:]
        if n[0] == "f":
            v[rel] = ["f", n[1]]
        elif n[0] == "d":
            v[rel] = ["d"]
        else:
            r = resolve_link(world, p)
            if r is None:
                v[rel] = ["loop"]
            elif r[:3] == VBASE:
                v[rel] = ["l", "/".join(r[3:]) or "."]
            else:
                v[rel] = ["out"]
    return v


def has_outside(world):
    return any(x[0] == "out" for x in view(world).values())


def has_loop(world):
    return any(x[0] == "loop" for x in view(world).values())


def reference(world, alg):
    """Expected dir_hashsums result, from the description and hashlib only."""
    ret = {}
    for rel, x in sorted(view(world).items()):
        segs = rel.split("/")
        cur = ret
        for s in segs[:-1]:
            cur = cur.setdefault(s, {})
        if x[0] == "f":
            cur[segs[-1]] = "%s:%s" % (alg, hashlib.new(alg, bytes.fromhex(x[1])).hexdigest())
        elif x[0] == "l":
            cur[segs[-1]] = "symlink:" + x[1]
        elif x[0] == "d":
            cur.setdefault(segs[-1], {})
    return ret


def render(res):
    if isinstance(res, str):
        return "s" + hx(res)
    if isinstance(res, dict):
        items = sorted(res.items(), key=lambda kv: kv[0].encode("utf-8", "surrogateescape"))
        return "{" + ",".join("%s:%s" % (hx(k), render(v)) for k, v in items) + "}"
    return "?" + type(res).__name__


def first_diff(a, b, path=""):
    if isinstance(a, dict) and isinstance(b, dict):
        for k in sorted(set(a) | set(b)):
            if k not in a or k not in b:
                return dict(path=path + k, got=a.get(k, "<missing>") if not isinstance(a.get(k), dict) else "<dict>",
                            want=b.get(k, "<missing>") if not isinstance(b.get(k), dict) else "<dict>")
            d = first_diff(a[k], b[k], path + k + "/")
            if d:
                return d
        return None
    if a != b:
        return dict(path=path.rstrip("/"), got=a if not isinstance(a, dict) else "<dict>", want=b if not isinstance(b, dict) else "<dict>")
    return None


# ----------------------------------------------------------------------------- real code
def _mk(world, root, order_rng, mtimes):
    import os
    paths = [p for p in world]
    order_rng.shuffle(paths)
    for p in paths:
        n = world[p]
        full = os.path.join(root, p)
        os.makedirs(os.path.dirname(full), exist_ok=True)
        if n[0] == "d":
            os.makedirs(full, exist_ok=True)
        elif n[0] == "f":
            with open(full, "wb") as f:
                f.write(bytes.fromhex(n[1]))
        else:
            os.symlink(n[1].replace("$R", root), full)
    if mtimes:
        for p in sorted(paths, key=len, reverse=True):
            t = 1.0e9 + order_rng.randrange(0, 10**8)
            os.utime(os.path.join(root, p), (t, t), follow_symlinks=False)


EPOCH_NS = 10**18  # one fixed timestamp for everything written ("epoch" mode: tar -x / rsync -t / SOURCE_DATE_EPOCH)


def _morph(root, wa, wb, mode):
    """Turn the directory `root` (holding world wa) into world wb IN PLACE: unchanged entries are
    left alone, files whose content changes are overwritten through the same inode, everything
    else is removed / created. mode: "natural" (timestamps as the OS sets them), "restore"
    (an overwritten file gets its previous atime/mtime back, as rsync -t / cp -p / touch -r do),
    "epoch" (every written file and link gets the same fixed timestamp)."""
    import os
    import shutil
    gone = set()
    for p in sorted(wa, key=lambda q: (q.count("/"), q), reverse=True):
        a, b = wa[p], wb.get(p)
        if a == b or (b is not None and a[0] == b[0] and a[0] in ("f", "d")):
            continue
        full = os.path.join(root, p)
        if a[0] == "d":
            shutil.rmtree(full)
        else:
            os.unlink(full)
        gone.add(p)
    for p in sorted(wb, key=lambda q: (q.count("/"), q)):
        b, a = wb[p], wa.get(p)
        full = os.path.join(root, p)
        if a is not None and p not in gone:
            if a != b and b[0] == "f":
                st = os.stat(full)
                with open(full, "r+b") as f:
                    f.write(bytes.fromhex(b[1]))
                    f.truncate()
                if mode == "restore":
                    os.utime(full, ns=(st.st_atime_ns, st.st_mtime_ns))
                elif mode == "epoch":
                    os.utime(full, ns=(EPOCH_NS, EPOCH_NS))
            continue
        if b[0] == "d":
            os.makedirs(full, exist_ok=True)
            continue
        if b[0] == "f":
            with open(full, "wb") as f:
                f.write(bytes.fromhex(b[1]))
        else:
            os.symlink(b[1].replace("$R", root), full)
        if mode == "epoch":
            os.utime(full, ns=(EPOCH_NS, EPOCH_NS), follow_symlinks=False)


def _selfcheck(world, root):
    """The harness' own symlink resolution must agree with the operating system."""
    import os
    rreal = os.path.realpath(root)
    parent = os.path.dirname(rreal)
    for p, n in world.items():
        if n[0] != "l" or not p.startswith("base/"):
            continue
        real = os.path.realpath(os.path.join(root, p))
        if real == rreal or real.startswith(rreal + "/"):
            v = VROOT + [x for x in real[len(rreal):].split("/") if x]
        elif real.startswith(parent + "/"):
            v = VROOT[:1] + [x for x in real[len(parent):].split("/") if x]
        else:
            v = ["?"] + real.split("/")
        mine = resolve_link(world, p)
        assert mine == v, "harness resolver disagrees with realpath: %r: %r vs %r" % (p, mine, v)
        tn = stat_target(world, p)
        assert os.path.isfile(os.path.join(root, p)) == bool(tn and tn[0] == "f"), "is_file self-check %r" % p
        assert os.path.isdir(os.path.join(root, p)) == bool(tn and tn[0] == "d"), "is_dir self-check %r" % p


class _Rec:
    """binary stream that records the sizes asked for / lengths returned"""

    def __init__(self, data, short=None):
        self.data, self.pos, self.log, self.short, self.asked = data, 0, [], short, []

    def read(self, n=-1):
        self.asked.append(n)
        if n is None or n < 0:
            n = len(self.data) - self.pos
        if self.short is not None and n > 1:
            n = 1 + self.short.randrange(n)
        c = self.data[self.pos:self.pos + n]
        self.pos += len(c)
        self.log.append(len(c))
        return c


# ----------------------------------------------------------------------------- streams with short reads
# A stream = the bytes it holds + a delivery schedule `caps` (cyclic list of positive numbers): the i-th
# read(n) hands out at most caps[i % len(caps)] bytes. BIG = "as many as asked for".
BIG = 1 << 30
STREAM_CLASSES = ["duck", "raw", "rawfile", "buffered", "pipe", "socket"]
MAX_PIECES = 2000      # pipe / socket: pieces written by the feeding thread per stream
MAX_READS = 400000     # in-memory streams: reads per stream (limits are raised to stay below)


class _Sched:
    """plain object with `read` (a wrapper with a small transfer size)"""

    def __init__(self, data, caps):
        self.data, self.pos, self.caps, self.i, self.log = data, 0, caps, 0, []

    def _take(self, n):
        k = self.caps[self.i % len(self.caps)]
        self.i += 1
        if n is None or n < 0:
            n = len(self.data) - self.pos
        c = self.data[self.pos:self.pos + min(n, k)]
        self.pos += len(c)
        self.log.append(len(c))
        return c

    def read(self, n=-1):
        return self._take(n)


class _RawSched(io.RawIOBase):
    """raw binary stream (io.RawIOBase: read/readall/readinto … derived from readinto) over bytes or over
    an unbuffered file, transferring at most caps[i] bytes at its i-th readinto"""

    def __init__(self, data, caps, fileobj=None):
        super().__init__()
        self._s = _Sched(data, caps)
        self._f = fileobj

    def readable(self):
        return True

    def readinto(self, b):
        if self._f is None:
            c = self._s._take(len(b))
        else:
            k = self._s.caps[self._s.i % len(self._s.caps)]
            self._s.i += 1
            c = self._f.read(min(len(b), k))
            self._s.log.append(len(c))
        b[:len(c)] = c
        return len(c)

    def close(self):
        if self._f is not None:
            self._f.close()
        super().close()


def _feeder(write, rfd, data, caps, stop, closer):
    """writes `data` piece by piece; the next piece only after the reader has taken the previous one
    completely (FIONREAD == 0), so that every read of the other end returns at most one piece"""
    import fcntl
    import struct
    import termios
    import time
    try:
        pos = i = 0
        while pos < len(data) and not stop.is_set():
            k = min(caps[i % len(caps)], 65536)
            i += 1
            write(data[pos:pos + k])
            pos += k
            n = 0
            while not stop.is_set():
                if struct.unpack("i", fcntl.ioctl(rfd, termios.FIONREAD, b"\0\0\0\0"))[0] == 0:
                    break
                n += 1
                time.sleep(0 if n < 200 else 0.0005)
    except OSError:
        pass  # reader gave up early
    finally:
        closer()


def _open_stream(cls, data, caps, tmpdir, idx):
    """-> (stream to hand to the code under test, finish())"""
    import os
    import threading
    if cls == "duck":
        return _Sched(data, caps), (lambda: None)
    if cls == "raw":
        s = _RawSched(data, caps)
        return s, s.close
    if cls == "rawfile":
        fp = os.path.join(tmpdir, "s%d" % idx)
        with open(fp, "wb") as f:
            f.write(data)
        s = _RawSched(data, caps, open(fp, "rb", buffering=0))
        return s, s.close
    if cls == "buffered":
        s = io.BufferedReader(_RawSched(data, caps), buffer_size=max(1, min(min(caps), 8192)))
        return s, s.close
    stop = threading.Event()
    if cls == "pipe":
        r, w = os.pipe()
        stream = os.fdopen(r, "rb", buffering=0)
        args = (lambda b: os.write(w, b), r, data, caps, stop, lambda: os.close(w))
        extra = None
    else:
        import socket
        a, b = socket.socketpair()
        stream = a.makefile("rb", buffering=0)

        def closer():
            try:
                b.shutdown(socket.SHUT_WR)
            except OSError:
                pass
            b.close()
        args = (b.sendall, a.fileno(), data, caps, stop, closer)
        extra = a
    t = threading.Thread(target=_feeder, args=args, daemon=True)
    t.start()

    def finish():
        stop.set()
        t.join(5)
        stream.close()
        if extra is not None:
            extra.close()
    return stream, finish


def _resolve(spec, req):
    a, b = spec
    if a and not req:
        return None
    return a * (req or 0) + b


def _item_data(seed, idx, size):
    import random
    return random.Random(seed * 4099 + idx).randbytes(size)


def stream_items(case, req):
    """[(idx, cls, caps, size, adaptive)] with the [a, b] = a * request size + b specs resolved"""
    out = []
    for idx, (cls, capspecs, sizespec) in enumerate(case["items"]):
        caps = [_resolve(c, req) for c in capspecs]
        size = _resolve(sizespec, req)
        if size is None or size < 0 or size > (1 << 26) or any(c is None or c < 1 for c in caps) or not caps:
            continue
        adaptive = bool(sizespec[0] or any(c[0] for c in capspecs))
        out.append((idx, cls, caps, size, adaptive))
    return out


def _impl_streams(case):
    import os
    import shutil
    import tempfile

    from metador_core.util import hashsums as hs

    alg = case["alg"]
    out, oracle, tags = [], [], set()
    # what does the read loop ask for? (observed, not assumed)
    probe = _Rec(bytes(1000))
    try:
        hs.hashsum(probe, alg)
    except Exception:  # noqa: BLE001
        pass
    asked = [n for n in probe.asked if isinstance(n, int) and n > 0]
    req = max(asked) if asked else None
    tags.add("request-size-observed" if req else "request-size-unknown")
    ref = req or ALGS[alg]
    top = tempfile.mkdtemp(prefix="vtc19-")
    try:
        for idx, cls, caps, size, adaptive in stream_items(case, req):
            data = _item_data(case.get("seed", 0), idx, size)
            lim = MAX_PIECES if cls in ("pipe", "socket") else MAX_READS
            if size // min(caps) > lim:
                lo = -(-size // lim)
                caps = [max(c, lo) for c in caps]
            want = alg + ":" + hashlib.new(alg, data).hexdigest()
            try:
                stream, finish = _open_stream(cls, data, caps, top, idx)
            except OSError as e:   # no pipes / sockets in this sandbox: not the code under test
                tags.add("stream-class-unavailable:" + cls)
                if not adaptive:
                    out.append("ok " + hx(want))
                continue
            try:
                try:
                    res = ("ok", hs.qualified_hashsum(stream, alg))
                except Exception as e:  # noqa: BLE001
                    res = ("err", type(e).__name__)
            finally:
                finish()
            if not adaptive:
                out.append("ok " + hx(res[1]) if res[0] == "ok" else "err " + res[1])
            if res != ("ok", want):
                d = dict(kind="digest-differs-from-hashlib", via="stream/" + cls, alg=alg, size=size, max_bytes_per_read=caps[:8],
                         request_size=req, got=res[1], want=want, item=[cls, [[0, c] for c in caps], [0, size]])
                pos = 0
                for i in range(min(size, 4096)):
                    pos += min(caps[i % len(caps)], ref)
                    if pos >= size:
                        break
                    if res[1] == alg + ":" + hashlib.new(alg, data[:pos]).hexdigest():
                        d["equals"] = "digest of the first %d of %d bytes (what the first %d reads deliver)" % (pos, size, i + 1)
                        break
                oracle.append(d)
            tags.add("stream:" + cls)
            k = min(caps)
            if k < ref and size > k:
                tags.add("short-read-before-end")
                tags.add("short-read:%s" % ("1-byte" if k == 1 else "request-1" if k == ref - 1 else "other"))
                tags.add("stream-size-%s-request" % ("below" if size < ref else "at" if size == ref else "above"))
                if len(set(caps)) > 1:
                    tags.add("short-read:mixed-with-full-reads" if max(caps) >= ref else "short-read:varying")
            if adaptive:
                tags.add("sizes-relative-to-observed-request-size")
    finally:
        shutil.rmtree(top, ignore_errors=True)
    return dict(out=out, oracle=oracle, tags=sorted(tags))


def _scratch(case):
    """where the trees of a case are created: a memory-backed file system when there is one (directory
    removal on the disk-backed /tmp costs milliseconds per entry here), the default temp dir for every
    16th case so that both kinds of directory enumeration order stay covered"""
    import os
    d = "/dev/shm"
    if case.get("seed", 0) % 16 != 0 and os.path.isdir(d) and os.access(d, os.W_OK | os.X_OK):
        return d
    return None


def impl(case):
    import os
    import random
    import shutil
    import tempfile
    from pathlib import Path

    from metador_core.util import hashsums as hs

    out, oracle, tags = [], [], set()
    kind = case["kind"]
    if kind == "streams":
        return _impl_streams(case)
    if kind == "hash":
        alg = case["alg"]
        top = tempfile.mkdtemp(prefix="vtc19-", dir=_scratch(case))
        try:
            for i, h in enumerate(case["data"]):
                bs = bytes.fromhex(h)
                res = []
                fp = os.path.join(top, "f%d" % i)
                with open(fp, "wb") as f:
                    f.write(bs)
                rec = _Rec(bs)
                calls = [
                    ("bytes", lambda: alg + ":" + hs.hashsum(bs, alg)),
                    ("stream", lambda: alg + ":" + hs.hashsum(rec, alg)),
                    ("short-reads", lambda: alg + ":" + hs.hashsum(_Rec(bs, random.Random(i)), alg)),
                    ("qualified", lambda: hs.qualified_hashsum(bs, alg)),
                    ("file", lambda: hs.file_hashsum(Path(fp), alg)),
                ]
                for name, fn in calls:
                    try:
                        res.append((name, "ok", fn()))
                    except ValueError:
                        res.append((name, "err", "ValueError"))
                    except Exception as e:  # noqa: BLE001
                        res.append((name, "err", type(e).__name__))
                if alg in ALGS:
                    want = alg + ":" + hashlib.new(alg, bs).hexdigest()
                    for name, st, val in res:
                        if st != "ok" or val != want:
                            oracle.append(dict(kind="digest-differs-from-hashlib", via=name, alg=alg, size=len(bs), got=val, want=want))
                    # the same file again after its bytes were overwritten in place (same inode, same
                    # size; timestamps natural / restored / fixed): still the digest of the bytes it holds
                    cur = bs
                    for k, mode in enumerate(("natural", "restore", "epoch")):
                        if not bs:
                            break
                        pos = (i + 7 * k) % len(bs)
                        nb = cur[:pos] + bytes([cur[pos] ^ (1 << (k + i) % 8)]) + cur[pos + 1:]
                        if mode == "epoch":
                            os.utime(fp, ns=(EPOCH_NS, EPOCH_NS))
                        seq = []
                        try:
                            seq.append((cur, hs.file_hashsum(Path(fp), alg)))   # hashed in its current state ...
                            st0 = os.stat(fp)
                            with open(fp, "r+b") as f:                            # ... overwritten ...
                                f.write(nb)
                            if mode == "restore":
                                os.utime(fp, ns=(st0.st_atime_ns, st0.st_mtime_ns))
                            elif mode == "epoch":
                                os.utime(fp, ns=(EPOCH_NS, EPOCH_NS))
                            seq.append((nb, hs.file_hashsum(Path(fp), alg)))    # ... and hashed again
                        except Exception as e:  # noqa: BLE001
                            seq.append((nb, "err " + type(e).__name__))
                        for content, got in seq:
                            want2 = alg + ":" + hashlib.new(alg, content).hexdigest()
                            if got != want2:
                                oracle.append(dict(kind="digest-differs-from-hashlib", via="file-overwritten-in-place/" + mode, alg=alg, size=len(bs),
                                                   got=got, want=want2))
                        cur = nb
                        tags.add("file-overwritten-in-place")
                    out.append(" ".join(["c"] + [str(n) for n in rec.log if n]))
                    tags.add("size%%%d=%d" % (ALGS[alg], len(bs) % ALGS[alg]) if len(bs) % ALGS[alg] in (0, 1, ALGS[alg] - 1) else "size-other")
                    if len(bs) > ALGS[alg]:
                        tags.add("multi-chunk")
                else:
                    for name, st, val in res:
                        if (st, val) != ("err", "ValueError"):
                            oracle.append(dict(kind="unsupported-algorithm-not-rejected", via=name, alg=alg, got=val))
                    out.append("*")
                    tags.add("unsupported-alg")
                q = [r for r in res if r[0] == "qualified"][0]
                out.append("ok " + hx(q[2]) if q[1] == "ok" else "err " + q[2])
        finally:
            shutil.rmtree(top, ignore_errors=True)
        return dict(out=out, oracle=oracle, tags=sorted(tags))

    # kind == "trees"
    alg = case["alg"]
    worlds = case["worlds"]
    labels = case.get("labels") or ["?"] * len(worlds)
    rng = random.Random(case.get("seed", 0))
    top = tempfile.mkdtemp(prefix="vtc19-", dir=_scratch(case))
    results = []
    live = os.path.join(top, "live")
    live_mode = case.get("live", "restore")
    try:
        for i, w in enumerate(worlds):
            two = []
            for rep in range(2):
                root = os.path.join(top, "w%d%s" % (i, "ab"[rep]))
                os.mkdir(root)
                _mk(w, root, rng, mtimes=(rep == 1))
                if rep == 0:
                    _selfcheck(w, root)
                base = Path(root) / "base"
                if rep == 1 and case.get("via_link"):
                    os.symlink("base", os.path.join(root, "alias"))
                    base = Path(root) / "alias"
                    tags.add("base-via-symlink")
                try:
                    res = hs.dir_hashsums(base, alg)
                    two.append(("ok", res))
                except ValueError:
                    two.append(("err", "ValueError"))
                except Exception as e:  # noqa: BLE001
                    two.append(("err", type(e).__name__))
                shutil.rmtree(root, ignore_errors=True)
            # third observation: ONE long-lived directory that is edited in place from tree to tree
            # and hashed again after every step, in this same process
            if i == 0:
                os.mkdir(live)
                _mk(w, live, rng, mtimes=False)
                if live_mode == "epoch":
                    for p in w:
                        os.utime(os.path.join(live, p), ns=(EPOCH_NS, EPOCH_NS), follow_symlinks=False)
            else:
                _morph(live, worlds[i - 1], w, live_mode)
                tags.add("in-place:" + live_mode)
            try:
                inpl = ("ok", hs.dir_hashsums(Path(live) / "base", alg))
            except ValueError:
                inpl = ("err", "ValueError")
            except Exception as e:  # noqa: BLE001
                inpl = ("err", type(e).__name__)
            for st, res in two + [inpl]:
                out.append("ok " + render(res) if st == "ok" else "err " + res)
            results.append(two)
            vw = view(w)
            kinds = set(x[0] for x in vw.values())
            if "out" in kinds:
                tags.add("outside-symlink")
                for p, x in vw.items():
                    if x[0] == "out":
                        r = resolve_link(w, "base/" + p)
                        top1 = r[2] if r[:2] == VROOT and len(r) > 2 else None
                        if top1 is None:
                            tags.add("outside-symlink:above-the-parent" if r[:2] != VROOT else "outside-symlink:to-the-parent")
                        elif top1.startswith("base") or "base".startswith(top1):
                            tags.add("outside-symlink:sibling-name-prefix-related")
                        else:
                            tags.add("outside-symlink:unrelated-sibling")
                for st, res in two + [inpl]:
                    if (st, res) != ("err", "ValueError"):
                        oracle.append(dict(kind="outside-symlink-not-rejected", edit=labels[i], tree=i,
                                           got=render(res) if st == "ok" else res))
            elif "loop" in kinds:
                tags.add("symlink-loop")
            else:
                ref = reference(w, alg)
                for rep, (st, res) in enumerate(two):
                    if st != "ok":
                        oracle.append(dict(kind="valid-tree-rejected", edit=labels[i], tree=i, got=res))
                    elif res != ref:
                        oracle.append(dict(kind="entry-differs-from-reference", edit=labels[i], tree=i, creation=rep, **(first_diff(res, ref) or {})))
                if two[0][0] == "ok" and two[1][0] == "ok" and two[0][1] != two[1][1]:
                    oracle.append(dict(kind="depends-on-creation-order-or-timestamps", edit=labels[i], tree=i))
                if inpl != ("ok", ref):
                    d = dict(kind="hashsums-after-in-place-edit-differ-from-reference", edit=labels[i], trees=[max(i - 1, 0), i], timestamps=live_mode)
                    if inpl[0] == "ok":
                        d.update(first_diff(inpl[1], ref) or {})
                        if i > 0 and inpl[1] == reference(worlds[i - 1], alg) and not has_outside(worlds[i - 1]) and not has_loop(worlds[i - 1]):
                            d["stale"] = "equals the hashsums of the directory before the edit"
                    else:
                        d["got"] = inpl[1]
                    oracle.append(d)
            for p, x in vw.items():
                if x[0] == "l":
                    tn = node_at(w, VBASE + [s for s in x[1].split("/") if s != "."])
                    tags.add("symlink-to-" + ({"f": "file", "d": "dir"}.get(tn[0], "x") if tn else "nothing"))
                    src = w["base/" + p][1]
                    nx = world_first_hop(w, "base/" + p)
                    if nx is not None and nx[0] == "l":
                        tags.add("symlink-chain")
                    if ".." in src.split("/"):
                        tags.add("link-text-with-dotdot")
                elif x[0] == "d" and not any(q.startswith(p + "/") for q in vw):
                    tags.add("empty-dir")
                elif x[0] == "f":
                    n = len(x[1]) // 2
                    if n == 0:
                        tags.add("empty-file")
                    if n > ALGS.get(alg, 64):
                        tags.add("file>block")
            for n in vw:
                nm = n.split("/")[-1]
                if " " in nm:
                    tags.add("name-with-space")
                if nm.startswith("."):
                    tags.add("name-leading-dot")
                if any(ord(ch) > 127 for ch in nm):
                    tags.add("name-unicode")
        # the property itself, on every pair of trees of the case
        views = [view(w) for w in worlds]
        for i in range(len(worlds)):
            for j in range(i + 1, len(worlds)):
                a, b = results[i][0], results[j][0]
                if a[0] != "ok" or b[0] != "ok":
                    continue
                if any(x[0] in ("out", "loop") for v in (views[i], views[j]) for x in v.values()):
                    continue  # outside the domain of the equivalence (must be rejected / symlink loop): reported above
                same_tree = views[i] == views[j]
                same_hash = a[1] == b[1]
                if same_hash and not same_tree:
                    oracle.append(dict(kind="equal-hashsums-for-different-trees", edit=labels[j] if i == 0 else labels[i] + "|" + labels[j], trees=[i, j]))
                elif same_tree and not same_hash:
                    oracle.append(dict(kind="different-hashsums-for-equal-trees", edit=labels[j] if i == 0 else labels[i] + "|" + labels[j], trees=[i, j]))
        for l in labels:
            tags.add("edit:" + l.split(" ")[0])
    finally:
        shutil.rmtree(top, ignore_errors=True)
    return dict(out=out, oracle=oracle, tags=sorted(tags))


def world_first_hop(w, p):
    """node the link text of symlink p names (one hop, no resolution of the last component)"""
    text = w[p][1]
    if text.startswith("$R"):
        start, rest = list(VROOT), text[2:].split("/")
    else:
        start, rest = VROOT + p.split("/")[:-1], text.split("/")
    rest = [c for c in rest if c not in ("", ".")]
    if not rest:
        return None
    d = resolve(w, start, rest[:-1])
    if d is None or rest[-1] == "..":
        return None
    return node_at(w, d + [rest[-1]])


# ----------------------------------------------------------------------------- model lines
def tree_lines(w, alg):
    L = ["tree", "base " + hpath(VBASE), "alg %s %d" % (hx(alg), ALGS.get(alg, 64))]
    for p in sorted(w):
        if not p.startswith("base/"):
            continue
        n = w[p]
        rel = p.split("/")[1:]
        if n[0] == "f":
            bs = bytes.fromhex(n[1])
            dg = hashlib.new(alg, bs).hexdigest() if alg in ALGS else "0"
            L.append("file %s %s %s" % (hpath(rel), n[1] or "-", dg))
        elif n[0] == "d":
            L.append("dir " + hpath(rel))
        else:
            r = resolve_link(w, p)
            if r is None:
                r = ["?loop"]
            tn = stat_target(w, p)
            L.append("sym %s %s %s" % (hpath(rel), hpath(r), (tn[1] or "-") if tn and tn[0] == "f" else "~"))
    return L


def lines(case):
    L = []
    if case["kind"] == "hash":
        alg = case["alg"]
        L.append("alg %s %d" % (hx(alg), ALGS.get(alg, 64)))
        for h in case["data"]:
            bs = bytes.fromhex(h)
            L.append("chunks %d %s" % (ALGS.get(alg, 64), h or "-"))
            L.append("hashsum %s %s" % (h or "-", hashlib.new(alg, bs).hexdigest() if alg in ALGS else "0"))
        return L
    if case["kind"] == "streams":
        alg = case["alg"]
        L.append("alg %s %d" % (hx(alg), ALGS[alg]))
        for idx, cls, caps, size, adaptive in stream_items(case, None):   # items with absolute sizes only
            bs = _item_data(case.get("seed", 0), idx, size)
            L.append("shashsum %s %s %s" % (",".join(str(c) for c in caps), bs.hex() or "-", hashlib.new(alg, bs).hexdigest()))
        return L
    for w in case["worlds"]:
        L += tree_lines(w, case["alg"]) + ["build", "rbuild", "build"]   # two fresh creations, one directory edited in place
    return L


def compare(case, ir, mo):
    return core.default_compare(case, ir, [x for x in mo if x != "."])


# ----------------------------------------------------------------------------- generators
NAMES = ["a", "b", "f", "g", "sub", "x y", " sp", "é", "日本", ".hid", "..x", "a.b", "-n", "ü.txt", "l", "k", "d1",
         "a b.c d", "sym", "Z", "0", "~t", "sha256:aa", "symlink:f", "{}"]
SIZES = [0, 0, 1, 1, 2, 5, 63, 64, 65, 65, 127, 128, 129, 130, 191, 192, 193, 300]
# names of further entries NEXT TO the hashed directory "base" (all of them outside of it): names that
# extend / are extended by / differ in case from the directory's name, and unrelated ones
SIBLINGS = ["base_old", "base2", "base.bak", "base-v2", "base ", "basebase", "bas", "b", "Base", "ase", "xbase", "other", "base~"]
LIVE_MODES = ["restore", "restore", "epoch", "natural"]


def areas_of(w):
    """top-level directories of the scratch root other than the hashed one"""
    return sorted(p for p, n in w.items() if "/" not in p and p != "base" and n[0] == "d")


def rbytes(rng, n):
    r = rng.random()
    if r < 0.15:
        return bytes(n)
    if r < 0.25:
        return bytes([rng.choice([0, 0x7f, 0xff, 0x0a])] * n)
    return bytes(rng.randrange(256) for _ in range(n))


def children(w, d):
    pre = d + "/"
    return [p for p in w if p.startswith(pre) and "/" not in p[len(pre):]]


def dirs_of(w):
    return [p for p, n in w.items() if n[0] == "d" and (p == "base" or p.startswith("base/"))]


def fresh_name(rng, w, d):
    names = [n for n in NAMES if d + "/" + n not in w]
    return rng.choice(names) if names else None


def link_text(rng, src, dst, w=None):
    """some spelling of a relative link from the symlink at src to the path dst"""
    sd = posixpath.dirname(src)
    t = posixpath.relpath(dst, sd)
    r = rng.random()
    if r < 0.15:
        t = "./" + t
    elif r < 0.25 and w is not None:
        # detour through an existing real sub-directory next to the link: "X/../<t>"
        xs = [posixpath.basename(q) for q in children(w, sd) if w[q][0] == "d"]
        if xs:
            t = rng.choice(xs) + "/../" + t
    elif r < 0.30:
        t = "$R/" + dst
    elif r < 0.36:
        # leave the directory and come back in
        t = posixpath.relpath(rng.choice(areas_of(w)) if w and areas_of(w) else "out", sd) + "/../" + dst
    return t


def gen_world(rng, size, pool):
    w = {"base": ["d"], "out": ["d"], "out/of": ["f", rng.choice(pool)], "out/od": ["d"], "out/od/in": ["f", "6f"]}
    for sib in rng.sample(SIBLINGS, rng.choice([0, 1, 1, 2])):
        if rng.random() < 0.2:
            w[sib] = ["f", rng.choice(pool)]
        else:
            w[sib] = ["d"]
            w[sib + "/of"] = ["f", rng.choice(pool)]
            w[sib + "/od"] = ["d"]
    for _ in range(size):
        d = rng.choice(dirs_of(w))
        n = fresh_name(rng, w, d)
        if n is None:
            continue
        p = d + "/" + n
        r = rng.random()
        if r < 0.45:
            w[p] = ["f", rng.choice(pool)]
        elif r < 0.65:
            w[p] = ["d"]
        else:
            cands = [q for q in w if q.startswith("base/") and q != p]
            rr = rng.random()
            if cands and rr < 0.8:
                w[p] = ["l", link_text(rng, p, rng.choice(cands), w)]
            elif rr < 0.9:
                w[p] = ["l", rng.choice(["nope", "./nope/x", "f/below-a-file"])]
            else:
                w[p] = ["l", link_text(rng, p, "base")]
            if has_loop(w):
                w[p] = ["l", "nope"]
    return w


def rm(w, p):
    for q in [q for q in w if q == p or q.startswith(p + "/")]:
        del w[q]


def gen_edits(rng, w0, pool, per_kind):
    """[(label, world)] — every kind of single edit of the property's list, several instances each"""
    E = []

    def add(label, w):
        if not has_loop(w):
            E.append((label, w))

    under = [p for p in w0 if p.startswith("base/")]
    files = [p for p in under if w0[p][0] == "f"]
    links = [p for p in under if w0[p][0] == "l"]
    dirs = [p for p in under if w0[p][0] == "d"]

    def some(xs, k=per_kind):
        xs = list(xs)
        rng.shuffle(xs)
        return xs[:k]

    # neutral: same tree again
    add("same", copy.deepcopy(w0))
    # content byte
    for p in some(files):
        bs = bytearray.fromhex(w0[p][1])
        variants = []
        if bs:
            for pos in sorted(set([0, len(bs) - 1, len(bs) // 2] + [x for x in (63, 64, 65, 127, 128, 129) if x < len(bs)])):
                variants.append(("content-byte@%d" % pos, bytes(bs[:pos]) + bytes([bs[pos] ^ rng.choice([1, 0x80, 0xff])]) + bytes(bs[pos + 1:])))
            variants.append(("content-truncate", bytes(bs[:-1])))
            if bs[-1] == 0 or rng.random() < 0.3:
                variants.append(("content-strip-nuls", bytes(bs).rstrip(b"\0")))
        variants.append(("content-append", bytes(bs) + bytes([rng.choice([0, 0x0a, 0x41])])))
        for lab, nb in some(variants, 4):
            w = copy.deepcopy(w0)
            w[p] = ["f", nb.hex()]
            add(lab + " " + p, w)
    # rename
    for p in some(under):
        d = posixpath.dirname(p)
        n = fresh_name(rng, w0, d)
        if n is None:
            continue
        w = {}
        for q, x in w0.items():
            if q == p or q.startswith(p + "/"):
                w[d + "/" + n + q[len(p):]] = copy.deepcopy(x)
            else:
                w[q] = copy.deepcopy(x)
        add("rename " + p, w)
    # add entry
    for _ in range(per_kind + 1):
        d = rng.choice(dirs_of(w0))
        n = fresh_name(rng, w0, d)
        if n is None:
            continue
        p = d + "/" + n
        w = copy.deepcopy(w0)
        k = rng.choice(["file", "empty-file", "dir", "link", "dangling"])
        if k == "file":
            w[p] = ["f", rng.choice(pool)]
        elif k == "empty-file":
            w[p] = ["f", ""]
        elif k == "dir":
            w[p] = ["d"]
        elif k == "link" and under:
            w[p] = ["l", link_text(rng, p, rng.choice(under))]
        else:
            w[p] = ["l", "nope"]
        add("add-%s %s" % (k, p), w)
    # remove entry
    for p in some(under):
        w = copy.deepcopy(w0)
        rm(w, p)
        add("remove " + p, w)
    # file <-> dir
    for p in some(files, 2):
        w = copy.deepcopy(w0)
        w[p] = ["d"]
        add("file->dir " + p, w)
    for p in some(dirs, 2):
        w = copy.deepcopy(w0)
        rm(w, p)
        w[p] = ["f", rng.choice(["", rng.choice(pool)])]
        add("dir->file " + p, w)
    # symlink retarget (preferring a file with the same content as the old target)
    v0 = view(w0)
    for p in some(links, per_kind + 1):
        r = resolve_link(w0, p)
        tn = node_at(w0, r) if r else None
        cands = [q for q in under if q != p and not q.startswith(p + "/")]
        same = [q for q in files if tn and tn[0] == "f" and w0[q][1] == tn[1] and VROOT + q.split("/") != r]
        for lab, cs in (("retarget-equal-content", same), ("retarget", cands)):
            if cs:
                w = copy.deepcopy(w0)
                w[p] = ["l", link_text(rng, p, rng.choice(cs), w)]
                add("%s %s" % (lab, p), w)
        # respelling of the same target (neutral) and shortcut of a chain (neutral under resolution)
        if r and r[:3] == VBASE:
            w = copy.deepcopy(w0)
            w[p] = ["l", link_text(rng, p, "/".join(r[2:]), w)]
            add("respell " + p, w)
        w = copy.deepcopy(w0)
        w[p] = ["l", rng.choice(["nope", "gone/x"])]
        add("retarget-dangling " + p, w)
    # file <-> symlink to that file
    for p in some(links, 2):
        r = resolve_link(w0, p)
        tn = node_at(w0, r) if r else None
        if tn and tn[0] == "f":
            w = copy.deepcopy(w0)
            w[p] = ["f", tn[1]]
            add("symlink->copy-of-file " + p, w)
        elif tn and tn[0] == "d":
            w = copy.deepcopy(w0)
            w[p] = ["d"]
            add("symlink->empty-dir " + p, w)
    for p in some(files, 2):
        twins = [q for q in files if q != p and w0[q][1] == w0[p][1]]
        w = copy.deepcopy(w0)
        if twins:
            w[p] = ["l", link_text(rng, p, rng.choice(twins))]
            add("file->symlink-to-equal-file " + p, w)
        else:
            # make the twin and the link in one go: p2 is a copy in w0' ... keep it a single edit:
            d = posixpath.dirname(p)
            n = fresh_name(rng, w0, d)
            if n:
                w[d + "/" + n] = ["l", link_text(rng, d + "/" + n, p)]
                w2 = copy.deepcopy(w0)
                w2[d + "/" + n] = ["f", w0[p][1]]
                add("add-symlink-to-file " + p, w)
                add("add-copy-of-file " + p, w2)
    # symlinks leading outside
    tops = sorted(q for q in w0 if "/" not in q and q != "base")   # entries next to the hashed directory
    outside = ["."] + tops + [q for q in w0 if "/" in q and q.split("/")[0] in tops] + [t + "/nope" for t in areas_of(w0)]
    for _ in range(3):
        d = rng.choice(dirs_of(w0))
        n = fresh_name(rng, w0, d)
        if n is None:
            continue
        p = d + "/" + n
        w = copy.deepcopy(w0)
        tgt = rng.choice(outside)
        up = "/".join([".."] * (p.count("/")))
        t = rng.choice([up + "/" + tgt if tgt != "." else up, "$R/" + tgt if tgt != "." else "$R", up + "/../vt-no-such-entry"])
        w[p] = ["l", t]
        add("outside-link %s -> %s" % (p, tgt), w)
    if files:
        # an existing file replaced by a link to an outside file of the same content
        p = rng.choice(files)
        w = copy.deepcopy(w0)
        area = rng.choice(areas_of(w0))
        w[area + "/twin"] = ["f", w0[p][1]]
        w[p] = ["l", "/".join([".."] * p.count("/")) + "/" + area + "/twin"]
        add("file->outside-link " + p, w)
    return E


def gen_cases(ctx, scale=1.0):
    rng = ctx.rng
    cases = []
    nt = int((300 if ctx.quick else 3000) * scale)
    for i in range(nt):
        alg = "sha512" if rng.random() < 0.15 else "sha256"
        pool = [rbytes(rng, rng.choice(SIZES)).hex() for _ in range(rng.randrange(2, 5))]
        w0 = gen_world(rng, rng.randrange(1, 12), pool)
        E = gen_edits(rng, w0, pool, per_kind=2 if ctx.quick else 3)
        cases.append(dict(kind="trees", alg=alg, seed=rng.randrange(1 << 30), via_link=rng.random() < 0.2, live=rng.choice(LIVE_MODES),
                          worlds=[w0] + [w for _, w in E], labels=["base"] + [l for l, _ in E]))
    nh = int((30 if ctx.quick else 300) * scale)
    for i in range(nh):
        alg = rng.choice(["sha256", "sha256", "sha512"])
        b = ALGS[alg]
        sizes = [0, 1, b - 1, b, b + 1, 2 * b - 1, 2 * b, 2 * b + 1, 3 * b, rng.randrange(0, 700)]
        if i % 5 == 0:
            sizes += [4095, 4096, 4097]
        cases.append(dict(kind="hash", alg=alg, data=[rbytes(rng, n).hex() for n in sizes]))
    for alg in ["md5", "sha1", "SHA256", "", "sha-256", "symlink", "sha3_256"]:
        cases.append(dict(kind="hash", alg=alg, data=["", "00", "61" * 70]))
    cases += gen_stream_cases(rng, int((24 if ctx.quick else 200) * scale))
    return cases


CAPS = [1, 7, 63, 64, 65, 128, 1000]


def gen_stream_cases(rng, n_random):
    """streams that deliver short reads. Specs are [a, b] = a * (observed request size of the read loop) + b.
    First a covering family (every stream class x every transfer limit of CAPS, block size - 1 and request
    size - 1 x total sizes below / at / above the limit and the request size), then random mixtures."""
    cases = []
    for alg, b in sorted(ALGS.items()):
        for cls in STREAM_CLASSES:
            items = []
            for cap in [[0, k] for k in CAPS] + [[0, b - 1], [1, -1]]:
                k = cap[1] if not cap[0] else None
                sizes = [[0, 0], [0, 1], [0, 3000], [1, -1], [1, 0], [1, 1], [2, 1]]
                if k is not None:
                    sizes += [[0, k], [0, k + 1], [0, 2 * k + 1]]
                else:
                    sizes += [[1, -2], [2, -2], [3, -1]]
                for sz in sizes:
                    items.append([cls, [cap], sz])
            cases.append(dict(kind="streams", alg=alg, seed=rng.randrange(1 << 30), items=items))
    for _ in range(n_random):
        alg = rng.choice(["sha256", "sha256", "sha512"])
        b = ALGS[alg]
        items = []
        for _ in range(30):
            cls = rng.choice(STREAM_CLASSES)
            k = rng.choice(CAPS + [b - 1, b + 1, 2, 3, rng.randrange(1, 300)])
            cap = rng.choice([[0, k], [0, k], [1, -1], [1, -k]]) if k < b else [0, k]
            r = rng.random()
            if r < 0.4:
                caps = [cap]
            elif r < 0.6:
                caps = [[0, BIG]] * rng.randrange(1, 4) + [cap]                 # some full reads, then a short one
            elif r < 0.7:
                caps = [cap] + [[0, BIG]] * rng.randrange(1, 3)
            else:
                caps = [[0, rng.randrange(1, k + 1)] for _ in range(rng.randrange(2, 7))]   # varying
            sz = rng.choice([[0, rng.choice(SIZES)], [0, rng.choice([k, k + 1, 2 * k, 3 * k + 1])], [0, rng.randrange(0, 5000)],
                             [1, rng.choice([-1, 0, 1])], [2, rng.choice([-1, 0, 1])], [rng.randrange(1, 4), rng.randrange(0, 200)]])
            if cls in ("pipe", "socket") and not sz[0]:
                sz = [0, min(sz[1], 600 * min(c[1] if not c[0] else b for c in caps))]
            items.append([cls, caps, sz])
        cases.append(dict(kind="streams", alg=alg, seed=rng.randrange(1 << 30), items=items))
    return cases


def exhaustive_cases():
    """every single edit between all small trees over two names: all pairs of a closed family"""
    leaf = [["f", ""], ["f", "61"], ["f", "62"], ["d"], None]
    fam = []
    for x in leaf:
        for y in [["f", "61"], ["d"], ["l", "a"], ["l", "nope"], ["l", "."], None, ["l", ".."], ["l", "../out"], ["l", "../base2"], ["l", "../bas/x"]]:
            for z in ([["f", "61"], ["l", "../a"], None, ["l", "../../base2/a"]] if y == ["d"] else [None]):
                w = {"base": ["d"], "out": ["d"], "base2": ["d"], "base2/a": ["f", "61"], "bas": ["d"]}
                if x:
                    w["base/a"] = x
                if y:
                    w["base/b"] = y
                if z:
                    w["base/b/a"] = z
                if not has_loop(w):
                    fam.append(w)
    cases = []
    for i in range(0, len(fam), 12):
        for j in range(i, len(fam), 12):
            ws = fam[i:i + 12] + (fam[j:j + 12] if j != i else [])
            cases.append(dict(kind="trees", alg="sha256", seed=i * 1000 + j, worlds=ws, labels=["fam%d" % k for k in range(len(ws))]))
    return cases, len(fam)


def run(ctx):
    ctx.rule = ("cases: (trees) one generated directory tree (<= 12 entries below the hashed directory: files with sizes around the 64/128 byte "
                "block size, empty files, nested/empty directories, symlinks to files/dirs/nothing/other symlinks, odd names) plus several instances of "
                "every single edit of the property's list; each tree is created twice on a real file system (shuffled creation order, changed mtimes, "
                "optionally addressed through a symlink) and hashed by dir_hashsums; in addition one long-lived directory is edited in place from tree to tree "
                "(same inode overwrites; timestamps natural / restored / fixed) and hashed after every step in the same process; all pairs of trees of a case "
                "are compared. Outside symlinks lead to the parent, above it, and to sibling entries of the hashed directory incl. names that extend or are "
                "prefixes of its name. (hash) byte strings of "
                "boundary sizes through hashsum/qualified_hashsum/file_hashsum incl. streams with short reads and files overwritten in place between two "
                "calls, for sha256, sha512 and unsupported names. (streams) qualified_hashsum on binary streams that deliver fewer bytes than asked for "
                "before their end: object with read, io.RawIOBase subclasses over memory / an unbuffered file, BufferedReader over one, unbuffered read end "
                "of an os.pipe and of a socket pair filled piece by piece; per-read limits 1, 7, 63, 64, 65, 128, 1000, block size - 1, request size - 1 "
                "(constant, full reads followed by a short one, varying), total sizes below / at / above limit, block size and request size; the request "
                "size is observed on the code under test. "
                "Non-trivial = carries a tag: symlink kinds, chains, empty dir/file, file larger than a block, outside symlink (by kind of target), odd names, "
                "edit kinds, in-place timestamp mode, stream class, short read before the end (1 byte / request size - 1 / other; size below / at / above the request size).")
    ctx.assumptions += [
        "hashlib: update(a); update(b) == update(a+b) (hypothesis `Streaming` of chunking_independent / hashsum_is_standard_digest)",
        "no SHA collision among the file contents of the two directories compared (hypothesis `NoCollision` of hashsums_injective)",
        "Path.rglob('*') (Python >= 3.11) yields every entry below the directory once, does not descend into symlinked directories "
        "(hypothesis FsTree.WF; re-checked on every generated tree by comparing with the tree description)",
        "symlink targets are compared after resolution (`Path.resolve`), i.e. `l -> m -> f` and `l -> f` count as the same in-directory target",
        "special files (fifos, sockets, devices) and symlink loops are outside the property's domain (as directory ENTRIES; pipes and sockets as "
        "the stream argument of hashsum are covered)",
        "a binary stream delivers at least one byte per read while bytes are left and b'' only at its end (blocking streams; hypothesis "
        "`0 < cap i` of short_reads_independent); non-blocking streams whose read returns None are outside the domain",
    ]
    ctx.assumptions.append("trees are created below /dev/shm (tmpfs) when it is writable, every 16th case and all single-file cases below the default temp dir")
    ctx.trusted.append("harness-side pure resolver of symlinks (harness/props/c19.py resolve), self-checked against os.path.realpath on every tree")
    cases = core.load_corpus(ID) + gen_cases(ctx)
    if not ctx.quick:
        ex, n = exhaustive_cases()
        cases += ex
        ctx.exhaustive_spaces.append("all pairs of the %d trees over names a, b (a: empty file/file/other file/dir/absent; b: file/dir(+child file|symlink|symlink to a sibling of the directory)/symlink to a/dangling/self/absent/symlink to the parent or to siblings "
                                     "out, base2, bas of the hashed directory): equal hashsums <=> equal trees, outside symlinks rejected" % n)
    ctx.correspond("dir-hashsums-model", MOD, cases, lines, "drv_hsh", compare=compare, timeout=120)


def signature(case, detail):
    k = detail.get("kind") if isinstance(detail, dict) else str(detail)[:40]
    return "%s:%s" % (ID, k)


_shrunk = {}


def _oracle_kinds(case, timeout=120):
    from .. import pool
    r = pool.run_one(MOD, "impl", case, timeout=timeout)
    if "ok" not in r:
        return []
    return r["ok"]["oracle"]


INPLACE = "hashsums-after-in-place-edit-differ-from-reference"


def _shrink_hash(case, detail):
    """hash cases: the single byte string that still shows the same kind of violation"""
    want = detail.get("kind")
    for h in sorted(case.get("data", []), key=len):
        cand = dict(case, data=[h])
        ds = [d for d in _oracle_kinds(cand) if d.get("kind") == want and d.get("via") == detail.get("via")]
        if ds:
            return cand, ds[0]
    return case, detail


def _shrink_streams(case, detail):
    """streams cases: one stream (class, transfer limits, size — all absolute) that still shows the
    violation; simplest class, constant limit, smallest size tried"""
    want = detail.get("kind")

    def hits(item):
        cand = dict(case, items=[item])
        ds = [d for d in _oracle_kinds(cand) if d.get("kind") == want]
        return (cand, ds[0]) if ds else None

    item = detail.get("item")
    best = hits(item) if item else None
    if not best:
        return case, detail
    cls, caps, size = item
    simpler = ["duck", "raw"]
    for c2 in simpler[:simpler.index(cls)] if cls in simpler else simpler:
        r = hits([c2, caps, size])
        if r:
            best, cls = r, c2
            break
    for caps2 in ([[0, min(c[1] for c in caps)]], [[0, 1]]):
        if caps2 != caps:
            r = hits([cls, caps2, size])
            if r:
                best, caps = r, caps2
    k = min(c[1] for c in caps)
    for s2 in sorted(set([1, 2, 3, k, k + 1, 2 * k, 2 * k + 1, size[1] // 2, size[1] - 1])):
        if 0 <= s2 < size[1]:
            r = hits([cls, caps, [0, s2]])
            if r:
                best = r
                break
    return best


def shrink(ctx, case, detail):
    if case.get("kind") == "streams" and isinstance(detail, dict):
        key = ("streams", detail.get("kind"))
        if key not in _shrunk:
            _shrunk[key] = _shrink_streams(case, detail)
        return _shrunk[key]
    if case.get("kind") == "hash" and isinstance(detail, dict):
        key = ("hash", detail.get("kind"), detail.get("via"))
        if key not in _shrunk:
            _shrunk[key] = _shrink_hash(case, detail)
        return _shrunk[key]
    if case.get("kind") != "trees" or not isinstance(detail, dict):
        return case, detail
    want = detail.get("kind")
    if want in _shrunk:  # one minimised witness per kind of violation
        return _shrunk[want]
    _shrunk[want] = res = _shrink(ctx, case, detail, want)
    return res


def _shrink(ctx, case, detail, want):
    idx = detail.get("trees") or [0, detail.get("tree", 0)]
    idx = sorted(set(i for i in idx if i < len(case["worlds"])))

    def sub(ix):
        return dict(case, worlds=[case["worlds"][i] for i in ix], labels=[case["labels"][i] for i in ix], via_link=False)

    def hits(c):
        return [d for d in _oracle_kinds(c) if d.get("kind") == want]

    if want == INPLACE:
        # the history matters: the directory went through all trees up to the failing one. Smallest
        # sub-sequence of that history (order kept, failing tree last) that still fails.
        last = idx[-1]
        pre = core.ddmin(list(range(last)), lambda ix: bool(hits(sub(list(ix) + [last]))), max_tests=40)
        idx = list(pre) + [last]
        if not hits(sub(idx)):
            idx = list(range(last + 1))
    cur = sub(idx)
    ds = hits(cur)
    if not ds:
        return case, detail
    best = ds[0]
    tests = 0
    changed = True
    while changed and tests < 40:
        changed = False
        paths = sorted(set(p for w in cur["worlds"] for p in w if p.startswith("base/")), key=len, reverse=True)
        for p in paths:
            ws = copy.deepcopy(cur["worlds"])
            for w in ws:
                rm(w, p)
            cand = dict(cur, worlds=ws)
            tests += 1
            ds = [d for d in _oracle_kinds(cand) if d.get("kind") == want]
            if ds:
                cur, best, changed = cand, ds[0], True
                break
            if tests >= 40:
                break
    best = dict(best)
    best["edit"] = detail.get("edit", best.get("edit"))
    return cur, best


def search(ctx):
    from .. import pool
    for s in range(1, 4):
        sub = core.Ctx(ID, "quick", ctx.seed + 7919 * s)
        cases = gen_cases(sub, scale=0.7)
        res = pool.run(MOD, "impl", cases, timeout=120)
        ctx.search_log.append("seed %d: %d cases, oracle only" % (sub.seed, len(cases)))
        for c, r in zip(cases, res):
            if "ok" in r and r["ok"]["oracle"]:
                return shrink(ctx, c, r["ok"]["oracle"][0])
    return None


def replay(ctx, rep):
    from .. import pool
    case = rep.get("case")
    if not case:
        print(core.canon(rep)[:2000])
        return 0
    r = pool.run_one(MOD, "impl", case, timeout=120)
    print("implementation:", core.canon(r)[:3000])
    print("model:", [x for x in lean.run_driver("drv_hsh", [lines(case)])[0] if x != "."])
    return 1 if ("ok" in r and r["ok"]["oracle"]) else 0
