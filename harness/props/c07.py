"""C07 — see ctr_common.py (shared generator, real-code runner, oracles, model lines)."""
from . import ctr_common as C

ID = "C07"
MOD = "harness.props.c07"
T = "MetadorModel.C07."
B = "MetadorModel.Bridge.TocFns."  # translated tie (harness/translate_c06.py)
LEAN = dict(
    modules=["MetadorModel.Props.C07", "MetadorModel.Bridge.TocFnsPaths", "MetadorModel.Bridge.TocFnsSchemas", "MetadorModel.Bridge.TocFnsMeta", "MetadorModel.Bridge.TocFnsWrap"],
    theorems=[T + n for n in (
        "get_sound",
        "get_complete",
        "get_none",
        "get_stored",
        "get_stored_node",
        "parent_view",
        "get_after_set",
        "stored_until_deleted",
        "stored_survives_create",
        "stored_survives_delete",
        "stored_survives_reopen",
        "stored_survives_copy",
        "stored_survives_move",
        "stored_follows_move",
        "one_per_schema",
        "second_object_refused",
        "aux_or_unknown_refused",
        "unknown_refused",
        "aux_refused",
        "query_exact",
        "query_ok_iff",
    )] + [B + n for n in (
        "gen_versions",
        "gen_children",
        "gen_parent_path",
        "gen_require_schema",
        "gen_get_raw",
        "gen_set_raw",
        "gen_del_raw",
        "gen_setitem",
        "gen_delitem",
        "gen_query",
        "gen_contains",
        "gen_get",
        "gen_meta_init",
        "gen_toc_query",
    )],
    drivers=["drv_ctr"],
)


translate = C.translate


def impl(case):
    return C.impl_for(ID, case)


env_info = C.env_info
lines = C.lines


def run(ctx):
    C.run_prop(ctx, ID, MOD, rule_extra=(
        "C07 also: about 60 % of the metadata operations go through HELD NODE WRAPPERS (op `hmeta`, `ctr_common.add_wrappers` with "
        "p_dup: a wrapper attaches a schema that another wrapper of the node attached after the first one was obtained - refused, one "
        "object per schema whoever asks): several live wrappers of one node, obtained by different navigation routes (mc[path], get, "
        "segment by segment, parent of a child, values(), visititems, query results, the container object itself for the root), kept "
        "across later operations (incl. move / copy / delete) and used in turn, `.meta` taken afresh at each use. After EVERY "
        "sub-operation the node's metadata is read through EVERY live wrapper of the node, through a new lookup by path and through a "
        "kept `meta` handle that did the writing (`observe_meta`, oracle only): keys() / len = schema names of the objects in the raw "
        "metadata directory; `name in meta` and get(name) find an object iff a compatible one is stored now; the stored object of the "
        "requested schema comes back equal to the stored bytes. So every wrapper has looked at the metadata before another one writes."))


def signature(case, detail):
    return C.signature(ID, case, detail)


def shrink(ctx, case, detail):
    return C.shrink(ctx, ID, MOD, case, detail)


def search(ctx):
    return C.search(ctx, ID, MOD)


def replay(ctx, rep):
    return C.replay(ctx, ID, MOD, rep)
