"""C01 — IH5 overlay is transparent: patch boundaries are unobservable.

Lean: Model/Tree.lean (plain HDF5-like tree, `Spec.*`), Model/Overlay.lean (containers, child
scan, write paths `W.*`), Proofs/Overlay*.lean, Props/C01.lean; driver `drv_ov` runs both
models in lock-step.

Real code: a real `IH5Record` (temporary directory) and a real plain `h5py.File` are driven
with the same operations in lock-step.

* Oracle (needs no model): after EVERY step the outcome (ok / exception) and the complete
  dump (kinds, values, attributes at every path, listing order of `visititems`, a second dump
  obtained through `keys()` / `[]`, and `in`) of the record must equal those of the plain file.
* Correspondence: real IH5 outcome + dump == model `W.step` + `view`; real h5py outcome + dump ==
  model `Spec.step` + tree. Raw per-container content is compared as a diagnostic only.
* Refused values (`setbad` / `sattrbad`): set-dataset / set-attr with a value that h5py itself refuses
  (`BAD`). Such a value is no element of the models' value type, the call is an error without effect
  by definition of the reference ("the tree that results from the user's SUCCESSFUL operations"): both
  real sides must raise and both complete dumps must stay as they were (same lock-step oracle, the
  failure classes TypeError / ValueError / UnicodeEncodeError … all map to `err`); the driver answers
  `err err` and keeps both model states (lean/Drv/Ov.lean).
"""
import os
import shutil
import tempfile

from .. import core, lean

ID = "C01"
MOD = "harness.props.c01"
T = "MetadorModel.C01."
THEOREMS = []  # filled in below (kept in one place with Props/C01.lean)
LEAN = dict(
    modules=["MetadorModel.Props.C01"],
    theorems=[T + n for n in [
        "view_newPatch", "view_snoc", "view_fold",
        "step_refines", "step_refines_statement_holds", "step_outcome_agrees", "inv_preserved", "rep_exists", "init_inv_rep",
        "run_refines", "run_refines_from", "spec_run_ignores_boundaries",
        "deleted_never_reappears", "visible_stays", "created_never_hidden", "created_group_never_hidden",
        "replaced_never_reappears", "replaced_by_dataset_never_reappears", "legacy_scan_not_transparent"]] + [
        # translation tie (harness/translate_c01.py -> Gen/OverlayScan.lean): what overlay.py says now is the model
        "MetadorModel.Bridge.OverlayScan." + n for n in [
            "gen_SUBST_KEY", "gen_node_is_virtual", "gen_node_is_del_mark", "gen_attr_value_preds", "gen_guard_open",
            "gen_get_child_raw", "gen_children_loop2", "gen_children_loop1", "gen_children", "gen_get_child",
            "gen_node_seq_loop", "gen_find", "gen_find_rel", "gen_find_inv", "gen_find_visible"]],
    drivers=["drv_ov"],
)
# three modules so that a broken proof is attributed to the function group that changed
LEAN["modules"] += ["MetadorModel.Bridge.OverlayScanPreds", "MetadorModel.Bridge.OverlayScanChildren", "MetadorModel.Bridge.OverlayScan"]


def translate(ctx):
    """regenerate Gen/OverlayScan.lean from the current source (`_node_is_virtual`, `_node_is_del_mark`, `_guard_open`,
    `_get_child_raw`, `_get_child`, `_children`, `_node_seq`, `_find` of ih5/overlay.py)"""
    from .. import translate_c01
    try:
        return translate_c01.write(lean)
    except Exception as e:  # noqa: BLE001
        # leave no text of an earlier run (possibly of another tree) behind: the bridge module then fails to
        # build for this reason and not for a stale one
        translate_c01.write_stub(lean, "%s: %s" % (type(e).__name__, e))
        raise

# ----------------------------------------------------------------------------- encoding


def hx(s):
    return s.encode().hex() if s else "-"


_PLAIN = set("abcdefghijklmnopqrstuvwxyzABCDEFGHIJKLMNOPQRSTUVWXYZ0123456789")


def dec(tok):
    """value token -> Python / numpy value. Token classes (all from the driver's token alphabet):
    i<int> int64 scalar, u<int> uint8 scalar, b0/b1 bool, s<alnum text> string, h<hex> string of
    arbitrary characters (also empty), a<i.j.k> 1-d int64 array, m<i.j_k.l> 2-d int64 array,
    v<hex> opaque scalar np.void(bytes) (any width >= 1), w<hex.hex> 1-d array of one-byte opaque
    values, e HDF5 null-dataspace value (h5py.Empty). The exact IH5 deletion marker v7f is refused by
    IH5 on purpose (property C17) and is never generated."""
    import numpy as np

    if tok[0] == "i":
        return int(tok[1:])
    if tok[0] == "u":
        return np.uint8(int(tok[1:]))
    if tok in ("b0", "b1"):
        return tok == "b1"
    if tok[0] == "s":
        return tok[1:]
    if tok[0] == "h":
        return bytes.fromhex(tok[1:]).decode()
    if tok[0] == "a":
        return np.array([int(x) for x in tok[1:].split(".")], dtype="int64")
    if tok[0] == "m":
        return np.array([[int(x) for x in row.split(".")] for row in tok[1:].split("_")], dtype="int64")
    if tok[0] == "v":
        return np.void(bytes.fromhex(tok[1:]))
    if tok[0] == "w":
        return np.array([np.void(bytes.fromhex(x)) for x in tok[1:].split(".")])
    if tok == "e":
        import h5py

        return h5py.Empty("f")
    raise ValueError(tok)


def enc(x):
    """inverse of `dec` on everything `dec` produces (as read back from HDF5); anything else becomes
    a `?…` token, which no model value equals"""
    import h5py
    import numpy as np

    if isinstance(x, (bytes, np.bytes_, str)):
        t = bytes(x).decode() if isinstance(x, (bytes, np.bytes_)) else str(x)
        return "s" + t if t and set(t) <= _PLAIN else "h" + t.encode().hex()
    if isinstance(x, (np.bool_, bool)):
        return "b1" if x else "b0"
    if isinstance(x, np.uint8):
        return "u%d" % int(x)
    if isinstance(x, np.integer) and x.dtype != np.dtype("int64"):
        return "?" + x.dtype.name
    if isinstance(x, (int, np.integer)):
        return "i%d" % int(x)
    if isinstance(x, np.void):
        return "v" + x.tobytes().hex() if x.dtype.names is None and x.dtype.itemsize >= 1 else "?void"
    if isinstance(x, np.ndarray) and x.dtype == np.dtype("int64") and x.ndim == 1 and x.size:
        return "a" + ".".join(str(int(v)) for v in x)
    if isinstance(x, np.ndarray) and x.dtype == np.dtype("int64") and x.ndim == 2 and x.size:
        return "m" + "_".join(".".join(str(int(v)) for v in row) for row in x)
    if isinstance(x, np.ndarray) and x.dtype == np.dtype("V1") and x.ndim == 1 and x.size:
        return "w" + ".".join(v.tobytes().hex() for v in x)
    if isinstance(x, h5py.Empty):
        return "e" if x.dtype == np.dtype("float32") else "?Empty"
    return "?" + type(x).__name__


# Values that h5py (3.x) refuses for `group[name] = v` AND for `node.attrs[key] = v`, by the stage at which it does:
#   stage 1 (conversion to a numpy array / HDF5 type, before anything is created in the file)
#     Bobj object()            Bdict {"a": 1}          Bset {1, 2}              Bfunc a function
#     Bnone None               Bragged [[1, 2], [3]]   Bmixed [1, "a"]          Bobjarr np.array([object()], dtype=object)
#     Bdt64 np.datetime64      Bustr np.array(["a", "bc"]) (dtype <U2)          Bbig 2**70 (no HDF5 integer type)
#     Bgen a generator         Bstructobj structured array with an object field
#   stage 2 (while the data are written, after the HDF5 object has been created)
#     Bnul "a\x00b" (variable-length strings cannot hold NUL)       Bsur "\udc80" (lone surrogate, not encodable)
# Stage-2 values are used for datasets only: `group[name] = v` writes into an anonymous dataset and links it afterwards
# (nothing stays behind), but `AttributeManager.create` of h5py 3.x deletes an existing attribute of that name BEFORE it
# writes, i.e. the plain h5py.File is not free of effects there itself and gives no reference behaviour (see run()).
BAD_EARLY = ["Bobj", "Bdict", "Bset", "Bfunc", "Bnone", "Bragged", "Bmixed", "Bobjarr", "Bdt64", "Bustr", "Bbig", "Bgen", "Bstructobj"]
BAD_LATE = ["Bnul", "Bsur"]
BAD_DS = BAD_EARLY + BAD_LATE
BAD_ATTR = list(BAD_EARLY)


def bad_val(tok):
    """token of a refused value -> a fresh Python value (built in the worker; never stored in a case)"""
    import numpy as np

    if tok == "Bobj":
        return object()
    if tok == "Bdict":
        return {"a": 1}
    if tok == "Bset":
        return {1, 2}
    if tok == "Bfunc":
        return lambda: None
    if tok == "Bnone":
        return None
    if tok == "Bragged":
        return [[1, 2], [3]]
    if tok == "Bmixed":
        return [1, "a"]
    if tok == "Bobjarr":
        return np.array([object()], dtype=object)
    if tok == "Bdt64":
        return np.datetime64("2020-01-01")
    if tok == "Bustr":
        return np.array(["a", "bc"])
    if tok == "Bbig":
        return 2 ** 70
    if tok == "Bgen":
        return (x for x in (1, 2))
    if tok == "Bstructobj":
        return np.array([(1, None)], dtype=[("a", "i4"), ("b", "O")])
    if tok == "Bnul":
        return "a\x00b"
    if tok == "Bsur":
        return "\udc80"
    raise ValueError(tok)


def parent(path):
    segs = path.strip("/").split("/")
    return "/" + "/".join(segs[:-1])


def is_pre(a, b):
    """a is a prefix of b (or equal), as key lists"""
    sa = [s for s in a.split("/") if s]
    sb = [s for s in b.split("/") if s]
    return sb[: len(sa)] == sa


def show_tree(ents):
    """ents: list of (path, kind, {attr: val}) in listing order -> canonical line"""
    return "T " + ";".join(
        "%s:%s[%s]" % (hx(p), k, ",".join("%s=%s" % (hx(a), v) for a, v in sorted(at.items()))) for p, k, at in ents
    )


# ----------------------------------------------------------------------------- real code


def _is_group(node):
    import h5py

    return isinstance(node, h5py.Group) or type(node).__name__ in ("IH5Group", "IH5Record", "IH5MFRecord")


def _kind(node):
    return "G" if _is_group(node) else "D=" + enc(node[()])


def _attrs(node):
    return {k: enc(v) for k, v in node.attrs.items()}


def dump_visit(f):
    ents = [("/", "G", _attrs(f["/"]))]

    def cb(name, node):
        ents.append(("/" + name, _kind(node), _attrs(node)))

    f.visititems(cb)
    return ents


def dump_walk(f):
    """second way of reading everything: keys() listings, [] access, `in`"""
    ents = []
    bad = []

    def walk(path, node):
        ents.append((path, _kind(node), {k: enc(node.attrs[k]) for k in node.attrs.keys()}))
        if _is_group(node):
            for k in node.keys():
                cp = (path if path != "/" else "") + "/" + k
                if cp not in f:
                    bad.append("listed-but-not-in:" + cp)
                if k not in node:
                    bad.append("listed-but-not-in-rel:" + cp)
                walk(cp, f[cp])
            if len(node) != len(list(node.keys())):
                bad.append("len:" + path)

    walk("/", f["/"])
    return ents, bad


def probe_in(f, path):
    try:
        return "T" if path in f else "F"
    except ValueError as e:
        if "inside a value" in str(e):
            return "F"
        return "EXC:ValueError"
    except Exception as e:  # noqa: BLE001
        return "EXC:" + type(e).__name__


def apply_op(f, href, op):
    """apply one operation to the h5py-like object f. href: the plain reference file (used only
    to decide whether the parent-relative spelling of the call can be used)."""
    import h5py

    k = op[0]
    rel = len(op) > 1 and op[-1] == "rel"
    if rel:
        par = parent(op[1])
        if par == "/" or par not in href or not isinstance(href[par], h5py.Group):
            rel = False
    if k in ("set", "setbad"):
        val = dec(op[2]) if k == "set" else bad_val(op[2])
        if rel:
            f[parent(op[1])][op[1].rsplit("/", 1)[1]] = val
        else:
            f[op[1]] = val
    elif k == "grp":
        if rel:
            f[parent(op[1])].create_group(op[1].rsplit("/", 1)[1])
        else:
            f.create_group(op[1])
    elif k == "del":
        if rel:
            del f[parent(op[1])][op[1].rsplit("/", 1)[1]]
        else:
            del f[op[1]]
    elif k in ("sattr", "sattrbad"):
        f[op[1]].attrs[op[2]] = dec(op[3]) if k == "sattr" else bad_val(op[3])
    elif k == "dattr":
        del f[op[1]].attrs[op[2]]
    elif k == "copy":
        f.copy(op[1], op[2])
    elif k == "move":
        f.move(op[1], op[2])
    else:
        raise RuntimeError("unknown op %r" % (op,))


def raw_dump(files):
    """raw per-container content, newest first, in the format of the driver's `raw` line"""
    import h5py
    from metador_core.ih5.overlay import SUBST_KEY, _is_del_mark

    outs = []
    for fl in reversed(files):
        ents = []

        def one(path, node):
            if isinstance(node, h5py.Group):
                kd = "S" if SUBST_KEY in node.attrs else "v"
            else:
                v = node[()]
                kd = "X" if _is_del_mark(v) else "D=" + enc(v)
            at = {}
            for a, v in node.attrs.items():
                if a == SUBST_KEY:
                    continue
                at[a] = "X" if _is_del_mark(v) else enc(v)
            ents.append("%s:%s[%s]" % (hx(path), kd, ",".join("%s=%s" % (hx(a), v) for a, v in sorted(at.items()))))

        one("/", fl["/"])
        fl.visititems(lambda n, o: one("/" + n, o))
        outs.append(";".join(ents))
    return "R " + " | ".join(outs)


class _Tags:
    """history bookkeeping for the non-triviality tags (statistics only)"""

    def __init__(self):
        self.cont = 0
        self.made = {}  # path -> container index where it was created last
        self.deleted = {}  # path -> container index of a deletion not yet followed by a re-creation
        self.replaced = {}  # path -> container index where it was re-created after a deletion
        self.first = {}  # path -> container index of its first creation
        self.tags = set()
        self.boundary = set()  # the paths present at the last boundary
        self.aset = {}  # (path, key) -> container index of the last successful set-attr (attribute present)
        self.adel = {}  # (path, key) -> container index of the last successful del-attr (attribute absent since)

    def refused_state(self, op, before):
        """where a refused value is aimed at (statistics: every class has to occur)"""
        c, p = self.cont, op[1]
        if op[0] == "setbad":
            if p in before:
                return "exists-in-newest-container" if self.fresh(p) else "exists-in-older-container-only"
            q = parent(p)
            while q != "/":
                if before.get(q, "G") != "G":
                    return "below-dataset"
                q = parent(q)
            if p in self.deleted:
                old = self.first.get(p, c) < c
                return ("deleted-in-this-patch" + (":stored-in-older-container" if old else "")) if self.deleted[p] == c else "deleted-in-older-patch"
            if parent(p) != "/" and parent(p) not in before:
                if any(is_pre(d, p) for d in self.deleted):
                    return "below-deleted-parent"
                return "below-missing-parent"
            return "never-existed" if p not in self.first else "gone-with-ancestor"
        if p not in before:
            return "attr:node-missing"
        kk = (p, op[2])
        if kk in self.aset:
            return "attr:exists-in-newest-container" if self.aset[kk] == c else "attr:exists-in-older-container-only"
        if kk in self.adel:
            return "attr:deleted-in-this-patch" if self.adel[kk] == c else "attr:deleted-in-older-patch"
        return "attr:never-existed"

    def fresh(self, p):
        """p came into being in the current container (explicitly or as an intermediate group)"""
        return self.made.get(p, -1) == self.cont or p not in self.boundary

    def step(self, op, ok, before):
        k = op[0]
        if k == "patch":
            self.cont += 1
            self.boundary = set(before)
            if self.cont >= 2:
                self.tags.add("containers>=3")
            return
        c = self.cont
        if k in ("setbad", "sattrbad"):
            self.tags.add("refused-value:" + self.refused_state(op, before))
            self.tags.add("refused-class:" + ("write-stage" if op[-1] in BAD_LATE or op[2] in BAD_LATE else "conversion-stage"))
            if ok:
                self.tags.add("refused-value-accepted(!)")
            return
        if not ok:
            self.tags.add("err:" + k)
            if k in ("copy", "move") and op[2] in before and op[2] in self.boundary and self.made.get(op[2], -1) != c and op[1] in before and self.fresh(op[1]):
                self.tags.add("relocate-fresh-node-onto-node-of-older-container-refused")
            return
        if k in ("set", "sattr"):
            tok = op[2] if k == "set" else op[3]
            if tok[0] not in "isa":
                self.tags.add("value-class:" + ("v1" if tok[0] == "v" and len(tok) == 3 else tok[0]) + (":attr" if k == "sattr" else ""))
        if k in ("set", "grp", "copy", "move"):
            dst = op[2] if k in ("copy", "move") else op[1]
            for d in list(self.deleted):
                if d != dst and is_pre(d, dst) and d not in before:
                    self.tags.add("delete-then-create-below")
                    if self.deleted[d] < c:
                        self.tags.add("delete-then-create-below-across-containers")
                    del self.deleted[d]
            if k in ("copy", "move") and self.fresh(op[1]) and any(kd < c for d, kd in self.deleted.items() if is_pre(d, dst)):
                self.tags.add("relocate-fresh-node-to-path-deleted-in-older-container")
            if dst in self.deleted:
                if self.first.get(dst, c) < self.deleted[dst]:
                    self.replaced[dst] = c
                del self.deleted[dst]
            self.made[dst] = c
            self.first.setdefault(dst, c)
            if k in ("copy", "move"):
                if is_pre(op[1], dst):
                    self.tags.add("copy-into-own-subtree")
                elif dst.startswith(op[1]) or op[1].startswith(dst):
                    self.tags.add(k + ("-to-path-whose-string-extends-the-source" if dst.startswith(op[1]) else "-to-path-whose-string-is-a-prefix-of-the-source"))
                if parent(dst) != "/" and parent(dst) not in before:
                    self.tags.add(k + "-missing-dest-parents")
        if k in ("set", "grp", "sattr", "dattr", "del", "copy", "move"):
            tgt = op[2] if k in ("copy", "move") else op[1]
            for p, kc in self.replaced.items():
                touches = (is_pre(p, tgt) and p != tgt) or (p == tgt and k in ("sattr", "dattr"))
                if touches and kc < c and self.first.get(p, c) < kc:
                    self.tags.add("replace-then-touch-3-containers")
        if k == "sattr":
            self.aset[(op[1], op[2])] = c
            self.adel.pop((op[1], op[2]), None)
        if k == "dattr":
            self.adel[(op[1], op[2])] = c
            self.aset.pop((op[1], op[2]), None)
        if k in ("copy", "move"):  # attributes travel with the nodes; the bookkeeping only follows set/del-attr: forget
            for kk in [kk for kk in list(self.aset) + list(self.adel) if is_pre(op[2], kk[0])]:
                self.aset.pop(kk, None)
                self.adel.pop(kk, None)
        if k in ("sattr", "dattr"):
            if op[1] in before and before[op[1]] != "G" and self.made.get(op[1], c) < c:
                self.tags.add("attr-on-dataset-of-older-container")
            if op[1] in before and before[op[1]] == "G" and self.made.get(op[1], c) < c:
                self.tags.add("attr-on-group-of-older-container")
        if k in ("del", "move"):
            src = op[1]
            for d in list(self.made):
                if is_pre(src, d):
                    if self.made[d] < c:
                        self.tags.add("delete-node-of-older-container")
                    del self.made[d]
            for d in list(self.replaced):
                if is_pre(src, d):
                    del self.replaced[d]
            for kk in [kk for kk in list(self.aset) + list(self.adel) if is_pre(src, kk[0])]:
                self.aset.pop(kk, None)
                self.adel.pop(kk, None)
            self.deleted[src] = c


def impl(case):
    """Drive a real IH5Record and a real plain h5py.File in lock-step."""
    import h5py
    from metador_core.ih5.record import IH5Record

    ops = case["ops"]
    out, oracle = ["ok"], []
    tg = _Tags()
    d = tempfile.mkdtemp(prefix="c01_", dir=os.environ.get("C01_TMP") or None)
    rec = href = None
    raw = "*"
    try:
        rec = IH5Record(os.path.join(d, "rec"), "w")
        href = h5py.File(os.path.join(d, "plain.h5"), "w")
        dead = False
        hd = dump_visit(href)
        for i, op in enumerate(ops):
            if dead:
                out += ["*", "*", "*"]
                continue
            before = {p: k for p, k, _ in hd}
            if op[0] == "patch":
                rec.commit_patch()
                rec.create_patch()
                out.append("ok")
                oi = oh = "ok"
            else:
                exc = None
                try:
                    apply_op(rec, href, op)
                    oi = "ok"
                except Exception as e:  # noqa: BLE001
                    oi = "err"
                    exc = "%s: %s" % (type(e).__name__, str(e)[:120])
                try:
                    apply_op(href, href, op)
                    oh = "ok"
                except Exception:  # noqa: BLE001
                    oh = "err"
                out.append("%s %s" % (oi, oh))
                if oi != oh:
                    oracle.append(dict(kind="outcome-differs", step=i, op=op, ih5=oi, plain=oh, ih5_exception=exc))
                    dead = True
            tg.step(op, oi == "ok", before)
            # full dumps after every step
            hd = dump_visit(href)
            hline = show_tree(hd)
            try:
                idump = dump_visit(rec)
                iline = show_tree(idump)
            except Exception as e:  # noqa: BLE001
                iline = "EXC"
                oracle.append(dict(kind="read-raises", step=i, op=op, exception="%s: %s" % (type(e).__name__, str(e)[:120])))
                dead = True
            out += [iline, hline]
            if dead:
                continue
            if iline != hline:
                oracle.append(dict(kind="tree-differs", step=i, op=op, ih5=iline, plain=hline))
                dead = True
                continue
            try:
                iw, bad = dump_walk(rec)
                if show_tree(iw) != iline or bad:
                    oracle.append(dict(kind="listing-differs", step=i, op=op, walk=show_tree(iw), visit=iline, bad=bad))
                    dead = True
            except Exception as e:  # noqa: BLE001
                oracle.append(dict(kind="read-raises", step=i, op=op, exception="%s: %s" % (type(e).__name__, str(e)[:120])))
                dead = True
            probes = set(p for o in ops[max(0, i - 2) : i + 1] for p in o[1:3] if isinstance(p, str) and p.startswith("/"))
            for p in sorted(probes):
                a, b = probe_in(rec, p), probe_in(href, p)
                if a != b:
                    oracle.append(dict(kind="in-differs", step=i, op=op, path=p, ih5=a, plain=b))
                    dead = True
        if not dead:
            try:
                raw = raw_dump(rec.__files__)
            except Exception:  # noqa: BLE001
                raw = "*"
        out.append(raw)
    finally:
        for f in (rec, href):
            try:
                if f is not None:
                    f.close()
            except Exception:  # noqa: BLE001
                pass
        shutil.rmtree(d, ignore_errors=True)
    return dict(out=out, oracle=oracle, tags=sorted(tg.tags))


# ----------------------------------------------------------------------------- model lines


def op_line(op):
    k = op[0]
    if k == "patch":
        return "patch"
    if k in ("set", "setbad"):
        return "%s %s %s" % (k, hx(op[1]), op[2])
    if k in ("grp", "del"):
        return "%s %s" % (k, hx(op[1]))
    if k in ("sattr", "sattrbad"):
        return "%s %s %s %s" % (k, hx(op[1]), hx(op[2]), op[3])
    if k == "dattr":
        return "dattr %s %s" % (hx(op[1]), hx(op[2]))
    if k in ("copy", "move"):
        return "%s %s %s" % (k, hx(op[1]), hx(op[2]))
    raise ValueError(op)


def lines(case):
    L = ["new"]
    for op in case["ops"]:
        L += [op_line(op), "dump", "sdump"]
    L.append("raw")
    return L


_raw_stats = dict(same=0, diff=0)


def compare(case, ir, mo):
    a = ir["out"]
    if len(a) != len(mo):
        return "length %d vs %d" % (len(a), len(mo))
    n = len(a) - 1
    for i in range(n):
        if a[i] != mo[i] and a[i] != "*":
            j = (i - 1) // 3
            return "line %d (step %d %r, %s): impl=%r model=%r" % (
                i, j, case["ops"][j] if 0 <= j < len(case["ops"]) else None, ["outcome", "ih5-tree", "plain-tree"][(i - 1) % 3], a[i][:400], mo[i][:400])
    if a[n] != "*":
        _raw_stats["same" if a[n] == mo[n] else "diff"] += 1
    return None


# ----------------------------------------------------------------------------- generators

L1 = ["a", "b", "c"]
L2 = ["a", "b", "x"]
L3 = ["a", "y"]
L4 = ["a", "z"]
EXOTIC = ["a.b", "..", "~", "A", "%41", "a\\b", "!", "[0]", "a=b;c", "a:b,c", "x-", "0", "~~"]
# a key + one of these = a SIBLING whose name begins with the characters of the key (a / ab / a1 / a10 / a_old …; also
# a1 / a10 among themselves): as strings such paths are prefixes of each other, as key lists they are unrelated
SUFFIX = ["b", "1", "10", "_old", "a", "1"]
AKEYS = ["k", "m"]
VALS = ["i0", "i1", "i2", "i7", "i-3", "sabc", "sx", "a1.2.3", "a5", "i1000000"]
# less usual but legal HDF5 values: opaque scalars of width 1, 2, 3 (everything around the IH5
# deletion marker np.void(b"\x7f") except the marker itself, which IH5 refuses: C17), the marker's
# byte under every other type (uint8, string, element of an opaque array, wider opaque), booleans,
# empty / non-alphanumeric strings, 2-d arrays, the null dataspace
VALS2 = ["v41", "v00", "v7e", "v80", "vff", "v7f7f", "v726177", "v7f00", "w7f", "w41.42", "u127", "u0", "h7f", "h", "h2f40", "b0", "b1",
         "m1.2_3.4", "e"]


def rand_val(rng):
    return rng.choice(VALS) if rng.random() < 0.7 else rng.choice(VALS2)


class Sim:
    """tiny plain-tree simulation used ONLY to steer the generator towards valid operations"""

    def __init__(self):
        self.t = {"/": "G"}

    def exists(self, p):
        return p in self.t

    def can_create(self, p):
        if p in self.t:
            return False
        q = parent(p)
        while q != "/":
            if self.t.get(q, "G") != "G":
                return False
            q = parent(q)
        return True

    def create(self, p, kind):
        q = parent(p)
        while q != "/":
            self.t.setdefault(q, "G")
            q = parent(q)
        self.t[p] = kind

    def delete(self, p):
        for q in [q for q in self.t if q != "/" and is_pre(p, q)]:
            del self.t[q]

    def apply(self, op):
        k = op[0]
        if k == "set" and self.can_create(op[1]):
            self.create(op[1], "D")
        elif k == "grp" and self.can_create(op[1]):
            self.create(op[1], "G")
        elif k == "del" and self.exists(op[1]):
            self.delete(op[1])
        elif k in ("copy", "move") and self.exists(op[1]) and self.can_create(op[2]):
            sub = {q: v for q, v in self.t.items() if q != "/" and is_pre(op[1], q)}
            self.create(op[2], self.t[op[1]])
            for q, v in sub.items():
                self.t[op[2] + q[len(op[1]):]] = v
            if k == "move":
                self.delete(op[1])

    def size(self):
        return len(self.t)


def rand_path(rng, maxd=4, exotic=0.04, longer=0.1):
    """`longer`: share of the keys (at every level) that get a suffix, i.e. are name-extending siblings of the level's keys"""
    d = min(rng.choice([1, 1, 2, 2, 2, 3, 3, 4]), maxd)
    segs = []
    for lvl, keys in zip(range(d), [L1, L2, L3, L4]):
        segs.append(rng.choice(EXOTIC) if rng.random() < exotic else rng.choice(keys) + (rng.choice(SUFFIX) if rng.random() < longer else ""))
    return "/" + "/".join(segs)


def name_kin(rng, p):
    """a path whose STRING is related to the string of p without the path being related to p: the sibling whose name
    extends p's last key (/a/b -> /a/b1, /a/b_old), a path below that sibling (/a/b1/x), or - if p's last key has more
    than one character - the sibling with a shortened name (/a/b10 -> /a/b1, /a/b) or a path below it"""
    last = p.rsplit("/", 1)[1]
    r = rng.random()
    if len(last) > 1 and r < 0.35:
        q = p[: len(p) - rng.randrange(1, len(last))]
        if q.endswith("/."):  # '.' is no key (HDF5 reads it as the current group)
            q = p + rng.choice(SUFFIX)
    else:
        q = p + rng.choice(SUFFIX)
    if rng.random() < 0.3:
        q += "/" + rng.choice(L2)
    return q


def rand_refused(rng, sim, maxd=4):
    """set-dataset / set-attr with a value that h5py refuses, at an existing node, below one (below a dataset, or a new
    name in a group), or at any path (never existed, deleted earlier, missing parents)"""
    ex = [p for p in sim.t if p != "/"]
    if rng.random() < 0.6:
        r = rng.random()
        if r < 0.3 and ex:
            p = rng.choice(ex)
        elif r < 0.5 and ex:
            p = rng.choice(ex) + "/" + "/".join(rng.choice(L2) for _ in range(rng.choice([1, 1, 2])))
        else:
            p = rand_path(rng, maxd)
        return ["setbad", p, rng.choice(BAD_DS)] + (["rel"] if rng.random() < 0.25 else [])
    p = rng.choice(ex + ["/"]) if rng.random() < 0.85 else rand_path(rng, maxd)
    return ["sattrbad", p, rng.choice(AKEYS), rng.choice(BAD_ATTR)]


def rand_op(rng, sim, maxd=4):
    """one operation, mostly valid w.r.t. the simulated tree"""
    if rng.random() < 0.05:
        return rand_refused(rng, sim, maxd)
    r = rng.random()
    ex = [p for p in sim.t if p != "/"]
    rel = ["rel"] if rng.random() < 0.25 else []
    if r < 0.24:
        p = rand_path(rng, maxd)
        return ["set", p, rand_val(rng)] + rel
    if r < 0.38:
        return ["grp", rand_path(rng, maxd)] + rel
    if r < 0.54:
        p = rng.choice(ex) if ex and rng.random() < 0.85 else rand_path(rng, maxd)
        return ["del", p] + rel
    if r < 0.70:
        p = rng.choice(ex + ["/"]) if rng.random() < 0.85 else rand_path(rng, maxd)
        return ["sattr", p, rng.choice(AKEYS + ([rng.choice(EXOTIC)] if rng.random() < 0.1 else [])), rand_val(rng)]
    if r < 0.80:
        p = rng.choice(ex + ["/"]) if rng.random() < 0.85 else rand_path(rng, maxd)
        return ["dattr", p, rng.choice(AKEYS)]
    kind = "copy" if r < 0.91 else "move"
    s = rng.choice(ex) if ex and rng.random() < 0.9 else rand_path(rng, maxd)
    q = rng.random()
    if q < 0.3 and kind == "copy":
        dst = s + "/" + "/".join(rng.choice(L2) for _ in range(rng.choice([1, 2, 2])))  # into own subtree
    elif q < 0.42 and s != "/":
        dst = name_kin(rng, s)  # rename to / below a sibling whose name extends or shortens the source's name
    elif q < 0.6:
        dst = rand_path(rng, 2) + "/" + "/".join(rng.choice(["n", "m", "a"]) for _ in range(rng.choice([1, 2])))  # missing parents likely
    else:
        dst = rand_path(rng, maxd)
    if kind == "move" and is_pre(s, dst):
        kind = "copy"
    if kind == "copy" and sim.size() > 40:
        return ["del", s]
    return [kind, s, dst]


def template(rng):
    """the shapes named by the property, as operation skeletons ('|' = boundary)"""
    P = "/" + rng.choice(L1)
    if rng.random() < 0.4:
        P += "/" + rng.choice(L2)
    v = lambda: rand_val(rng)  # noqa: E731
    k = rng.choice(AKEYS)
    t = rng.randrange(15)
    B = ["patch"]
    bd = lambda: rng.choice(BAD_DS)  # noqa: E731
    if t == 14:  # rename / copy between siblings whose names begin alike (a -> ab, a1 -> a10, a_old -> a), then both names are used
        A = name_kin(rng, P)
        s_, d_ = (P, A) if rng.random() < 0.7 else (A.rsplit("/", 1)[0] if A.count("/") > P.count("/") else A, P)
        kind = rng.choice(["move", "move", "copy"])
        return [rng.choice([["set", s_, v()], ["set", s_ + "/x", v()], ["grp", s_]]), ["sattr", s_, k, v()]] + ([B] if rng.random() < 0.6 else []) + [
            [kind, s_, d_]] + ([B] if rng.random() < 0.3 else []) + [rng.choice([["set", s_, v()], ["del", d_], ["set", d_ + "/n", v()], ["move", d_, s_], ["sattr", d_, k, v()]])]
    if t == 11:  # refused value at a name deleted in this / in an older patch (the deletion must stay), then the name is used again
        return [rng.choice([["set", P, v()], ["set", P + "/x", v()], ["grp", P]]), B, ["del", P]] + ([B] if rng.random() < 0.4 else []) + [
            ["setbad", P, bd()]] + ([B] if rng.random() < 0.3 else []) + [rng.choice([["set", P, v()], ["grp", P], ["set", P + "/a", v()], ["setbad", P + "/a/y", bd()]])]
    if t == 12:  # refused value below missing parents (no group may stay behind), also below a deleted name; then a dataset where the group would be
        pre = rng.choice([[], [["set", P + "/x", v()], B, ["del", P]], [["grp", P], B], [["set", P + "/a/y", v()], B, ["del", P + "/a"]]])
        return pre + [["setbad", P + "/a/y", bd()], rng.choice([["set", P + "/a", v()], ["set", P, v()], B]), ["setbad", P + "/a/y", bd()]]
    if t == 13:  # refused attribute value on an attribute deleted / overwritten / stored in an older container
        node = rng.choice([["grp", P], ["set", P, v()]])
        mid = rng.choice([[["dattr", P, k]], [["sattr", P, k, v()]], [], [["dattr", P, k], B], [["sattr", P, k, v()], ["dattr", P, k]]])
        return [node, ["sattr", P, k, v()], B] + mid + [["sattrbad", P, k, rng.choice(BAD_ATTR)]] + ([B] if rng.random() < 0.3 else []) + [
            rng.choice([["sattr", P, "m", v()], ["sattr", P, k, v()], ["dattr", P, k], ["sattrbad", P, "m", rng.choice(BAD_ATTR)]])]
    if t == 0:  # replace-then-touch across three containers
        return [["set", P + "/x", v()], B, ["del", P], ["grp", P], ["set", P + "/y", v()], B, rng.choice([["set", P + "/a", v()], ["sattr", P, k, v()], ["grp", P + "/b/a"], ["del", P + "/y"]])]
    if t == 1:  # dataset replaced by a group, then touched
        return [["set", P, v()], B, ["del", P], ["grp", P], B, rng.choice([["sattr", P, k, v()], ["set", P + "/a", v()]]), B, ["set", P + "/b", v()]]
    if t == 2:  # group replaced by dataset, attrs later
        return [["set", P + "/a", v()], ["sattr", P, k, v()], B, ["del", P], ["set", P, v()], B, ["sattr", P, k, v()], B, ["dattr", P, k]]
    if t == 3:  # delete then create below
        return [["set", P + "/x", v()], B, ["del", P]] + ([B] if rng.random() < 0.6 else []) + [rng.choice([["grp", P + "/a/y"], ["set", P + "/a", v()], ["grp", P + "/a"]])]
    if t == 4:  # attrs on datasets of older containers
        return [["set", P, v()], ["sattr", P, "m", v()], B, ["sattr", P, k, v()], B, rng.choice([["dattr", P, k], ["sattr", P, k, v()], ["dattr", P, "m"]]), B, ["sattr", P, k, v()]]
    if t == 5:  # copy into own subtree
        return [["set", P + "/a", v()], ["sattr", P, k, v()], ["grp", P + "/b"]] + ([B] if rng.random() < 0.7 else []) + [["copy", P, P + "/b/" + rng.choice(["c", "a/c"])]]
    if t == 6:  # copy / move with missing destination parents
        Q = "/" + rng.choice(L1) + "/n/m"
        kind = "copy" if is_pre(P, Q) else rng.choice(["copy", "move"])
        return [["set", P + "/a", v()], ["sattr", P + "/a", k, v()]] + ([B] if rng.random() < 0.7 else []) + [[kind, P, Q]]
    if t == 7:  # delete in one patch, recreate same name with other kind in a later one, then delete again
        return [["grp", P + "/a"], B, ["del", P], B, ["set", P, v()], B, ["del", P], ["grp", P + "/a/y"]]
    if t == 9:  # entity of an older container overwritten AND removed again inside one later container, then used again
        node = rng.choice([["grp", P], ["set", P, v()]])
        if rng.random() < 0.6:
            return [node, ["sattr", P, k, v()], B, ["sattr", P, k, v()], ["dattr", P, k]] + ([B] if rng.random() < 0.5 else []) + [rng.choice([["sattr", P, "m", v()], ["sattr", P, k, v()], ["dattr", P, k]])]
        return [node, B, ["del", P], rng.choice([["grp", P], ["set", P, v()]]), ["del", P]] + ([B] if rng.random() < 0.5 else []) + [rng.choice([["set", P + "/a", v()], ["grp", P], ["set", P, v()]])]
    if t == 10:  # deletion committed, data created at a nested path below the deleted name in a later container
        return [rng.choice([["set", P + "/x/y", v()], ["set", P, v()], ["grp", P]]), B, ["del", P], B] + ([B] if rng.random() < 0.3 else []) + [["set", P + rng.choice(["/a", "/a/y", "/x/y"]), v()], B, ["set", P + "/b/z", v()]]
    # attribute deleted and re-set across containers on a group
    return [["grp", P], ["sattr", P, k, v()], B, ["dattr", P, k], B, ["sattr", P, k, v()], B, ["dattr", P, k]]


def gen_history(rng, nops, maxd=4):
    sim = Sim()
    ops = []
    nb = rng.choice([0, 1, 1, 2, 2, 3, 3, 4, 5, 6])
    pb = nb / max(1, nops)
    pending = []
    while len(ops) < nops:
        if pending:
            op = pending.pop(0)
        elif rng.random() < 0.08:
            pending = [list(o) for o in template(rng)]
            continue
        elif rng.random() < pb:
            op = ["patch"]
        else:
            op = rand_op(rng, sim, maxd)
        if op[0] == "patch" and sum(1 for o in ops if o[0] == "patch") >= 6:
            continue
        if op[0] == "move" and is_pre(op[1], op[2]):
            continue
        if op[0] == "copy" and sim.size() > 60:
            continue
        sim.apply(op)
        ops.append(op)
    return ops


def gen_focus(rng):
    """dense history on ONE entity: a single attribute (one node, one or two keys) or a single
    name with its subtree (three nested paths); few operations, frequent boundaries, so that every
    short order of create / overwrite / remove / boundary on the same entity is likely to occur"""
    P = "/" + rng.choice(L1) + ("/" + rng.choice(L2) if rng.random() < 0.3 else "")
    v = lambda: rand_val(rng)  # noqa: E731
    ops = []
    if rng.random() < 0.5:  # attribute focus
        ops.append(rng.choice([["grp", P], ["set", P, v()], ["set", P + "/x", v()]]))
        tgt = rng.choice([P, P, "/"])
        for _ in range(rng.randrange(4, 12)):
            r = rng.random()
            if r < 0.3:
                ops.append(["sattr", tgt, "k", v()])
            elif r < 0.55:
                ops.append(["dattr", tgt, "k"])
            elif r < 0.8:
                ops.append(["patch"])
            elif r < 0.9:
                ops.append(rng.choice([["sattr", tgt, "m", v()], ["dattr", tgt, "m"]]))
            else:
                ops += [["del", P], rng.choice([["grp", P], ["set", P, v()]])]
    else:  # name focus
        Q = [P, P + "/x", P + "/x/y"]
        K = [P + rng.choice(SUFFIX), P + "/x" + rng.choice(SUFFIX)]  # siblings with name-extending names
        for _ in range(rng.randrange(4, 12)):
            r = rng.random()
            if r < 0.08:
                a, b = rng.choice([(P, K[0]), (K[0], P), (P + "/x", K[1]), (K[1], P + "/x"), (P, K[0] + "/n")])
                ops.append([rng.choice(["move", "move", "copy"]), a, b])
            elif r < 0.14:
                ops.append(rng.choice([["set", rng.choice(K), v()], ["del", rng.choice(K)]]))
            elif r < 0.3:
                ops.append(["set", rng.choice(Q + [P + "/b"]), v()])
            elif r < 0.4:
                ops.append(["grp", rng.choice(Q)])
            elif r < 0.65:
                ops.append(["del", rng.choice(Q[:2] + [P])])
            elif r < 0.9:
                ops.append(["patch"])
            else:
                ops.append(["sattr", rng.choice(Q), "k", v()])
    while sum(1 for o in ops if o[0] == "patch") > 6:
        ops.remove(["patch"])
    return ops


def gen_refused(rng):
    """dense history on ONE name (with two levels below it) and ONE attribute key in which every third operation or so
    carries a value that h5py refuses: the target is, in every order the few operations allow, a path that never
    existed / exists in the newest container / exists in older containers only / was deleted in this patch / was
    deleted in an older patch / lies below missing parents / lies below a dataset / lies below a deleted name (and the
    same for the attribute: never set, set here, set in an older container, overwritten here, deleted here / earlier,
    node missing). Often the next operation uses the same name with an accepted value, so that anything a refused call
    left behind (a group, a lifted deletion, a temporary node) is noticed at once, before and after a boundary."""
    P = "/" + rng.choice(L1) + ("/" + rng.choice(L2) if rng.random() < 0.25 else "")
    v = lambda: rand_val(rng)  # noqa: E731
    Q = [P, P, P + "/x", P + "/x/y"]
    far = [P + "/b", P + "/x/n/y", P + "/n/m"]
    k = rng.choice(AKEYS)
    ops = []
    r = rng.random()
    if r < 0.4:
        ops.append(rng.choice([["set", P, v()], ["set", P + "/x", v()], ["set", P + "/x/y", v()], ["grp", P]]))
        if rng.random() < 0.5:
            ops.append(["sattr", P, k, v()])
        if rng.random() < 0.6:
            ops.append(["patch"])
    elif r < 0.65:  # the name (or the level below it) has been deleted, in this patch or in an older one
        d = rng.choice([P, P, P + "/x"])
        ops += [rng.choice([["set", d, v()], ["set", d + "/y", v()], ["grp", d]]), ["patch"], ["del", d]] + ([["patch"]] if rng.random() < 0.45 else [])
        if rng.random() < 0.7:
            ops.append(["setbad", rng.choice([d, d, d + "/y", d + "/n/y"]), rng.choice(BAD_DS)])
    elif r < 0.85:  # the attribute has been deleted / overwritten, in this patch or in an older one
        ops += [rng.choice([["grp", P], ["set", P, v()]]), ["sattr", P, k, v()], ["patch"], rng.choice([["dattr", P, k], ["sattr", P, k, v()]])] + ([["patch"]] if rng.random() < 0.45 else [])
        if rng.random() < 0.7:
            ops.append(["sattrbad", P, k, rng.choice(BAD_ATTR)])
    for _ in range(rng.randrange(4, 13)):
        r = rng.random()
        if r < 0.22:
            p = rng.choice(Q + far)
            ops.append(["setbad", p, rng.choice(BAD_DS)] + (["rel"] if rng.random() < 0.2 else []))
            if rng.random() < 0.5:
                ops.append(rng.choice([["set", p, v()], ["grp", p], ["set", parent(p) if parent(p) != "/" else p, v()], ["patch"], ["del", P]]))
        elif r < 0.32:
            tgt = rng.choice([P, P, P + "/x", "/"])
            ops.append(["sattrbad", tgt, k, rng.choice(BAD_ATTR)])
            if rng.random() < 0.5:
                ops.append(rng.choice([["sattr", tgt, k, v()], ["dattr", tgt, k], ["patch"]]))
        elif r < 0.46:
            ops.append(["set", rng.choice(Q + far[:1]), v()])
        elif r < 0.52:
            ops.append(["grp", rng.choice(Q)])
        elif r < 0.68:
            ops.append(["del", rng.choice(Q[:3])])
        elif r < 0.84:
            ops.append(["patch"])
        elif r < 0.93:
            ops.append(["sattr", rng.choice([P, P, P + "/x", "/"]), k, v()])
        else:
            ops.append(["dattr", rng.choice([P, P, "/"]), k])
    while sum(1 for o in ops if o[0] == "patch") > 6:
        ops.remove(["patch"])
    return ops


class Hist(Sim):
    """`Sim` plus the two facts about the distribution over containers that steer `gen_relocate`: which paths are FRESH
    (came into being since the last boundary, also implicitly as intermediate group of a longer path, also by
    re-creation after a deletion) and which have a PAST (existed at some earlier boundary: still there, or deleted /
    replaced since)"""

    def __init__(self):
        super().__init__()
        self.fresh = set()
        self.past = set()
        self.cut = set()  # the paths named by successful deletions / moves (where a deletion was recorded)

    def apply(self, op):
        if op[0] in ("del", "move") and op[1] in self.t and (op[0] == "del" or self.can_create(op[2])):
            self.cut.add(op[1])
        if op[0] == "patch":
            self.past |= set(p for p in self.t if p != "/")
            self.fresh = set()
            return
        before = set(self.t)
        super().apply(op)
        self.fresh = set(p for p in self.fresh if p in self.t) | set(p for p in self.t if p not in before)

    def live_past(self):
        """present, stored in older containers only (nothing at this path was created in the current patch)"""
        return sorted(p for p in self.past if p in self.t and p not in self.fresh)

    def dead_past(self):
        """existed at an earlier boundary, absent now (deleted in an older container or in the current patch)"""
        return sorted(p for p in self.past if p not in self.t)

    def dead_cut(self):
        """the same, only the paths that were themselves named by the deletion (not those that went with an ancestor)"""
        return sorted(p for p in self.past if p not in self.t and p in self.cut)


def gen_relocate(rng):
    """copy / move between the current patch and the past. First one to three older containers are filled (long paths,
    so that intermediate groups exist only implicitly; some nodes deleted or replaced again, in the same or in a later
    container). Then rounds of: new material in the current patch (again mostly through longer paths, sometimes
    attributes on it, sometimes next to old nodes so that their parent group also has a node in the newest container),
    one to three copy / move operations whose SOURCE is mostly such a fresh node (dataset, explicit group, implicit
    intermediate group) and whose DESTINATION mostly has a past: a node stored in older containers only (the
    operation must then fail as on the plain tree), a path deleted earlier, a path below either, or the path of a node
    replaced earlier; each followed now and then by an operation on / below the destination, also after one more
    boundary."""
    h = Hist()
    ops = []
    v = lambda: rand_val(rng)  # noqa: E731
    npatch = [0]

    def emit(op):
        if op[0] == "patch":
            if npatch[0] >= 6:
                return
            npatch[0] += 1
        if op[0] == "move" and is_pre(op[1], op[2]):
            op = ["copy"] + op[1:]
        if op[0] == "copy" and h.size() > 40:
            return
        h.apply(op)
        ops.append(op)

    def ex():
        return sorted(p for p in h.t if p != "/")

    def deep():
        # a long path, now and then below a top-level key of its own: several groups come into being implicitly
        segs = [rng.choice(L1 + ["n", "n"])] + [rng.choice(ks) for ks in (L2, L3, L4)]
        return "/" + "/".join(segs[: rng.choice([2, 3, 3, 4])])

    for _ in range(rng.choice([1, 1, 2, 2, 3])):
        for _ in range(rng.randrange(1, 5)):
            r = rng.random()
            e = ex()
            if r < 0.45 or not e:
                emit(["set", rand_path(rng, 3, 0.02), v()])
            elif r < 0.6:
                emit(["grp", rand_path(rng, 3, 0.02)])
            elif r < 0.7:
                emit(["sattr", rng.choice(e), rng.choice(AKEYS), v()])
            else:
                emit(["del", rng.choice(e)])
        emit(["patch"])
    for _ in range(rng.choice([1, 1, 2, 3])):
        for _ in range(rng.randrange(1, 4)):
            r = rng.random()
            fr = sorted(h.fresh)
            pa = h.live_past() + h.dead_past()
            if r < 0.45:
                emit(["set", deep(), v()])
            elif r < 0.6:
                emit(["grp", rand_path(rng, 3, 0.02)])
            elif r < 0.75 and fr:
                emit(["sattr", rng.choice(fr), rng.choice(AKEYS), v()])
            elif r < 0.9 and pa:  # a sibling of a node with a past
                q = parent(rng.choice(pa))
                emit(["set", (q if q != "/" else "") + "/" + rng.choice(["n", "m"]), v()])
            elif ex():
                emit(["del", rng.choice(ex())])
        for _ in range(rng.randrange(1, 4)):
            fr, e = sorted(h.fresh), ex()
            if not e:
                break
            frg = [p for p in fr if h.t[p] == "G"]
            src = (rng.choice(frg) if frg and rng.random() < 0.6 else rng.choice(fr)) if fr and rng.random() < 0.8 else rng.choice(e)
            live, dead, cut = h.live_past(), h.dead_past(), h.dead_cut()
            r = rng.random()
            if rng.random() < 0.12:
                dst = name_kin(rng, rng.choice([src] + live + cut))  # string-related, path-unrelated (sibling with a longer / shorter name)
            elif r < 0.2 and live:
                dst = rng.choice(live)
            elif r < 0.65 and dead:
                dst = rng.choice(cut) if cut and rng.random() < 0.7 else rng.choice(dead)
            elif r < 0.8 and live + dead:
                dst = rng.choice(live + dead) + "/" + rng.choice(L2)
            else:
                dst = rand_path(rng, 3, 0.02)
            q = parent(dst)
            if q != "/" and h.t.get(q) == "G" and q not in h.fresh and rng.random() < 0.4:
                # the destination's parent gets a node in the newest container first (a new sibling or an attribute)
                emit(rng.choice([["set", q + "/" + rng.choice(["n", "m"]), v()], ["sattr", q, rng.choice(AKEYS), v()]]))
            emit([rng.choice(["copy", "move"]), src, dst])
            if rng.random() < 0.5:
                if rng.random() < 0.3:
                    emit(["patch"])
                emit(rng.choice([["set", dst + "/" + rng.choice(L2), v()], ["sattr", dst, rng.choice(AKEYS), v()], ["del", dst],
                                 ["grp", dst + "/a/y"], ["set", dst, v()]]))
        if rng.random() < 0.7:
            emit(["patch"])
    return ops


def enum_small():
    """all histories of length <= 3 over {a,b}-paths of depth <= 2 with set/grp/del/sattr/dattr/boundary"""
    import itertools

    paths = ["/a", "/b", "/a/a", "/a/b", "/b/a", "/b/b"]
    alpha = [["patch"]]
    for p in paths:
        alpha += [["set", p, "i1"], ["grp", p], ["del", p]]
    for p in paths + ["/"]:
        alpha += [["sattr", p, "k", "i2"], ["dattr", p, "k"]]
    for n in (1, 2, 3):
        for h in itertools.product(alpha, repeat=n):
            yield [list(o) for o in h]


def enum_refused():
    """refused values in every state a short history can reach: all histories of <= 4 accepted operations on the name /a
    (dataset, group, child /a/b, one attribute, boundary) followed by ONE refused operation, and all histories of <= 3
    such operations followed by a refused operation and one accepted operation that uses the name again"""
    import itertools

    normal = [["patch"], ["set", "/a", "i1"], ["grp", "/a"], ["del", "/a"], ["set", "/a/b", "i1"], ["sattr", "/a", "k", "i2"], ["dattr", "/a", "k"]]
    bad = [["setbad", "/a", "Bobj"], ["setbad", "/a/b", "Bnul"], ["sattrbad", "/a", "k", "Bnone"]]
    after = [["set", "/a", "i3"], ["set", "/a/b", "i3"], ["grp", "/a"], ["sattr", "/a", "k", "i3"], ["patch"]]
    for n in range(5):
        for h in itertools.product(normal, repeat=n):
            for b in bad:
                yield [list(o) for o in h] + [list(b)]
                if n <= 3:
                    for a in after:
                        yield [list(o) for o in h] + [list(b), list(a)]


def enum_kin():
    """rename / copy between paths whose strings are prefixes of each other while the paths are unrelated: every source
    among /a, /ab, /a1, /a10, /a/b, /a/b1 (dataset, empty group, group with a child), with and without a boundary before
    the operation, every destination among these and /ab/c, /a/b1/c that is not below the source; then the source name is
    set again and the destination gets a child"""
    names = ["/a", "/ab", "/a1", "/a10", "/a/b", "/a/b1"]
    for src in names:
        for mk in ([["set", src, "i1"]], [["grp", src]], [["set", src + "/n", "i1"], ["sattr", src, "k", "i2"]]):
            for b in ([], [["patch"]]):
                for kind in ("move", "copy"):
                    for dst in names + ["/ab/c", "/a/b1/c"]:
                        if is_pre(src, dst):
                            continue
                        yield [list(o) for o in mk + b] + [[kind, src, dst], ["set", src, "i3"], ["set", dst + "/m", "i4"]]


def gen_cases(ctx, quick=None):
    quick = ctx.quick if quick is None else quick
    rng = ctx.rng
    cases = []
    n = 200 if quick else 6000
    for i in range(n):
        nops = rng.randrange(8, 31) if quick else rng.randrange(8, 41)
        cases.append(dict(ops=gen_history(rng, nops)))
    # dense small histories: shallow paths, frequent boundaries
    for i in range(60 if quick else 1500):
        ops = []
        sim = Sim()
        for _ in range(rng.randrange(4, 13)):
            op = ["patch"] if rng.random() < 0.3 and sum(1 for o in ops if o[0] == "patch") < 6 else rand_op(rng, sim, 2)
            if op[0] == "move" and is_pre(op[1], op[2]):
                continue
            sim.apply(op)
            ops.append(op)
        cases.append(dict(ops=ops))
    # dense histories on a single attribute / a single name
    for i in range(80 if quick else 2000):
        cases.append(dict(ops=gen_focus(rng)))
    # copy / move of nodes of the current patch onto / below paths with a past in older containers
    for i in range(130 if quick else 2000):
        cases.append(dict(ops=gen_relocate(rng)))
    # values that h5py refuses, aimed at paths / attributes in every state
    for i in range(90 if quick else 2500):
        cases.append(dict(ops=gen_refused(rng)))
    return cases


# ----------------------------------------------------------------------------- check


def _tmp_root():
    """one scratch directory per check run (workers killed on a timeout cannot clean up themselves)"""
    import atexit

    if not os.environ.get("C01_TMP"):
        d = tempfile.mkdtemp(prefix="c01run_")
        os.environ["C01_TMP"] = d
        atexit.register(shutil.rmtree, d, ignore_errors=True)
    return os.environ["C01_TMP"]


def run(ctx):
    _tmp_root()
    ctx.rule = ("cases: operation histories (set-dataset, create-group, delete, set-attr, del-attr, copy, move, commit+create-patch boundary) over "
                "paths of depth <= 4 on 2-3 colliding keys per level (+ exotic printable-ASCII keys; at every level a tenth of the keys carries a suffix, so that siblings whose names begin alike - a, ab, a1, a10, a_old - occur, "
                "and a share of the copy / move destinations is the sibling with the longer or shorter name, or a path below it: path strings that are prefixes of each other although the paths are unrelated), values and attribute values from int64 / uint8 / bool scalars, strings (also empty and non-alphanumeric), 1-d and 2-d int arrays, opaque scalars of width 1-3 around the deletion marker (the marker itself excluded: C17), opaque arrays and the null dataspace, 0-6 boundaries at random positions, with the "
                "shapes named by the property spliced in as templates, plus dense short histories on one attribute / one name (set, overwrite, remove, boundary in every order), "
                "plus copy / move histories between the current patch and the past (source mostly a node of the current patch, also a group that exists only implicitly as intermediate group of a longer path; "
                "destination mostly a node stored in older containers only, a path deleted or replaced in an earlier or the current patch, or a path below one; the destination's parent with and without a node in the newest container; follow-up operations on the destination, also after a further boundary). Each history is applied to a real IH5Record and a real h5py.File in lock-step; "
                "after every step outcome and full dump are compared (oracle) and both are compared with the Lean models (drv_ov). "
                "Interleaved everywhere (5 % of the random operations, three templates, a dense generator of its own): set-dataset / set-attr with a value that h5py itself refuses "
                "(object(), dict, set, function, None, ragged / mixed list, object and structured-object arrays, datetime64, '<U' array, 2**70, generator; for datasets also the values refused only while the data are written: string with NUL, lone surrogate) "
                "at a path / attribute that never existed, exists in the newest container, exists in older containers only, was deleted in this patch or in an older one, lies below missing parents, below a dataset or below a deleted name, "
                "mostly followed by an accepted operation on the same name: both real sides must fail and both complete dumps must stay unchanged (a refused call has no effect). "
                "Non-trivial = tagged: replace-then-touch across >=3 containers, delete-then-create-below, attrs on nodes of older containers, "
                "copy into own subtree, copy/move to a path whose string extends / is a prefix of the source's string, copy/move with missing destination parents, copy/move of a node of the current patch to a path deleted in an older container / onto a node of an older container (refused), >=3 containers, failing operations per kind, "
                "refused values per state of the target (tags refused-value:*) and per refusal stage (refused-class:*).")
    ctx.assumptions += [
        "h5py/HDF5 implements the flat tree semantics of Model/Tree.Spec (checked on every step: the plain h5py.File is one side of the lock-step and is compared with the Spec model)",
        "moving a node into its own subtree or onto itself is outside the operation alphabet (HDF5 detaches the subtree; h5py returns silently for source == dest)",
        "the key '.' is excluded (HDF5 reads it as the current group)",
        "node handles are not kept across operations (stale handles and dataset slicing are outside the property)",
        "a value that the raw driver h5py refuses is no element of the models' value type V (Op V has no constructor for such a call); by the property's reference (the tree that results from the SUCCESSFUL operations) "
        "the call is an error without effect, whatever the state of the path: the driver lines setbad / sattrbad answer 'err err' and keep both model states without going through W.step / Spec.step "
        "(lean/Drv/Ov.lean); that the real plain h5py.File refuses the value and keeps its tree is checked on every such step (it is one side of the lock-step and is compared with the unchanged Spec tree), "
        "that the real IH5Record does is what the oracle checks - no theorem speaks about refused values",
        "attribute values that h5py refuses only while the data are written (str with an embedded NUL, lone surrogate) are excluded from set-attr: AttributeManager.create of h5py 3.x deletes an existing attribute "
        "of that name before it writes, so the plain h5py.File loses the attribute on such a failed call and gives no reference behaviour (IH5 does the same inside the newest container only: "
        "a deletion marker or an overwriting value there is lost and the state of the older containers shows through); for datasets these values ARE generated (group[name] = v goes through an anonymous dataset and keeps nothing)",
    ]
    corpus = [] if os.environ.get("C01_NO_CORPUS") else core.load_corpus(ID)  # (switch used to test the generators alone)
    if corpus:
        ctx.correspond("corpus", MOD, corpus, lines, "drv_ov", compare=compare, timeout=20.0)
    if ctx.oracle_hits:
        ctx.notes.append("a corpus witness fails again; generated histories skipped")
        return
    cases = gen_cases(ctx)
    n_gen = len(cases)
    if not ctx.quick:
        small = [dict(ops=h) for h in enum_small()]
        cases += small
        ctx.exhaustive_spaces.append("all %d histories of length <= 3 over the 6 paths of depth <= 2 on keys {a,b} with set/create-group/delete/set-attr/del-attr (one key, also on the root) and boundary" % len(small))
        kin = [dict(ops=h) for h in enum_kin()]
        cases += kin
        ctx.exhaustive_spaces.append("all %d histories 'create the source (dataset / group / group with child and attribute); boundary or not; move or copy it; set the source name again; create a child of the destination' "
                                     "over the names /a, /ab, /a1, /a10, /a/b, /a/b1 (+ destinations /ab/c, /a/b1/c), destination not below the source" % len(kin))
        refused = [dict(ops=h) for h in enum_refused()]
        cases += refused
        ctx.exhaustive_spaces.append("all %d histories made of <= 4 accepted operations on the name /a (set /a, create-group /a, delete /a, set /a/b, set-attr / del-attr k on /a, boundary) followed by one refused "
                                     "operation (set /a := object(), set /a/b := string with NUL, set-attr k := None), and of <= 3 such operations, a refused one and one accepted operation on the same name" % len(refused))
    # a first small batch made of the named shapes only, then the rest in chunks; stop at the first
    # chunk with oracle hits (the verdict is a VIOLATION anyway and hanging operations are costly)
    smoke = [dict(ops=[list(o) for o in template(ctx.rng)] + [["patch"], ["set", "/c/x/y", "i1"]]) for _ in range(24)]
    smoke += [dict(ops=gen_focus(ctx.rng)) for _ in range(40)]
    smoke += [dict(ops=gen_relocate(ctx.rng)) for _ in range(16)]
    smoke += [dict(ops=gen_refused(ctx.rng)) for _ in range(24)]
    # (the enumerated histories are tiny: larger chunks, otherwise starting the workers costs more than the cases)
    batches = [smoke] + [cases[i : i + 400] for i in range(0, n_gen, 400)] + [cases[i : i + 4000] for i in range(n_gen, len(cases), 4000)]
    cases = smoke + cases
    for b in batches:
        ctx.correspond("overlay-vs-plain-vs-models", MOD, b, lines, "drv_ov", compare=compare, timeout=20.0)
        if ctx.oracle_hits:
            ctx.notes.append("stopped after the first batch with oracle hits")
            break
    ctx.dist["raw-containers-same"] += _raw_stats["same"]
    ctx.dist["raw-containers-differ(diagnostic)"] += _raw_stats["diff"]
    for c in cases:
        for o in c["ops"]:
            ctx.dist["op:" + o[0]] += 1
        ctx.dist["containers:%d" % (1 + sum(1 for o in c["ops"] if o[0] == "patch"))] += 1


def signature(case, detail):
    if isinstance(detail, dict):
        op = detail.get("op") or ["?"]
        return "%s:%s:%s" % (ID, detail.get("kind"), op[0])
    return "%s:%s" % (ID, str(detail)[:40])


def _oracle_of(r, want, timeout):
    if "timeout" in r:
        return dict(kind="does-not-terminate", limit_s=timeout) if want in (None, "does-not-terminate") else None
    if "ok" not in r:
        return None
    for d in r["ok"]["oracle"]:
        if want is None or d.get("kind") == want:
            return d
    return None


def _fails_many(cands, want, timeout=15.0):
    """run all candidate op lists on the real code (parallel workers); list of oracle details / None"""
    from .. import pool

    _tmp_root()
    res = pool.run(MOD, "impl", [dict(ops=o) for o in cands], timeout=timeout, startup=30.0)
    return [_oracle_of(r, want, timeout) for r in res]


_shrunk = {}


def shrink(ctx, case, detail):
    """delta debugging on the operation list; every round tests all candidates in one parallel
    batch on the real code. Only the first hit of each (kind, operation) class is minimised."""
    want = detail.get("kind") if isinstance(detail, dict) else None
    pre = signature(case, detail)
    if _shrunk.get(pre, 0) >= 2:
        return case, detail
    _shrunk[pre] = _shrunk.get(pre, 0) + 1
    ops = [[x for x in o if x != "rel"] for o in case["ops"]]
    if isinstance(detail, dict) and isinstance(detail.get("step"), int):
        ops = ops[: detail["step"] + 1]
    first = _fails_many([ops, case["ops"]], want)
    if first[0] is None:
        if first[1] is None:
            return case, detail
        ops = case["ops"]
    best = first[0] or first[1]
    rounds = 0
    n = 2
    while len(ops) >= 2 and rounds < (8 if want == "does-not-terminate" else 25):
        rounds += 1
        chunk = max(1, len(ops) // n)
        subsets = [ops[i : i + chunk] for i in range(0, len(ops), chunk)]
        cands = [[x for j, sb in enumerate(subsets) if j != i for x in sb] for i in range(len(subsets))]
        cands = [c for c in cands if c]
        res = _fails_many(cands, want)
        hit = next((k for k, d in enumerate(res) if d is not None), None)
        if hit is not None:
            ops, best = cands[hit], res[hit]
            n = max(n - 1, 2)
        else:
            if n >= len(ops):
                break
            n = min(len(ops), n * 2)
    return dict(ops=ops), best


def search(ctx):
    """failing-input search after a broken obligation / correspondence: more seeds, oracle only"""
    from .. import pool

    _tmp_root()
    for s in range(1, 4):
        sub = core.Ctx(ID, "quick", ctx.seed + 7919 * s)
        cases = gen_cases(sub, quick=True)
        if s == 3:
            cases += [dict(ops=h) for h in enum_small() if len(h) <= 2]
        res = pool.run(MOD, "impl", cases, timeout=40.0)
        ctx.search_log.append("seed %d: %d histories, lock-step oracle only" % (sub.seed, len(cases)))
        for c, r in zip(cases, res):
            if "timeout" in r:
                return shrink(ctx, c, dict(kind="does-not-terminate", limit_s=40.0))
            if "ok" in r and r["ok"]["oracle"]:
                return shrink(ctx, c, r["ok"]["oracle"][0])
    return None


def replay(ctx, rep):
    from .. import pool

    _tmp_root()

    case = rep.get("case")
    if not case:
        print(core.canon(rep)[:3000])
        return 0
    r = pool.run_one(MOD, "impl", case, timeout=60)
    print("implementation (IH5 | plain h5py):")
    if "ok" in r:
        for l in r["ok"]["out"]:
            print("   ", l[:300])
        print("oracle:", core.canon(r["ok"]["oracle"])[:3000])
    else:
        print("   ", r)
    print("model (W | Spec):")
    for l in lean.run_driver("drv_ov", [lines(case)])[0]:
        print("   ", l[:300])
    return 1 if ("timeout" in r or ("ok" in r and r["ok"]["oracle"])) else 0
