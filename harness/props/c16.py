"""C16 — Plugin references order, match and resolve by semantic version.

Lean: Model/Plugin.lean, Proofs/Plugin.lean, Props/C16.lean, Gen/PluginRef.lean (translated
from /repo on every run) + Bridge/PluginRef.lean.
Correspondence: real `PluginRef` comparisons / `PluginGroup` version tables / entry point
name conversion vs. the model driver `drv_plg`.
Oracle (real code only): order axioms, hash consistency, supports, sortedness, resolve = max.
"""
import itertools

from .. import core, lean
from .. import translate as tr

ID = "C16"
MOD = "harness.props.c16"
T = "MetadorModel.C16."
LEAN = dict(
    modules=["MetadorModel.Props.C16", "MetadorModel.Bridge.PluginRef", "MetadorModel.Bridge.Metaclass"],
    theorems=[T + n for n in [
        "eq_iff_same", "hash_consistent", "operators_are_lex", "le_refl", "le_antisymm", "le_trans",
        "le_total", "lt_irrefl", "lt_iff_le_not_eq", "gt_iff_lt_swap", "ge_iff_le_swap", "trichotomy",
        "supports_iff", "versions_sorted_all", "versions_order_independent", "resolve_spec",
        "resolve_none_iff", "resolve_latest", "epname_roundtrip", "qualname_has_no_separator",
        "legacy_lt_not_irreflexive", "marked_base_refused"]]
    + ["MetadorModel.Bridge.PluginRef." + n for n in ["gen_eq", "gen_ge", "gen_supports", "gen_hashKey", "gen_cmp_ops"]]
    + ["MetadorModel.Bridge.Metaclass.gen_newRaises"],
    drivers=["drv_plg"],
)


def translate(ctx):
    import os
    text = tr.gen_pluginref()
    changed = lean.write_if_changed(os.path.join(lean.LEAN, "MetadorModel", "Gen", "PluginRef.lean"), text)
    changed2 = lean.write_if_changed(os.path.join(lean.LEAN, "MetadorModel", "Gen", "Metaclass.lean"), tr.gen_metaclass())
    return "Gen/PluginRef.lean %s, Gen/Metaclass.lean %s" % ("rewritten" if changed else "unchanged", "rewritten" if changed2 else "unchanged")


def hx(s):
    return s.encode().hex() if s else "-"


def vs(v):
    return "-" if v is None else "%d.%d.%d" % tuple(v)


# ----------------------------------------------------------------------------- real code
_pg = {}


def _group(name):
    """A synthetic plugin group (no entry points) of the real PluginGroup class."""
    from metador_core.plugin.interface import PluginGroup

    if name not in _pg:
        ns = {}
        exec(
            "class VTGroup(PluginGroup):\n"
            "    class Plugin:\n"
            "        name = %r\n"
            "        version = (0, 1, 0)\n"
            "        plugin_class = object\n"
            "    def check_plugin(self, ep_name, plugin):\n"
            "        pass\n" % name,
            {"PluginGroup": PluginGroup},
            ns,
        )
        _pg[name] = ns["VTGroup"]
    return _pg[name]({})


class _EP:
    class dist:
        name = "vt-pkg"
        version = "0.0.0"


def impl(case):
    from metador_core.schema.plugins import PluginRef
    from metador_core.plugin import types as pt
    from metador_core.plugin.util import register_in_group

    kind = case["kind"]
    out, oracle, tags = [], [], []
    if kind == "cmp":
        refs = [PluginRef(group=g, name=n, version=tuple(v)) for g, n, v in case["refs"]]
        for a in refs:
            for b in refs:
                r = dict(eq=a == b, ge=a >= b, gt=a > b, le=a <= b, lt=a < b, sup=a.supports(b), hash=hash(a) == hash(b))
                for k, v in r.items():
                    if not isinstance(v, bool):
                        oracle.append(dict(kind="non-bool-comparison", op=k, a=case["refs"][refs.index(a)], b=case["refs"][refs.index(b)], value=repr(v)))
                out.append(" ".join("%s=%s" % (k, "T" if v else "F") for k, v in r.items()))
                key = lambda x: (x.group, x.name, tuple(x.version))  # noqa: E731
                exp = dict(eq=key(a) == key(b), ge=key(a) >= key(b), gt=key(a) > key(b), le=key(a) <= key(b), lt=key(a) < key(b),
                           sup=(a.group == b.group and a.name == b.name and a.version[0] == b.version[0] and a.version[1] >= b.version[1]))
                for k, e in exp.items():
                    if bool(r[k]) != e:
                        oracle.append(dict(kind="operator-not-lexicographic", op=k, a=[a.group, a.name, list(a.version)], b=[b.group, b.name, list(b.version)], got=repr(r[k])))
                if exp["eq"] and hash(a) != hash(b):
                    oracle.append(dict(kind="equal-but-different-hash", a=[a.group, a.name, list(a.version)]))
        # sorted() and set membership agree with the specification order
        srt = sorted(refs)
        ks = [(x.group, x.name, tuple(x.version)) for x in srt]
        if ks != sorted(ks):
            oracle.append(dict(kind="sorted-not-ascending", refs=case["refs"]))
        if len(set(refs)) != len(set((x.group, x.name, tuple(x.version)) for x in refs)):
            oracle.append(dict(kind="set-membership-inconsistent", refs=case["refs"]))
    elif kind == "tbl":
        pg = _group(case["group"])
        registered = []
        for op in case["ops"]:
            if op[0] == "reg":
                _, via, name, ver = op
                ver = tuple(ver)
                if via == "ep":
                    pg._add_ep(pt.to_ep_name(name, ver), _EP())
                else:
                    cls = type("P", (object,), {"Plugin": type("Plugin", (), {"name": name, "version": ver})})
                    register_in_group(pg, cls, violently=True)
                registered.append((name, ver))
                out.append("ok")
            elif op[0] == "vers":
                _, name, ver = op
                l = pg.versions(name, tuple(ver) if ver else None)
                out.append(" ".join(["vers"] + [vs(r.version) for r in l]))
                mine = sorted(v for n, v in registered if n == name)
                if ver:
                    mine = [v for v in mine if v[0] == ver[0] and v[1] >= ver[1]]
                if [tuple(r.version) for r in l] != mine:
                    oracle.append(dict(kind="versions-not-sorted-all", name=name, version=ver, got=[list(r.version) for r in l], expected=[list(v) for v in mine]))
                if len(mine) > 2:
                    tags.append("versions>2")
            elif op[0] == "res":
                _, name, ver = op
                r = pg.resolve(name, tuple(ver) if ver else None)
                out.append("res " + (vs(r.version) if r is not None else "none"))
                mine = sorted(v for n, v in registered if n == name and (not ver or (v[0] == ver[0] and v[1] >= ver[1])))
                exp = mine[-1] if mine else None
                got = tuple(r.version) if r is not None else None
                if got != exp:
                    oracle.append(dict(kind="resolve-not-newest-supporting", name=name, version=ver, got=got, expected=exp))
                tags.append("resolve-hit" if exp else "resolve-none")
            elif op[0] == "has":
                _, name, ver = op
                key = (name, tuple(ver)) if ver else name
                out.append("has " + ("T" if key in pg else "F"))
    elif kind == "ep":
        for op in case["ops"]:
            if op[0] == "toep":
                _, name, ver = op
                try:
                    e = pt.to_ep_name(name, tuple(ver))
                    out.append("ep " + hx(str(e)))
                    back = pt.from_ep_name(e)
                    if back != (name, tuple(ver)):
                        oracle.append(dict(kind="epname-roundtrip", name=name, version=ver, back=[back[0], list(back[1])]))
                    tags.append("ep-valid")
                except (TypeError, ValueError):
                    out.append("err")
                    tags.append("ep-invalid")
            elif op[0] == "fromep":
                try:
                    n, v = pt.from_ep_name(pt.EPName(op[1]))
                    out.append("name %s %s" % (hx(n), vs(v)))
                    if str(pt.to_ep_name(n, v)) != op[1] and all(len(x) == len(str(int(x))) for x in op[1].split("__")[1].split(".")):
                        oracle.append(dict(kind="epname-roundtrip-back", ep=op[1]))
                    tags.append("fromep-valid")
                except (TypeError, ValueError):
                    out.append("err")
                    tags.append("fromep-invalid")
    elif kind == "marked":
        # a plugin class obtained without stating a version cannot be subclassed
        from metador_core.plugins import schemas
        from metador_core.plugin.metaclass import UndefVersion

        for name in case["names"]:
            marked = schemas.get(name)
            vers = schemas.versions(name)[-1].version
            fixed = schemas.get(name, vers)
            res = []
            for bases, want_err in (((marked,), True), ((fixed,), False)):
                try:
                    type(marked)("Sub", bases, {})
                    res.append("ok")
                except TypeError:
                    res.append("TypeError")
                if (res[-1] == "TypeError") != want_err:
                    oracle.append(dict(kind="marked-subclassing", name=name, marked_position=[0] if want_err else [], nbases=1, got=res[-1]))
            if not UndefVersion._is_marked(marked) or UndefVersion._is_marked(fixed):
                oracle.append(dict(kind="marking-wrong", name=name))
            out = None
            tags.append("marked")
        # every base position, with further bases (a plugin group whose classes allow multiple inheritance)
        from metador_core.plugin.interface import PluginGroup
        from metador_core.plugin.metaclass import PluginMetaclassMixin

        Base = PluginMetaclassMixin("VTBase", (), {})
        ns = {}
        exec("class VTMGroup(PluginGroup):\n    class Plugin:\n        name = 'vtm'\n        version = (0, 1, 0)\n        plugin_class = Base\n"
             "    def check_plugin(self, ep_name, plugin):\n        pass\n", {"PluginGroup": PluginGroup, "Base": Base}, ns)
        pgm = ns["VTMGroup"]({})
        for ver in ((0, 1, 0), (0, 2, 0)):
            cls = PluginMetaclassMixin("Thing", (Base,), {"Plugin": type("Plugin", (), {"name": "vt.thing", "version": ver})})
            register_in_group(pgm, cls, violently=True)
        marked = pgm.get("vt.thing")
        marked2 = pgm["vt.thing"]
        fixed = pgm.get("vt.thing", (0, 1, 0))
        Mix = type("VTMixin", (), {})
        Mix2 = type("VTMixin2", (), {})
        variants = [((marked,), True), ((fixed,), False), ((Mix, marked), True), ((marked, Mix), True), ((Mix, Mix2, marked), True),
                    ((Mix, marked2, Mix2), True), ((Mix, fixed), False), ((fixed, Mix), False), ((Mix, Mix2), False)]
        for bases, want_err in variants:
            try:
                PluginMetaclassMixin("Sub", bases, {})
                got = "ok"
            except TypeError:
                got = "TypeError"
            if (got == "TypeError") != want_err:
                oracle.append(dict(kind="marked-subclassing", name="vt.thing", marked_position=[i for i, b in enumerate(bases) if b in (marked, marked2)], nbases=len(bases), got=got))
        if not UndefVersion._is_marked(marked) or not UndefVersion._is_marked(marked2) or UndefVersion._is_marked(fixed):
            oracle.append(dict(kind="marking-wrong", name="vt.thing"))
    return dict(out=out, oracle=oracle, tags=tags)


# ----------------------------------------------------------------------------- model lines
def lines(case):
    kind = case["kind"]
    L = []
    if kind == "cmp":
        for a in case["refs"]:
            for b in case["refs"]:
                L.append("cmp %s %s %s %s %s %s" % (hx(a[0]), hx(a[1]), vs(a[2]), hx(b[0]), hx(b[1]), vs(b[2])))
    elif kind == "tbl":
        L.append("group " + hx(case["group"]))
        for op in case["ops"]:
            if op[0] == "reg":
                L.append("reg %s %s" % (hx(op[2]), vs(op[3])))
            else:
                L.append("%s %s %s" % (op[0], hx(op[1]), vs(op[2])))
    elif kind == "ep":
        for op in case["ops"]:
            if op[0] == "toep":
                L.append("toep %s %s" % (hx(op[1]), vs(op[2])))
            else:
                L.append("fromep " + hx(op[1]))
    return L


def compare(case, ir, mo):
    if case["kind"] == "tbl":
        return core.default_compare(case, dict(out=["ok"] + ir["out"]), mo)
    if case["kind"] == "marked":
        return None
    return core.default_compare(case, ir, mo)


# ----------------------------------------------------------------------------- generators
GROUPS = ["g", "h"]
NAMES = ["aa", "ab"]
VERS = [(a, b, c) for a in range(3) for b in range(3) for c in range(3)]


def small_refs():
    return [[g, n, list(v)] for g in GROUPS for n in NAMES for v in VERS]


def rand_name(rng, valid=True):
    def seg():
        s = rng.choice("abcxyz") + rng.choice("abc019")
        for _ in range(rng.randrange(0, 4)):
            if rng.random() < 0.4:
                s += rng.choice("_-")
            s += rng.choice("abc019z")
        return s
    n = ".".join(seg() for _ in range(rng.randrange(1, 4)))
    if not valid:
        muts = [lambda s: s + "_", lambda s: s.replace("a", "__", 1) if "a" in s else s + "__x", lambda s: "_" + s,
                lambda s: s.upper(), lambda s: s + ".", lambda s: "1" + s, lambda s: s[:1], lambda s: s + "-", lambda s: s.replace(".", "..", 1) if "." in s else "." + s,
                lambda s: s + "__1.0.0", lambda s: ""]
        n = rng.choice(muts)(n)
    return n


def rand_ver(rng):
    return [rng.choice([0, 1, 2, 9, 10, 11, 100]) for _ in range(3)]


def gen_cases(ctx):
    rng = ctx.rng
    cases = []
    allrefs = small_refs()
    # comparisons: chunks of refs, all ordered pairs inside a chunk (thorough: all pairs of the space)
    if ctx.quick:
        for _ in range(40):
            cases.append(dict(kind="cmp", refs=rng.sample(allrefs, 12)))
    else:
        # every ordered pair of the 108-element space appears in some chunk: pair up blocks of 12
        blocks = [allrefs[i:i + 12] for i in range(0, len(allrefs), 12)]
        for i in range(len(blocks)):
            for j in range(i, len(blocks)):
                cases.append(dict(kind="cmp", refs=blocks[i] + (blocks[j] if j != i else [])))
        ctx.exhaustive_spaces.append("all ordered pairs of 108 references (2 groups x 2 names x 3^3 versions): comparison operators, supports, hash")
    # wide versions / names of different length / prefix-related names
    wide = [[g, n, v] for g in ["g", "gg"] for n in ["aa", "aaa", "ab", "b0"] for v in ([1, 9, 0], [1, 10, 0], [1, 2, 10], [1, 2, 9], [10, 0, 0], [9, 9, 9])]
    for _ in range(6 if ctx.quick else 40):
        cases.append(dict(kind="cmp", refs=rng.sample(wide, 10)))
    # version tables
    nt = 60 if ctx.quick else 1500
    for i in range(nt):
        names = ["vt.aa", "vt.ab", "vt.aa-b"][: rng.randrange(1, 4)]
        ops = []
        pool_v = [rand_ver(rng) for _ in range(rng.randrange(1, 6))]
        for _ in range(rng.randrange(1, 9)):
            r = rng.random()
            n = rng.choice(names)
            if r < 0.5:
                ops.append(["reg", rng.choice(["ep", "manual"]), n, rng.choice(pool_v)])
            elif r < 0.65:
                ops.append(["vers", n, rng.choice([None, rng.choice(pool_v), rand_ver(rng)])])
            elif r < 0.9:
                ops.append(["res", n, rng.choice([None, rng.choice(pool_v), rand_ver(rng)])])
            else:
                ops.append(["has", n, rng.choice([None, rng.choice(pool_v)])])
        ops.append(["vers", names[0], None])
        ops.append(["res", names[0], rng.choice(pool_v)])
        cases.append(dict(kind="tbl", group=rng.choice(["schema", "vtgrp"]), ops=ops))
    if not ctx.quick:
        # all subsets x all registration orders of <= 4 versions of one name, both paths
        import itertools as it
        base = [[1, 0, 0], [1, 2, 0], [1, 10, 1], [2, 0, 0]]
        for k in range(1, 5):
            for sub in it.combinations(base, k):
                for perm in it.permutations(sub):
                    for via in ("ep", "manual"):
                        ops = [["reg", via, "vt.aa", v] for v in perm]
                        ops += [["vers", "vt.aa", None]] + [["res", "vt.aa", q] for q in ([1, 0, 0], [1, 1, 0], [1, 11, 0], [2, 0, 0], [3, 0, 0], None)]
                        cases.append(dict(kind="tbl", group="schema", ops=ops))
        ctx.exhaustive_spaces.append("all subsets x all registration orders of <=4 versions of one plugin name, both registration paths, 6 resolve requests each")
    # entry point names
    ne = 40 if ctx.quick else 600
    for i in range(ne):
        ops = []
        for _ in range(8):
            valid = rng.random() < 0.7
            n = rand_name(rng, valid)
            v = rand_ver(rng)
            if rng.random() < 0.5:
                ops.append(["toep", n, v])
            else:
                s = "%s__%d.%d.%d" % (n, *v)
                if rng.random() < 0.3:
                    s = rng.choice([s + ".1", s.replace("__", "_", 1), s + "__1.0.0", s.replace(".", "", 1), s[:-2], s + "a", "__" + s, s.replace("__", "___")])
                ops.append(["fromep", s])
        cases.append(dict(kind="ep", ops=[o for o in ops if all(ord(ch) < 128 for ch in str(o))]))
    return cases


def run(ctx):
    ctx.rule = ("cases: (cmp) sets of references, all ordered pairs compared with ==,>=,>,<=,<,supports,hash; (tbl) registration/"
                "query sequences on a synthetic PluginGroup via _add_ep and register_in_group; (ep) to_ep_name/from_ep_name on grammar-generated "
                "and mutated names; (marked) subclassing version-less plugin handles. Non-trivial = tagged: >2 versions registered for the queried name, "
                "resolve with/without supporting version, valid/invalid entry point names, marked-class check.")
    ctx.trusted.append("harness/translate.py (Python ast -> Lean) for PluginRef.__eq__/__ge__/supports/__hash__; bridge theorems re-checked on every run")
    ctx.assumptions += ["Python str comparison = lexicographic by code point = Lean String order (ASCII names used)",
                        "functools.total_ordering derives <,<=,> from __ge__ as in CPython's functools.py (modelled in Plugin.ltFrom/leFrom/gtFrom; compared on every pair)",
                        "list.sort() is a stable sort using only < (modelled as stable insertion sort)"]
    cases = core.load_corpus(ID) + gen_cases(ctx)
    ctx.correspond("plugin-model", MOD, [c for c in cases if c["kind"] != "marked"], lines, "drv_plg", compare=compare, timeout=60)
    # marked-base check (oracle only, real plugin system)
    res = __import__("harness.pool", fromlist=["x"]).run(MOD, "impl", [dict(kind="marked", names=["core.file", "core.dir", "core.bib"])], timeout=120, workers=1)
    r = res[0]
    if "ok" in r:
        for d in r["ok"]["oracle"]:
            ctx.oracle_hit(dict(kind="marked"), d)
        ctx.note_case(dict(kind="marked"), ["marked"])
    elif "timeout" in r:
        raise lean.InfraError("marked-base probe timed out")
    else:
        raise lean.InfraError("marked-base probe crashed: %s" % r)


def signature(case, detail):
    return "%s:%s" % (ID, detail.get("kind") if isinstance(detail, dict) else str(detail)[:40])


def shrink(ctx, case, detail):
    from .. import pool
    if case.get("kind") in ("tbl", "ep") and len(case.get("ops", [])) > 1:
        want = detail.get("kind") if isinstance(detail, dict) else None

        def fails(ops):
            r = pool.run_one(MOD, "impl", dict(case, ops=ops), timeout=60)
            return "ok" in r and any(d.get("kind") == want for d in r["ok"]["oracle"])
        ops = core.ddmin(case["ops"], fails, max_tests=60)
        r = pool.run_one(MOD, "impl", dict(case, ops=ops), timeout=60)
        ds = [d for d in r.get("ok", {}).get("oracle", []) if d.get("kind") == want]
        if ds:
            return dict(case, ops=ops), ds[0]
    if case.get("kind") == "cmp" and isinstance(detail, dict) and "a" in detail and "b" in detail:
        return dict(kind="cmp", refs=[detail["a"], detail["b"]]), detail
    return case, detail


def search(ctx):
    """Failing-input search after a broken obligation/correspondence: more seeds, larger space,
    oracle only (the oracle needs no model)."""
    from .. import pool
    import random
    for s in range(1, 4):
        sub = core.Ctx(ID, "thorough" if s == 3 else "quick", ctx.seed + 7919 * s)
        cases = gen_cases(sub)
        res = pool.run(MOD, "impl", cases, timeout=60)
        ctx.search_log.append("seed %d: %d cases, oracle only" % (sub.seed, len(cases)))
        for c, r in zip(cases, res):
            if "ok" in r and r["ok"]["oracle"]:
                return shrink(ctx, c, r["ok"]["oracle"][0])
    return None


def replay(ctx, rep):
    from .. import pool
    case = rep.get("case")
    if not case:
        print(core.canon(rep)[:2000])
        return 0
    r = pool.run_one(MOD, "impl", case, timeout=120)
    print("implementation:", core.canon(r)[:3000])
    if case.get("kind") != "marked":
        print("model:", lean.run_driver("drv_plg", [lines(case)]))
    return 1 if ("ok" in r and r["ok"]["oracle"]) else 0
