"""C16 — Plugin references order, match and resolve by semantic version.

Lean: Model/Plugin.lean, Proofs/Plugin.lean, Props/C16.lean, Gen/PluginRef.lean, Gen/Metaclass.lean,
Gen/PluginGroupFns.lean (translated from /repo on every run by harness/translate.py and
harness/translate_c16.py) + Bridge/PluginRef.lean, Bridge/Metaclass.lean, Bridge/PluginGroupFns*.lean.
Correspondence: real `PluginRef` comparisons / `PluginGroup` version tables / entry point
name conversion vs. the model driver `drv_plg`.
Oracle (real code only): order axioms, hash consistency, supports, sortedness, resolve = max.

Histories: references are obtained in every way the library offers (constructor, copy,
copy(update=...), deepcopy, pickle, parse_obj/parse_raw, construct, group subclasses) from
originals that were hashed / compared / used as keys before; version tables are queried
(versions / resolve / get / [] / in / keys) before, between and after registrations through
both registration paths on one group object.
"""
import itertools

from .. import core, lean
from .. import translate as tr

ID = "C16"
MOD = "harness.props.c16"
T = "MetadorModel.C16."
LEAN = dict(
    modules=["MetadorModel.Props.C16", "MetadorModel.Bridge.PluginRef", "MetadorModel.Bridge.Metaclass",
             "MetadorModel.Bridge.PluginGroupFnsDict", "MetadorModel.Bridge.PluginGroupFnsCmp", "MetadorModel.Bridge.PluginGroupFnsRe", "MetadorModel.Bridge.PluginGroupFnsEp",
             "MetadorModel.Bridge.PluginGroupFns", "MetadorModel.Bridge.PluginGroupFnsReg"],
    theorems=[T + n for n in [
        "eq_iff_same", "hash_consistent", "operators_are_lex", "le_refl", "le_antisymm", "le_trans",
        "le_total", "lt_irrefl", "lt_iff_le_not_eq", "gt_iff_lt_swap", "ge_iff_le_swap", "trichotomy",
        "supports_iff", "versions_sorted_all", "versions_order_independent", "resolve_spec",
        "resolve_none_iff", "resolve_latest", "resolve_order_independent", "supports_refl", "supports_trans",
        "resolve_serves_weaker", "keys_lists_registered", "keys_of_name", "contains_iff", "get_is_resolve", "epname_roundtrip", "qualname_has_no_separator",
        "legacy_lt_not_irreflexive", "marked_base_refused"]]
    + ["MetadorModel.Bridge.PluginRef." + n for n in ["gen_eq", "gen_ge", "gen_supports", "gen_hashKey", "gen_cmp_ops"]]
    + ["MetadorModel.Bridge.Metaclass.gen_newRaises"]
    # translated by harness/translate_c16.py (Gen/PluginGroupFns.lean); one bridge module per group of functions
    + ["MetadorModel.Bridge.PluginGroupFns." + n for n in [
        "Re.test_iff", "pySplit_dot", "pySplit_uu", "pyStrNat_eq", "pyInt_eq",
        "gen_SEMVER_STR_REGEX", "gen_NAME", "gen_QUAL_NAME", "gen_EP_NAME_REGEX",
        "gen_to_semver_str", "gen_from_semver_str", "gen_to_ep_name", "gen_from_ep_name", "gen_from_ep_name_model",
        "gen_ep_name_has_namespace",
        "gen_versions", "gen_resolve", "gen_contains", "gen_keys", "gen_get_unsafe", "gen_get", "gen_getitem",
        "gen_add_ep", "gen_manual_register", "gen_register_in_group", "gen_registration_is_register"]],
    drivers=["drv_plg"],
)


def translate(ctx):
    """regenerate Gen/PluginRef.lean, Gen/Metaclass.lean (harness/translate.py) and Gen/PluginGroupFns.lean
    (harness/translate_c16.py: entry point name functions + patterns, PluginGroup version table methods,
    register_in_group) from the current source; every part is attempted, the first failure is reported"""
    import os
    from .. import translate_c16
    info, errors = [], []
    try:
        text = tr.gen_pluginref()
        changed = lean.write_if_changed(os.path.join(lean.LEAN, "MetadorModel", "Gen", "PluginRef.lean"), text)
        changed2 = lean.write_if_changed(os.path.join(lean.LEAN, "MetadorModel", "Gen", "Metaclass.lean"), tr.gen_metaclass())
        info.append("Gen/PluginRef.lean %s, Gen/Metaclass.lean %s" % ("rewritten" if changed else "unchanged", "rewritten" if changed2 else "unchanged"))
    except Exception as e:  # noqa: BLE001
        errors.append(e)
    try:
        # a function that cannot be translated is left out of the generated file (the others stay), then
        # TranslateError is raised: only the bridge modules about that function fail to build
        info.append(translate_c16.write(lean))
    except translate_c16.TranslateError as e:
        errors.append(e)
    except Exception as e:  # noqa: BLE001
        translate_c16.write_stub(lean, "%s: %s" % (type(e).__name__, e))   # leave no text of an earlier run behind
        errors.append(e)
    if len(errors) == 1:
        raise errors[0]
    if errors:
        raise tr.TranslateError("; ".join("%s: %s" % (type(e).__name__, e) for e in errors))
    return ", ".join(info)


def hx(s):
    return s.encode().hex() if s else "-"


def vs(v):
    return "-" if v is None else "%d.%d.%d" % tuple(v)


# ----------------------------------------------------------------------------- real code
_pg = {}


def _group(name):
    """A synthetic plugin group (no entry points) of the real PluginGroup class."""
    from metador_core.plugin.interface import PluginGroup

    if name not in _pg:
        ns = {}
        exec(
            "class VTGroup(PluginGroup):\n"
            "    class Plugin:\n"
            "        name = %r\n"
            "        version = (0, 1, 0)\n"
            "        plugin_class = object\n"
            "    def check_plugin(self, ep_name, plugin):\n"
            "        pass\n" % name,
            {"PluginGroup": PluginGroup},
            ns,
        )
        _pg[name] = ns["VTGroup"]
    return _pg[name]({})


class _EP:
    """Stand-in for an importlib entry point: has a distribution and can be loaded."""
    class dist:
        name = "vt-pkg"
        version = "0.0.0"

    def __init__(self, name=None, ver=None):
        self.n, self.v = name, ver

    def load(self):
        return _plugin_cls(self.n, self.v)


def _plugin_cls(name, ver):
    return type("P", (object,), {"Plugin": type("Plugin", (), {"name": name, "version": tuple(ver)})})


HOWS = ["new", "copy", "copy-update", "copy-update-all", "deepcopy", "copy-deep", "pickle", "pickle-copy-update", "parse_obj",
        "parse_raw", "construct", "validate", "sub", "sub-parse", "sub-copy-update"]
_sub = {}


def _subclass(group):
    from metador_core.schema.plugins import PluginRef
    if group not in _sub:
        _sub[group] = PluginRef._subclass_for(group)
    return _sub[group]


def _derive(how, val, src, srcval):
    """A reference with the value `val` obtained in the way `how` (from the already used object `src`
    of value `srcval`, where the way needs a source)."""
    import copy
    import pickle
    from metador_core.schema.plugins import PluginRef

    g, n, v = val[0], val[1], tuple(val[2])
    diff = {}
    if src is not None:
        diff = {k: x for k, x, y in (("group", g, srcval[0]), ("name", n, srcval[1]), ("version", v, tuple(srcval[2]))) if x != y}
    full = dict(group=g, name=n, version=v)
    if how == "copy":
        return src.copy(update=diff) if diff else src.copy()
    if how == "copy-update":
        return src.copy(update=diff)
    if how == "copy-update-all":
        return src.copy(update=full)
    if how == "deepcopy":
        return copy.deepcopy(src).copy(update=diff) if diff else copy.deepcopy(src)
    if how == "copy-deep":
        return src.copy(update=diff, deep=True)
    if how == "pickle":
        o = pickle.loads(pickle.dumps(src))
        return o.copy(update=diff) if diff else o
    if how == "pickle-copy-update":
        return pickle.loads(pickle.dumps(src)).copy(update=full)
    if how == "parse_obj":
        return PluginRef.parse_obj(dict(group=g, name=n, version=list(v)))
    if how == "parse_raw":
        return PluginRef.parse_raw(PluginRef(**full).json())
    if how == "construct":
        return PluginRef.construct(**full)
    if how == "validate":
        return PluginRef.validate(dict(full))
    if how == "sub":
        return _subclass(g)(name=n, version=v)
    if how == "sub-parse":
        return _subclass(g).parse_obj(dict(name=n, version=list(v)))
    if how == "sub-copy-update":
        # a group-bound reference (as handed out by `PluginGroup.PluginRef`), used, then re-targeted
        sv = tuple(srcval[2]) if srcval and srcval[0] == g else (v[0], v[1], v[2] + 1)
        sn = srcval[1] if srcval and srcval[0] == g else n
        o = _subclass(g)(name=sn, version=sv)
        _use([o])
        return o.copy(update={k: x for k, x, y in (("name", n, sn), ("version", v, sv)) if x != y})
    return PluginRef(**full)


def _use(objs):
    """What client code does with references before handing them on: hash, compare, sort, use as keys."""
    hs = [hash(o) for o in objs]
    st = set(objs)
    d = {o: i for i, o in enumerate(objs)}
    sorted(objs)
    for o in objs:
        assert o in st and o in d
    return hs


def impl(case):
    from metador_core.schema.plugins import PluginRef
    from metador_core.plugin import types as pt
    from metador_core.plugin.util import register_in_group

    kind = case["kind"]
    out, oracle, tags = [], [], []
    if kind == "cmp":
        vals = case["refs"]
        via = case.get("via") or [["new", None]] * len(vals)
        key = lambda x: (x.group, x.name, tuple(x.version))  # noqa: E731
        vkey = lambda v: (v[0], v[1], tuple(v[2]))  # noqa: E731
        # originals: one object per source value, all used (hashed / compared / keys) before anything is derived
        srcs = {}
        for how, sv in via:
            if sv is not None and vkey(sv) not in srcs:
                srcs[vkey(sv)] = PluginRef(group=sv[0], name=sv[1], version=tuple(sv[2]))
        src_hashes = _use(list(srcs.values()))
        refs = [_derive(how, v, srcs.get(vkey(sv)) if sv is not None else None, sv) for v, (how, sv) in zip(vals, via)]
        for how, _ in via:
            if how != "new":
                tags.append("derived:" + how)
        for i, a in enumerate(refs):
            if key(a) != vkey(vals[i]):
                raise AssertionError("harness: derived reference has the wrong value %r %r" % (key(a), vals[i]))
            for j, b in enumerate(refs):
                r = dict(eq=a == b, ge=a >= b, gt=a > b, le=a <= b, lt=a < b, sup=a.supports(b), hash=hash(a) == hash(b))
                for k, v in r.items():
                    if not isinstance(v, bool):
                        oracle.append(dict(kind="non-bool-comparison", op=k, a=vals[i], b=vals[j], a_via=via[i], b_via=via[j], value=repr(v)))
                out.append(" ".join("%s=%s" % (k, "T" if v else "F") for k, v in r.items()))
                exp = dict(eq=key(a) == key(b), ge=key(a) >= key(b), gt=key(a) > key(b), le=key(a) <= key(b), lt=key(a) < key(b),
                           sup=(a.group == b.group and a.name == b.name and a.version[0] == b.version[0] and a.version[1] >= b.version[1]))
                for k, e in exp.items():
                    if bool(r[k]) != e:
                        oracle.append(dict(kind="operator-not-lexicographic", op=k, a=vals[i], b=vals[j], a_via=via[i], b_via=via[j], got=repr(r[k])))
                if exp["eq"] and hash(a) != hash(b):
                    oracle.append(dict(kind="equal-but-different-hash", a=vals[i], b=vals[j], a_via=via[i], b_via=via[j]))
                if exp["eq"] != (a in {b}) or exp["eq"] != ({b: 1}.get(a) == 1) or exp["eq"] != (a in [b]):
                    oracle.append(dict(kind="set-membership-inconsistent", a=vals[i], b=vals[j], a_via=via[i], b_via=via[j],
                                       in_set=a in {b}, in_dict={b: 1}.get(a) == 1, in_list=a in [b]))
        # every reference against a freshly constructed one of the same value and against the used originals
        pool_set = set(srcs.values())
        for i, a in enumerate(refs):
            f = PluginRef(group=vals[i][0], name=vals[i][1], version=tuple(vals[i][2]))
            if not (a == f and f == a and a <= f and a >= f and not a < f and not a > f and not a != f):
                oracle.append(dict(kind="operator-not-lexicographic", op="vs-fresh", a=vals[i], b=vals[i], a_via=via[i], b_via=["new", None], got="differs from an equal fresh reference"))
            if hash(a) != hash(f):
                oracle.append(dict(kind="equal-but-different-hash", a=vals[i], b=vals[i], a_via=via[i], b_via=["new", None]))
            if a not in {f} or f not in {a} or {f: 1}.get(a) != 1 or {a: 1}.get(f) != 1 or (a in pool_set) != (vkey(vals[i]) in srcs):
                oracle.append(dict(kind="set-membership-inconsistent", a=vals[i], b=vals[i], a_via=via[i], b_via=["new", None]))
        # the originals are unaffected by having been copied / pickled
        for (kv, o), h in zip(srcs.items(), src_hashes):
            f = PluginRef(group=kv[0], name=kv[1], version=kv[2])
            if hash(o) != h or hash(o) != hash(f) or not o == f:
                oracle.append(dict(kind="equal-but-different-hash", a=[kv[0], kv[1], list(kv[2])], b=[kv[0], kv[1], list(kv[2])], a_via=["new", None], b_via=["new", None], note="original after use"))
        # sorted() and set membership agree with the specification order
        srt = sorted(refs)
        ks = [key(x) for x in srt]
        if ks != sorted(ks):
            oracle.append(dict(kind="sorted-not-ascending", refs=vals, via=via))
        if len(set(refs)) != len(set(key(x) for x in refs)):
            oracle.append(dict(kind="set-membership-inconsistent", refs=vals, via=via))
    elif kind == "xproc":
        # references that were used as keys, pickled, and read by another interpreter (other str hash seed)
        import os
        import pickle
        import subprocess
        import sys
        import tempfile
        refs = [PluginRef(group=g, name=n, version=tuple(v)) for g, n, v in case["refs"]]
        if case.get("use", True):
            _use(refs)
        fd, path = tempfile.mkstemp(suffix=".pkl")
        try:
            with os.fdopen(fd, "wb") as f:
                pickle.dump(refs, f)
            prog = ("import sys, pickle, json\nsys.path.insert(0, %r)\nimport harness.envshim\n"
                    "from metador_core.schema.plugins import PluginRef\n"
                    "refs = pickle.load(open(%r, 'rb'))\nbad = []\n"
                    "for i, r in enumerate(refs):\n"
                    "    f = PluginRef(group=r.group, name=r.name, version=r.version)\n"
                    "    c = r.copy()\n"
                    "    for how, x in (('unpickled', r), ('unpickled-copy', c)):\n"
                    "        if not (x == f and f == x and x <= f and x >= f): bad.append([i, how, 'eq'])\n"
                    "        if hash(x) != hash(f): bad.append([i, how, 'hash'])\n"
                    "        if x not in {f} or f not in {x} or {f: 1}.get(x) != 1: bad.append([i, how, 'member'])\n"
                    "print('RESULT ' + json.dumps(bad))\n") % (core.VERIF, path)
            env = dict(os.environ)
            env["PYTHONHASHSEED"] = "2" if env.get("PYTHONHASHSEED") == "1" else "1"
            p = subprocess.run([sys.executable, "-c", prog], env=env, stdout=subprocess.PIPE, stderr=subprocess.PIPE, text=True, timeout=100)
            res = [l for l in p.stdout.splitlines() if l.startswith("RESULT ")]
            if p.returncode != 0 or not res:
                raise RuntimeError("harness: child interpreter failed: %s" % (p.stderr[-600:],))
            import json
            for i, how, what in json.loads(res[0][7:]):
                k = {"eq": "operator-not-lexicographic", "hash": "equal-but-different-hash", "member": "set-membership-inconsistent"}[what]
                oracle.append(dict(kind=k, a=case["refs"][i], b=case["refs"][i], a_via=[how + "-in-other-process", case["refs"][i]], b_via=["new", None]))
        finally:
            os.unlink(path)
        out = None
        tags.append("pickle-other-process")
    elif kind == "tbl":
        pg = _group(case["group"])
        registered = []

        def newest(name, ver):
            mine = sorted(v for n, v in registered if n == name and (not ver or (v[0] == ver[0] and v[1] >= ver[1])))
            return mine[-1] if mine else None

        def keyof(op):
            name, ver = op[1], op[2]
            if len(op) > 3 and op[3] == "r" and ver:
                return pg.PluginRef(name=name, version=tuple(ver))
            return (name, tuple(ver)) if ver else name

        nreg = 0
        last_reg = max([i for i, o in enumerate(case["ops"]) if o[0] == "reg"], default=-1)
        for oi, op in enumerate(case["ops"]):
            if op[0] != "reg" and registered:
                t = "query-between-registrations" if oi < last_reg else "query-after-registrations"
                if t not in tags:
                    tags.append(t)
            if op[0] == "reg":
                _, via, name, ver = op
                ver = tuple(ver)
                if via == "ep":
                    pg._add_ep(pt.to_ep_name(name, ver), _EP(name, ver))
                else:
                    register_in_group(pg, _plugin_cls(name, ver), violently=True)
                registered.append((name, ver))
                nreg += 1
                out.append("ok")
            elif op[0] == "vers":
                _, name, ver = op
                l = pg.versions(name, tuple(ver) if ver else None)
                out.append(" ".join(["vers"] + [vs(r.version) for r in l]))
                mine = sorted(v for n, v in registered if n == name)
                if ver:
                    mine = [v for v in mine if v[0] == ver[0] and v[1] >= ver[1]]
                if [tuple(r.version) for r in l] != mine or any(r.name != name for r in l):
                    oracle.append(dict(kind="versions-not-sorted-all", name=name, version=ver, got=[list(r.version) for r in l], expected=[list(v) for v in mine]))
                if len(mine) > 2:
                    tags.append("versions>2")
            elif op[0] == "res":
                _, name, ver = op
                r = pg.resolve(name, tuple(ver) if ver else None)
                out.append("res " + (vs(r.version) if r is not None else "none"))
                exp = newest(name, ver)
                got = tuple(r.version) if r is not None else None
                if got != exp or (r is not None and r.name != name):
                    oracle.append(dict(kind="resolve-not-newest-supporting", name=name, version=ver, got=got, expected=exp))
                tags.append("resolve-hit" if exp else "resolve-none")
            elif op[0] == "get":
                name, ver = op[1], op[2]
                k = keyof(op)
                c = pg.get(k) if not isinstance(k, str) else pg.get(name, tuple(ver) if ver else None)
                got = (c.Plugin.name, tuple(c.Plugin.version)) if c is not None else None
                out.append("get " + (vs(got[1]) if got else "none"))
                exp = newest(name, ver)
                if got != ((name, exp) if exp else None):
                    oracle.append(dict(kind="get-not-newest-supporting", name=name, version=ver, got=got, expected=exp))
                tags.append("get-hit" if exp else "get-none")
            elif op[0] == "item":
                name, ver = op[1], op[2]
                try:
                    c = pg[keyof(op)]
                    got = (c.Plugin.name, tuple(c.Plugin.version)) if c is not None else None
                    out.append("item " + (vs(got[1]) if got else "none"))
                except KeyError:
                    got = "KeyError"
                    out.append("item KeyError")
                exp = newest(name, ver)
                exact = any(n == name and (not ver or v == tuple(ver)) for n, v in registered)
                # judged only where the statement speaks: a registered (name, version) resolves to the newest supporting one
                if (got not in ("KeyError", None) and got != (name, exp)) or (exact and got in ("KeyError", None)):
                    oracle.append(dict(kind="get-not-newest-supporting", via="[]", name=name, version=ver, got=got, expected=exp))
            elif op[0] == "has":
                name, ver = op[1], op[2]
                got = keyof(op) in pg
                out.append("has " + ("T" if got else "F"))
                exact = any(n == name and (not ver or v == tuple(ver)) for n, v in registered)
                anyv = any(n == name for n, v in registered)
                # every registered version is listed; nothing is listed for a name without registrations
                if (exact and not got) or (not anyv and got):
                    oracle.append(dict(kind="membership-not-registered-versions", name=name, version=ver, got=got))
            elif op[0] == "keys":
                name = op[1]
                ks = [(r.name, tuple(r.version)) for r in pg.keys()]
                sel = [k for k in ks if name is None or k[0] == name]
                out.append(" ".join(["keys"] + ["%s@%s" % (hx(n), vs(v)) for n, v in sel]))
                for nm in sorted(set(n for n, _ in registered) | set(n for n, _ in ks)):
                    if name is not None and nm != name:
                        continue
                    if [v for n, v in ks if n == nm] != sorted(v for n, v in registered if n == nm):
                        oracle.append(dict(kind="keys-not-sorted-all", name=nm, got=[list(v) for n, v in ks if n == nm], expected=[list(v) for v in sorted(v for n, v in registered if n == nm)]))
                        break
                tags.append("keys")
    elif kind == "ep":
        for op in case["ops"]:
            if op[0] == "toep":
                _, name, ver = op
                try:
                    e = pt.to_ep_name(name, tuple(ver))
                    out.append("ep " + hx(str(e)))
                    back = pt.from_ep_name(e)
                    if back != (name, tuple(ver)):
                        oracle.append(dict(kind="epname-roundtrip", name=name, version=ver, back=[back[0], list(back[1])]))
                    tags.append("ep-valid")
                except (TypeError, ValueError):
                    out.append("err")
                    tags.append("ep-invalid")
            elif op[0] == "fromep":
                try:
                    n, v = pt.from_ep_name(pt.EPName(op[1]))
                    out.append("name %s %s" % (hx(n), vs(v)))
                    if str(pt.to_ep_name(n, v)) != op[1] and all(len(x) == len(str(int(x))) for x in op[1].split("__")[1].split(".")):
                        oracle.append(dict(kind="epname-roundtrip-back", ep=op[1]))
                    tags.append("fromep-valid")
                except (TypeError, ValueError):
                    out.append("err")
                    tags.append("fromep-invalid")
    elif kind == "marked":
        # a plugin class obtained without stating a version cannot be subclassed
        from metador_core.plugins import schemas
        from metador_core.plugin.metaclass import UndefVersion

        for name in case["names"]:
            marked = schemas.get(name)
            vers = schemas.versions(name)[-1].version
            fixed = schemas.get(name, vers)
            res = []
            for bases, want_err in (((marked,), True), ((fixed,), False)):
                try:
                    type(marked)("Sub", bases, {})
                    res.append("ok")
                except TypeError:
                    res.append("TypeError")
                if (res[-1] == "TypeError") != want_err:
                    oracle.append(dict(kind="marked-subclassing", name=name, marked_position=[0] if want_err else [], nbases=1, got=res[-1]))
            if not UndefVersion._is_marked(marked) or UndefVersion._is_marked(fixed):
                oracle.append(dict(kind="marking-wrong", name=name))
            out = None
            tags.append("marked")
        # every base position, with further bases (a plugin group whose classes allow multiple inheritance)
        from metador_core.plugin.interface import PluginGroup
        from metador_core.plugin.metaclass import PluginMetaclassMixin

        Base = PluginMetaclassMixin("VTBase", (), {})
        ns = {}
        exec("class VTMGroup(PluginGroup):\n    class Plugin:\n        name = 'vtm'\n        version = (0, 1, 0)\n        plugin_class = Base\n"
             "    def check_plugin(self, ep_name, plugin):\n        pass\n", {"PluginGroup": PluginGroup, "Base": Base}, ns)
        pgm = ns["VTMGroup"]({})
        for ver in ((0, 1, 0), (0, 2, 0)):
            cls = PluginMetaclassMixin("Thing", (Base,), {"Plugin": type("Plugin", (), {"name": "vt.thing", "version": ver})})
            register_in_group(pgm, cls, violently=True)
        marked = pgm.get("vt.thing")
        marked2 = pgm["vt.thing"]
        fixed = pgm.get("vt.thing", (0, 1, 0))
        Mix = type("VTMixin", (), {})
        Mix2 = type("VTMixin2", (), {})
        variants = [((marked,), True), ((fixed,), False), ((Mix, marked), True), ((marked, Mix), True), ((Mix, Mix2, marked), True),
                    ((Mix, marked2, Mix2), True), ((Mix, fixed), False), ((fixed, Mix), False), ((Mix, Mix2), False)]
        for bases, want_err in variants:
            try:
                PluginMetaclassMixin("Sub", bases, {})
                got = "ok"
            except TypeError:
                got = "TypeError"
            if (got == "TypeError") != want_err:
                oracle.append(dict(kind="marked-subclassing", name="vt.thing", marked_position=[i for i, b in enumerate(bases) if b in (marked, marked2)], nbases=len(bases), got=got))
        if not UndefVersion._is_marked(marked) or not UndefVersion._is_marked(marked2) or UndefVersion._is_marked(fixed):
            oracle.append(dict(kind="marking-wrong", name="vt.thing"))
    return dict(out=out, oracle=oracle, tags=tags)


# ----------------------------------------------------------------------------- model lines
def lines(case):
    kind = case["kind"]
    L = []
    if kind == "cmp":
        for a in case["refs"]:
            for b in case["refs"]:
                L.append("cmp %s %s %s %s %s %s" % (hx(a[0]), hx(a[1]), vs(a[2]), hx(b[0]), hx(b[1]), vs(b[2])))
    elif kind == "tbl":
        L.append("group " + hx(case["group"]))
        for op in case["ops"]:
            if op[0] == "reg":
                L.append("reg %s %s" % (hx(op[2]), vs(op[3])))
            elif op[0] == "keys":
                L.append("keys %s" % (hx(op[1]) if op[1] else "-"))
            else:
                L.append("%s %s %s" % (op[0], hx(op[1]), vs(op[2])))
    elif kind == "ep":
        for op in case["ops"]:
            if op[0] == "toep":
                L.append("toep %s %s" % (hx(op[1]), vs(op[2])))
            else:
                L.append("fromep " + hx(op[1]))
    return L


def compare(case, ir, mo):
    if case["kind"] == "tbl":
        return core.default_compare(case, dict(out=["ok"] + ir["out"]), mo)
    if case["kind"] in ("marked", "xproc"):
        return None
    return core.default_compare(case, ir, mo)


# ----------------------------------------------------------------------------- generators
GROUPS = ["g", "h"]
NAMES = ["aa", "ab"]
VERS = [(a, b, c) for a in range(3) for b in range(3) for c in range(3)]


def small_refs():
    return [[g, n, list(v)] for g in GROUPS for n in NAMES for v in VERS]


def rand_name(rng, valid=True):
    def seg():
        s = rng.choice("abcxyz") + rng.choice("abc019")
        for _ in range(rng.randrange(0, 4)):
            if rng.random() < 0.4:
                s += rng.choice("_-")
            s += rng.choice("abc019z")
        return s
    n = ".".join(seg() for _ in range(rng.randrange(1, 4)))
    if not valid:
        muts = [lambda s: s + "_", lambda s: s.replace("a", "__", 1) if "a" in s else s + "__x", lambda s: "_" + s,
                lambda s: s.upper(), lambda s: s + ".", lambda s: "1" + s, lambda s: s[:1], lambda s: s + "-", lambda s: s.replace(".", "..", 1) if "." in s else "." + s,
                lambda s: s + "__1.0.0", lambda s: ""]
        n = rng.choice(muts)(n)
    return n


def rand_ver(rng):
    return [rng.choice([0, 1, 2, 9, 10, 11, 100]) for _ in range(3)]


def with_via(rng, vals):
    """A cmp case whose references are obtained in random ways from random used sources (sources are drawn from
    the case's own values and their neighbours, so that zero, one or several fields differ)."""
    via = []
    for v in vals:
        how = rng.choice(HOWS)
        r = rng.random()
        if r < 0.25:
            sv = v
        elif r < 0.6:
            sv = [v[0], v[1], [v[2][0], (v[2][1] + rng.choice([0, 1])) % 3, (v[2][2] + 1) % 3]]
        elif r < 0.8:
            sv = [v[0], "ab" if v[1] != "ab" else "aa", v[2]]
        else:
            sv = rng.choice(vals)
        via.append([how, sv])
    return dict(kind="cmp", refs=vals, via=via)


def rand_query(rng, names, pool_v, requests=None):
    n = rng.choice(names)
    req = lambda: rng.choice(requests) if requests is not None else rng.choice([None, rng.choice(pool_v), rand_ver(rng)])  # noqa: E731
    k = rng.choice(["vers", "vers", "res", "res", "res", "get", "get", "item", "has", "keys"])
    if k == "keys":
        return ["keys", rng.choice([None, n])]
    if k in ("has", "get", "item"):
        return [k, n, req(), rng.choice(["t", "r"])]
    return [k, n, req()]


def stepwise_case(rng):
    """Registrations of a few versions (of one or two names, each step through either path); a fixed battery
    of queries runs at random points before, between and after them (so every query is repeated after the
    table has changed)."""
    names = ["vt.aa", "vt.ab"][: rng.randrange(1, 3)]
    major = rng.choice([0, 1, 9])
    pool_v = []
    for _ in range(rng.randrange(2, 6)):
        pool_v.append(rng.choice([[major, rng.choice([0, 1, 2, 9, 10]), rng.choice([0, 1, 10])], rand_ver(rng)]))
    requests = [None] + [rng.choice(pool_v) for _ in range(2)] + [[v[0], max(0, v[1] - 1), 0] for v in pool_v[:2]] + [[pool_v[0][0], pool_v[0][1] + 1, 0]]
    bat = [rand_query(rng, names, pool_v, requests) for _ in range(rng.randrange(2, 7))]
    ops = list(bat) if rng.random() < 0.5 else []
    nreg = rng.randrange(2, 6)
    for i in range(nreg):
        ops.append(["reg", rng.choice(["ep", "manual"]), rng.choice(names), rng.choice(pool_v)])
        if rng.random() < 0.75 or i == nreg - 1:
            ops += bat
    return dict(kind="tbl", group=rng.choice(["schema", "vtgrp"]), ops=ops)


def extra_cases(ctx):
    """Oracle-only cases (no model counterpart): marked-base probe on the real plugin system, references
    pickled into another interpreter."""
    rng = ctx.rng
    refs = [[rng.choice(GROUPS), rng.choice(NAMES), list(rng.choice(VERS))] for _ in range(6)]
    return [dict(kind="marked", names=["core.file", "core.dir", "core.bib"]), dict(kind="xproc", refs=refs, use=True)]


def gen_cases(ctx):
    rng = ctx.rng
    cases = []
    allrefs = small_refs()
    # comparisons: chunks of refs, all ordered pairs inside a chunk (thorough: all pairs of the space)
    if ctx.quick:
        for _ in range(40):
            cases.append(dict(kind="cmp", refs=rng.sample(allrefs, 12)))
        for _ in range(30):
            cases.append(with_via(rng, rng.sample(allrefs, 10)))
    else:
        # every ordered pair of the 108-element space appears in some chunk: pair up blocks of 12
        blocks = [allrefs[i:i + 12] for i in range(0, len(allrefs), 12)]
        for i in range(len(blocks)):
            for j in range(i, len(blocks)):
                cases.append(dict(kind="cmp", refs=blocks[i] + (blocks[j] if j != i else [])))
        ctx.exhaustive_spaces.append("all ordered pairs of 108 references (2 groups x 2 names x 3^3 versions): comparison operators, supports, hash")
        for _ in range(400):
            cases.append(with_via(rng, rng.sample(allrefs, 10)))
        # every way of obtaining a reference x which field(s) differ from the used source x every other way
        tgt = ["g", "aa", [1, 1, 1]]
        srcvals = [["g", "aa", [1, 1, 1]], ["g", "aa", [1, 2, 1]], ["g", "ab", [1, 1, 1]], ["h", "aa", [1, 1, 1]], ["h", "ab", [2, 0, 0]]]
        for how in HOWS:
            for sv in srcvals:
                cases.append(dict(kind="cmp", refs=[tgt] * len(HOWS) + [sv], via=[[how, sv]] + [[h2, sv] for h2 in HOWS if h2 != how] + [["new", None]]))
        ctx.exhaustive_spaces.append("every way of obtaining a reference (%d ways) x 5 kinds of used source (same value / other version / name / group / all) vs. every other way" % len(HOWS))
    # wide versions / names of different length / prefix-related names
    wide = [[g, n, v] for g in ["g", "gg"] for n in ["aa", "aaa", "ab", "b0"] for v in ([1, 9, 0], [1, 10, 0], [1, 2, 10], [1, 2, 9], [10, 0, 0], [9, 9, 9])]
    for _ in range(6 if ctx.quick else 40):
        cases.append(dict(kind="cmp", refs=rng.sample(wide, 10)))
        cases.append(with_via(rng, rng.sample(wide, 8)))
    # version tables: random interleavings of registrations (both paths) and queries
    nt = 60 if ctx.quick else 1500
    for i in range(nt):
        names = ["vt.aa", "vt.ab", "vt.aa-b"][: rng.randrange(1, 4)]
        ops = []
        pool_v = [rand_ver(rng) for _ in range(rng.randrange(1, 6))]
        for _ in range(rng.randrange(1, 9)):
            r = rng.random()
            n = rng.choice(names)
            if r < 0.5:
                ops.append(["reg", rng.choice(["ep", "manual"]), n, rng.choice(pool_v)])
            else:
                ops.append(rand_query(rng, [n], pool_v))
        ops.append(["vers", names[0], None])
        ops.append(["res", names[0], rng.choice(pool_v)])
        cases.append(dict(kind="tbl", group=rng.choice(["schema", "vtgrp"]), ops=ops))
    # query - register - query: the same battery of queries before, between and after the registrations
    for i in range(40 if ctx.quick else 600):
        cases.append(stepwise_case(rng))
    base = [[1, 0, 0], [1, 2, 0], [1, 10, 1], [2, 0, 0]]
    full = []
    # all subsets x all registration orders of <= 4 versions of one name x every assignment of the two
    # registration paths to the steps; the full battery of queries before the first and after every step
    import itertools as it
    for k in range(1, 5):
        for sub in it.combinations(base, k):
            for perm in it.permutations(sub):
                for paths in it.product(("ep", "manual"), repeat=k):
                    bat = [["vers", "vt.aa", None], ["keys", "vt.aa"], ["get", "vt.aa", None]]
                    for q in ([1, 0, 0], [1, 1, 0], [1, 11, 0], [2, 0, 0], [3, 0, 0], None):
                        bat += [["res", "vt.aa", q], ["vers", "vt.aa", q]]
                    bat += [["get", "vt.aa", [1, 1, 0]], ["item", "vt.aa", [1, 2, 0]], ["has", "vt.aa", [1, 2, 0]], ["has", "vt.aa", None]]
                    ops = list(bat)
                    for via, v in zip(paths, perm):
                        ops += [["reg", via, "vt.aa", v]] + bat
                    full.append(dict(kind="tbl", group="schema", ops=ops))
    if ctx.quick:
        cases += rng.sample(full, 40)
    else:
        cases += full
        ctx.exhaustive_spaces.append("all subsets x all registration orders of <=4 versions of one plugin name x every assignment of the two registration paths "
                                     "to the steps; 19 queries (versions/resolve/get/[]/in/keys, 6 requests) before the first and after every registration")
    # entry point names
    ne = 40 if ctx.quick else 600
    for i in range(ne):
        ops = []
        for _ in range(8):
            valid = rng.random() < 0.7
            n = rand_name(rng, valid)
            v = rand_ver(rng)
            if rng.random() < 0.5:
                ops.append(["toep", n, v])
            else:
                s = "%s__%d.%d.%d" % (n, *v)
                if rng.random() < 0.3:
                    s = rng.choice([s + ".1", s.replace("__", "_", 1), s + "__1.0.0", s.replace(".", "", 1), s[:-2], s + "a", "__" + s, s.replace("__", "___")])
                ops.append(["fromep", s])
        cases.append(dict(kind="ep", ops=[o for o in ops if all(ord(ch) < 128 for ch in str(o))]))
    return cases


def run(ctx):
    ctx.rule = ("cases: (cmp) sets of references -- constructed, or derived (copy/copy(update)/deepcopy/pickle/parse_obj/parse_raw/construct/validate/"
                "group subclass) from originals that were hashed, compared and used as keys before -- all ordered pairs compared with ==,>=,>,<=,<,supports,hash, "
                "set/dict/list membership, each also against a fresh equal reference; (xproc) used references pickled into an interpreter with another str hash seed; "
                "(tbl) registration/query sequences on one synthetic PluginGroup via _add_ep and register_in_group with versions/resolve/get/[]/in/keys "
                "before, between and after the registrations; (ep) to_ep_name/from_ep_name on grammar-generated "
                "and mutated names; (marked) subclassing version-less plugin handles. Non-trivial = tagged: >2 versions registered for the queried name, "
                "resolve/get with/without supporting version, queries between registrations, derived references, valid/invalid entry point names, marked-class check.")
    ctx.trusted.append("harness/translate.py (Python ast -> Lean) for PluginRef.__eq__/__ge__/supports/__hash__; bridge theorems re-checked on every run")
    ctx.trusted.append("harness/translate_c16.py + Py/PluginPy.lean (value dictionary) for to/from_ep_name, to/from_semver_str, the name/semver patterns "
                       "(parsed by Python's re._parser), PluginGroup._add_ep/versions/resolve/get/[]/in/keys, register_in_group; bridge theorems re-checked on every run")
    ctx.assumptions += ["Python str comparison = lexicographic by code point = Lean String order (ASCII names used)",
                        "functools.total_ordering derives <,<=,> from __ge__ as in CPython's functools.py (modelled in Plugin.ltFrom/leFrom/gtFrom; compared on every pair)",
                        "list.sort() is a stable sort using only < (modelled as stable insertion sort)"]
    cases = core.load_corpus(ID) + gen_cases(ctx)
    ctx.correspond("plugin-model", MOD, [c for c in cases if c["kind"] != "marked"], lines, "drv_plg", compare=compare, timeout=60)
    # oracle-only cases (real plugin system / second interpreter)
    ex = extra_cases(ctx)
    res = __import__("harness.pool", fromlist=["x"]).run(MOD, "impl", ex, timeout=120, workers=2)
    for c, r in zip(ex, res):
        if "ok" in r:
            for d in r["ok"]["oracle"]:
                ctx.oracle_hit(c, d)
            ctx.note_case(c, r["ok"]["tags"])
        elif "timeout" in r:
            raise lean.InfraError("%s probe timed out" % c["kind"])
        elif "crash" in r and core.crash_in_real_code(r):
            ctx.oracle_hit(c, {"kind": "unexpected-exception", "error": r["crash"][:300], "where": core.crash_site(r)})
        elif ctx.oracle_hits:
            # failing inputs were already found on the real code; a probe that cannot even start must not hide them
            ctx.notes.append("%s probe could not run: %s" % (c["kind"], str(r.get("crash"))[:300]))
        else:
            raise lean.InfraError("%s probe crashed: %s" % (c["kind"], r))


def signature(case, detail):
    return "%s:%s" % (ID, detail.get("kind") if isinstance(detail, dict) else str(detail)[:40])


def shrink(ctx, case, detail):
    from .. import pool
    want = detail.get("kind") if isinstance(detail, dict) else None
    with pool.Session(MOD, "impl") as ses:
        def hits(cand):
            r = ses.call(cand, timeout=120 if cand.get("kind") == "xproc" else 60)
            return [d for d in (r.get("ok") or {}).get("oracle", []) if d.get("kind") == want]
        if case.get("kind") in ("tbl", "ep") and len(case.get("ops", [])) > 1:
            ops = core.ddmin(case["ops"], lambda ops: bool(hits(dict(case, ops=ops))), max_tests=150)
            ds = hits(dict(case, ops=ops))
            if ds:
                return dict(case, ops=ops), ds[0]
        if case.get("kind") == "cmp" and isinstance(detail, dict) and "a" in detail and "b" in detail:
            small = dict(kind="cmp", refs=[detail["a"], detail["b"]])
            if "via" in case:
                small["via"] = [detail.get("a_via") or ["new", None], detail.get("b_via") or ["new", None]]
            cands = [small]
            if "via" in case and detail["a"] == detail["b"]:
                cands.insert(0, dict(kind="cmp", refs=[detail["a"]], via=[small["via"][0]]))
            for cand in cands:
                ds = hits(cand)
                if ds:
                    return cand, ds[0]
        if case.get("kind") == "xproc" and isinstance(detail, dict) and "a" in detail:
            cand = dict(case, refs=[detail["a"]])
            ds = hits(cand)
            if ds:
                return cand, ds[0]
    return case, detail


def search(ctx):
    """Failing-input search after a broken obligation/correspondence: more seeds, larger space,
    oracle only (the oracle needs no model)."""
    from .. import pool
    import random
    for s in range(1, 4):
        sub = core.Ctx(ID, "thorough" if s == 3 else "quick", ctx.seed + 7919 * s)
        cases = extra_cases(sub) + gen_cases(sub)
        res = pool.run(MOD, "impl", cases, timeout=120)
        ctx.search_log.append("seed %d: %d cases, oracle only" % (sub.seed, len(cases)))
        for c, r in zip(cases, res):
            if "ok" in r and r["ok"]["oracle"]:
                return shrink(ctx, c, r["ok"]["oracle"][0])
    return None


def replay(ctx, rep):
    from .. import pool
    case = rep.get("case")
    if not case:
        print(core.canon(rep)[:2000])
        return 0
    r = pool.run_one(MOD, "impl", case, timeout=120)
    print("implementation:", core.canon(r)[:3000])
    if case.get("kind") not in ("marked", "xproc"):
        print("model:", lean.run_driver("drv_plg", [lines(case)]))
    return 1 if ("ok" in r and r["ok"]["oracle"]) else 0
