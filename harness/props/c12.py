"""C12 — Schema instances survive serialisation unchanged.

Lean: Model/Codec.lean (grammar Ty, values PyVal, Json, decode/encode, schemas with constants
and extra policy), Proofs/Codec.lean, Props/C12.lean; driver drv_cod.
Real code: every installed schema plugin and schema classes generated from the grammar
(harness/props/schema_gen.py), valid instances built with `S.parse_obj(input)` where a
missing optional is expressed by omission.
Oracle (real code only): parse_raw(o.json()) == o, parse_raw(bytes(o)) == o,
parse_raw(o.yaml()) == o, second trip gives identical text (set-free instances), declared
constants present with their value in json_dict() / json() / bytes / yaml() — for the instance and for
every nested schema value of the output (nested, list item, dict value; also values that a custom
`Parser` class built with construct()) — and ignored on input. An exception raised by the library (or the
YAML library) on the library's own output is an oracle hit (`parse-of-own-output-raises`), never a crash.
Histories (real code only): an instance is a live, mutable object (validate_assignment). The same
clauses are checked on instances that were *reached* by a history of ordinary operations on one
object: dump (any form) / assignment of a valid value at any depth (nested schema instance, list
item, dict value, extra field) / in-place list, dict and set updates / copy(), copy(deep=True),
copy(update=...) at any depth / re-parse of the own output. Values are taken from a second valid
instance of the same schema at the same static field position. A reached state is checked only if
it is equal to a freshly validated instance built from the harness's own walk of the object (so it
is a valid instance in the sense of the statement, and None means omitted).
Value and construction alphabets (real code only, cases with nomodel=True): string places take values from the full str domain
(unpaired surrogates as produced by os.fsdecode / a JSON \\udXXX escape, NUL, BOM, line/paragraph separators, C0/C1 controls, non-BMP, very
long; NEL and long keys with spaces only in the fixed probes of F24/F25); values may be given as already-constructed objects of the field
type (`{"\u00a7obj": kind, ...}` places of an input, see `materialise`: Duration with calendar / negative / fractional parts, PintUnit,
PintQuantity with int / float magnitude, nested schema instances, parser-built value schemas, user value types), at construction and by
later assignment (history op "setraw"); user-registered value types (`["ext", "uv-<kind>-<order>"]`) whose JSON encoder is registered
with the decorator / before the schema class / after the family / after the instances exist / after a first refused dump.
Correspondence: value obtained by pydantic vs. model `decode`, JSON produced by pydantic vs.
model `encode` (parsed JSON equality, arrays of set-typed positions sorted).
"""
import json
import random

from .. import core, lean, pool
from . import schema_gen as G

ID = "C12"
MOD = "harness.props.c12"
T = "MetadorModel.C12."
B = "MetadorModel.Bridge.CodecFns."
P = "MetadorModel.CodecParsers."
# translated tie (harness/translate_c12.py): one bridge module per source file, so that a broken proof is attributed to
# the file that changed; Bridge.CodecFns transfers the property-level facts to the translated functions
BRIDGE = dict(
    Base=["gen_mod_def_dump_args", "gen_json", "gen_json_dict", "gen_yaml", "gen_bytes", "gen_str", "gen_parse_file", "gen_parse_raw",
          "gen_config", "gen_metaclass_BaseModelPlus"],
    Enc=["gen_json_encoder", "gen_add_json_encoder", "gen_dynamize_encoder", "gen_mixin_init", "gen_registry"],
    Core=["gen_key_constflds", "gen_override_consts_pre", "gen_override_consts", "gen_schema_extra", "gen_magic_init"],
    Meta=["gen_class_init_DynEncoderModelMetaclass", "gen_class_init_SchemaMagic", "gen_class_init_SchemaMetaclass",
          "gen_metaclass_MetadataSchema"],
    Parser=["gen_baseparser_attrs", "gen_baseparser_parse", "gen_run_parser", "gen_get_parser", "gen_get_validators", "gen_modify_schema",
            "gen_duration_parse", "gen_string_parse", "gen_pint_parse", "gen_parser_classes", "gen_opq_validators", "gen_validate_opq"],
    Num=["gen_num_cfg", "gen_num_parse"],
)
BRIDGE_TOP = ["gen_encoder_reaches_all_classes", "gen_declared_metaclasses", "gen_roundtrip_json", "gen_roundtrip_bytes", "gen_roundtrip_yaml",
              "gen_json_dict_constants", "gen_override_consts_decode", "gen_env_norm", "gen_env_crash", "gen_num_own_output"]
PARSER_FACTS = ["encodeVia_classLeaf", "pydanticLeaf_fails", "forcedKw_keeps", "jsonText_default", "parseRaw_own_json", "parseRaw_own_bytes",
                "parseRaw_own_yaml", "jsonDict_default", "parseRaw_crash", "decode_opq_envOf", "pint_never_crashes", "validatorsOf_idem",
                "decode_overrideConsts", "schemaExtraLoop_spec", "schemaExtra_spec", "numParse_bool_refused", "numParse_unitless",
                "numParse_own_output", "numParse_number_good"]
LEAN = dict(
    modules=["MetadorModel.Props.C12", "MetadorModel.Proofs.CodecParsers"]
    + ["MetadorModel.Bridge.CodecFns" + k for k in BRIDGE] + ["MetadorModel.Bridge.CodecFns"],
    theorems=[T + n for n in [
        "roundtrip", "roundtrip_at", "roundtrip_idempotent", "constants_forced", "constants_forced_nested", "subObjs_decoded", "encode_subObjs",
        "constants_ignored", "omitted_optional_stable",
        "explicit_none_reads_default", "roundtrip_needs_unit", "legacy_opaque_not_serialisable"]]
    + [P + n for n in PARSER_FACTS] + [B + n for k in BRIDGE for n in BRIDGE[k]] + [B + n for n in BRIDGE_TOP],
    drivers=["drv_cod"],
)


def translate(ctx):
    """regenerate Gen/CodecFns.lean from the current source of schema/base.py, core.py, encoder.py, parser.py, types.py and
    schema/common/__init__.py (harness/translate_c12.py lists the functions and the value dictionary)"""
    from .. import translate_c12
    try:
        return translate_c12.write(lean)
    except translate_c12.PartlyTranslated:
        raise  # the functions that were understood are written; only the bridge modules that mention the others fail
    except Exception as e:  # noqa: BLE001
        # leave no text of an earlier run (possibly of another tree) behind
        translate_c12.write_stub(lean, "%s: %s" % (type(e).__name__, e))
        raise

NF = {}  # normal-form tables of the opaque codecs, filled by run() through a worker


# ----------------------------------------------------------------------------- parser-built value schemas
# Nested schema values that are NOT produced by pydantic validation but by a custom `Parser` class
# (schema/parser.py ParserMixin; the documented pattern of schema/common: NumValue / Pixels / SIValue build
# their result with `tcls.construct(...)` / `tcls(...)`). Field types ["ext", "pv-<variant>"] of generated
# families (real code only; outside the Lean grammar, the cases carry nomodel=True).
#   px      Pixels (installed: core.imagefile width / height)          unit inferred, one allowed unit
#   num     NumValue itself                                            any unit, none inferred
#   si      SIValue (pint-normalised unit)
#   metres  user-defined NumValue subclass: own Parser (allowed m / cm, inferred m) and own JSON-LD constants
#           (@type overridden, a new constant added)
#   secs    user-defined NumValue subclass: unit required, no constant of its own
_PV = {}
PV_VARIANTS = ["px", "num", "si", "metres", "secs"]
PV_NOINFER = ("num", "secs")  # Parser.infer_unit is None: a unit-less value must stay unit-less (F29, see `numvalue_probe` and signature())
PV_NUMS = [0, 1, 3, 7, -5, 255, 10 ** 6, 2 ** 53 + 1, 0.0, 0.5, 2.5, -0.25, 1e-7, 1e22, 123456789.125]


def _pv_classes():
    if not _PV:
        from metador_core.schema.common import NumValue, Pixels, SIValue
        from metador_core.schema.decorators import add_const_fields

        class Metres(NumValue):
            class Parser(NumValue.Parser):
                allowed_units = ["m", "cm"]
                infer_unit = "m"

        Metres = add_const_fields({"@type": "Distance", "unitSystem": {"name": "SI", "base": ["m"]}}, override=True)(Metres)

        class Secs(NumValue):
            class Parser(NumValue.Parser):
                allowed_units = ["s", "ms"]
                require_unit = True

        _PV.update(px=Pixels, num=NumValue, si=SIValue, metres=Metres, secs=Secs)
    return _PV


def _pv_gen(variant):
    def gen(rng):
        n = rng.choice(PV_NUMS)
        r = rng.random()
        units = dict(px=["px"], num=["m", "px", "kg m", "%", "a.u."], metres=["m", "cm"], secs=["s", "ms"], si=["meter", "second", "kilogram * meter / second ** 2", "m", "percent"])[variant]
        if variant == "si":
            if r < 0.5:
                return rng.choice(G.QTY_POOL + ["3", "2 px", "1.5 km/h", "5 dimensionless"])
            d = {"value": n}
            if r < 0.9:
                d["unitText"] = rng.choice(units)
            return d
        if r < (0.15 if variant == "secs" else 0.4):
            return n  # bare number: the unit is inferred by the Parser / the value stays unit-less / refused (unit required)
        d = {"value": n}
        if r < (0.9 if variant == "secs" else 0.8):
            d["unitCode" if rng.random() < 0.2 else "unitText"] = rng.choice(units)
        if rng.random() < 0.15:
            d["minValue"] = 0  # dropped by the parser (normalisation), the instance then round-trips
        return d
    return gen


for _v in PV_VARIANTS:
    G.register_ext("pv-" + _v, (lambda _v=_v: _pv_classes()[_v]), _pv_gen(_v))


def add_pv_fields(rng, fam, p=0.7):
    """Give classes of a generated family fields holding parser-built value schemas (plain / Optional / List)."""
    fam = json.loads(json.dumps(fam))
    for cd in fam:
        if cd["parent"] and G.eff_extra(fam, cd["parent"]) == "forbid":
            continue  # a child of a forbidding parent cannot add fields
        if rng.random() > p:
            continue
        for j in range(rng.randrange(1, 3)):
            t = ["ext", "pv-" + rng.choice(PV_VARIANTS)]
            r = rng.random()
            t = t if r < 0.4 else (["opt", t] if r < 0.6 else (["list", t] if r < 0.85 else ["opt", ["list", t]]))
            cd["fields"].append(["p%d%s" % (j, cd["name"].lower()[0]), t, None])
    return fam


def _pv_unitless(fam, root, inp):
    """Does the input give a unit-less value to a parser-built value schema whose Parser infers no unit?"""
    def walk(ty, v):
        k = ty[0]
        if k == "ext":
            return ty[1][3:] in PV_NOINFER and not isinstance(v, bool) and (
                isinstance(v, (int, float)) or (isinstance(v, dict) and not v.get("unitText") and not v.get("unitCode")))
        if k in ("opt", "ann"):
            return v is not None and walk(ty[1], v)
        if k in ("list", "set"):
            return isinstance(v, list) and any(walk(ty[1], x) for x in v)
        if k == "union":
            return any(walk(t, v) for t in ty[1])
        if k == "model":
            try:
                return isinstance(v, dict) and any(f[0] in v and walk(f[1], v[f[0]]) for f in G.eff_fields(fam, ty[1]))
            except KeyError:
                return False
        return False
    return walk(["model", root], inp)


# ----------------------------------------------------------------------------- user-registered value types
# Value types that are not models and not built in: a class with a `Parser` (schema/parser.py ParserMixin) whose JSON
# encoder lives in the dynamic registry of schema/encoder.py. Field types ["ext", "uv-<kind>-<order>"] (real code only).
# Every family build makes FRESH classes (the registry refuses a second registration), and registers the encoder
#   deco    with the @json_encoder decorator on the class itself (what the built-in types do)
#   early   add_json_encoder() before the schema class that uses the type is declared
#   late    add_json_encoder() after the whole family of schema classes is declared, before any instance exists
#   inst    add_json_encoder() after the instances were created (validated), before their first dump
#   dumped  add_json_encoder() after a first dump of the instances was attempted (and legitimately refused: TypeError)
# The clauses are checked only after the registration, i.e. when the type is a supported (serialisable) value type.
UV_KINDS = ["ratio", "point", "ver"]
UV_ORDERS = ["deco", "early", "late", "inst", "dumped"]
_UV = {"cache": {}, "pending": []}
UV_INPUTS = dict(ratio=["3/4", "1/3", "-7/2", "5", "0", "22/7", "10/4", " 1/8 "], point=["1;2", "0;0", "-1.5;2000.0", "0.1;0.2", "1e22;-0.0", "3;4"],
                 ver=[[1, 2, 3], [0], [10, 0, 0, 1], "1.2.3", "0.1", [2 ** 40, 1]])


def _uv_make(kind):
    """(fresh value class, encoder function)"""
    from fractions import Fraction

    from metador_core.schema.parser import BaseParser, ParserMixin

    if kind == "ratio":
        class RatioParser(BaseParser):
            schema_info = dict(title="ratio numerator/denominator", type="string")

            @classmethod
            def parse(cls, tcls, v):
                if isinstance(v, tcls):
                    return v
                if isinstance(v, bool) or not isinstance(v, (str, int, Fraction)):
                    raise TypeError("expected str or Fraction, got %s" % type(v).__name__)
                return tcls(v)

        class Ratio(ParserMixin, Fraction):
            Parser = RatioParser

        return Ratio, str
    if kind == "point":
        class Point(ParserMixin):
            def __init__(self, x, y):
                self.x, self.y = float(x), float(y)

            def __eq__(self, other):
                return isinstance(other, Point) and (self.x, self.y) == (other.x, other.y)

            def __hash__(self):
                return hash((self.x, self.y))

            def __repr__(self):
                return "Point(%r, %r)" % (self.x, self.y)

            class Parser(BaseParser):
                @classmethod
                def parse(cls, tcls, v):
                    if isinstance(v, tcls):
                        return v
                    if not isinstance(v, str):
                        raise TypeError("expected 'x;y'")
                    x, y = v.split(";")
                    return tcls(x, y)

        return Point, (lambda p: "%r;%r" % (p.x, p.y))

    class Ver(ParserMixin):  # encoded as a JSON array (an encoder need not produce a string)
        def __init__(self, parts):
            self.parts = tuple(parts)

        def __eq__(self, other):
            return isinstance(other, Ver) and self.parts == other.parts

        def __hash__(self):
            return hash(self.parts)

        def __repr__(self):
            return "Ver%r" % (self.parts,)

    class VerParser(BaseParser):
        @classmethod
        def parse(cls, tcls, v):
            if isinstance(v, tcls):
                return v
            if isinstance(v, str):
                v = [int(x) for x in v.split(".")]
            if not isinstance(v, (list, tuple)) or not v or any(isinstance(x, bool) or not isinstance(x, int) for x in v):
                raise TypeError("expected a list of ints or 'a.b.c'")
            return tcls(v)

    Ver.Parser = VerParser  # the parser is attached to an existing class (before any schema uses it)
    return Ver, (lambda w: list(w.parts))


def _uv_hint(name):
    def hint():
        if name not in _UV["cache"]:
            from metador_core.schema.encoder import add_json_encoder, json_encoder

            _, kind, order = name.split("-")
            cls, enc = _uv_make(kind)
            if order == "deco":
                cls = json_encoder(enc)(cls)
            elif order == "early":
                add_json_encoder(cls, enc)
            else:
                _UV["pending"].append((order, cls, enc))
            _UV["cache"][name] = cls
        return _UV["cache"][name]
    return hint


def _uv_register(upto):
    """Register the encoders still pending for the orders in `upto`."""
    from metador_core.schema.encoder import add_json_encoder

    keep = []
    for order, cls, enc in _UV["pending"]:
        if order in upto:
            add_json_encoder(cls, enc)
        else:
            keep.append((order, cls, enc))
    _UV["pending"] = keep


def build_family(fam, upto=("late",)):
    """Real classes of a family; user value types are made afresh, encoders of the orders in `upto` registered after the build."""
    _UV["cache"], _UV["pending"] = {}, []
    F = G.Family(fam)
    _uv_register(upto)
    return F


for _k in UV_KINDS:
    for _o in UV_ORDERS:
        G.register_ext("uv-%s-%s" % (_k, _o), _uv_hint("uv-%s-%s" % (_k, _o)), (lambda rng, _k=_k: rng.choice(UV_INPUTS[_k])))


def add_uv_fields(rng, fam, p=0.8):
    """Give classes of a generated family fields holding user-registered value types (plain / Optional / List), every registration order."""
    fam = json.loads(json.dumps(fam))
    for cd in fam:
        if cd["parent"] and G.eff_extra(fam, cd["parent"]) == "forbid":
            continue
        if rng.random() > p:
            continue
        for j in range(rng.randrange(1, 3)):
            t = ["ext", "uv-%s-%s" % (rng.choice(UV_KINDS), rng.choice(UV_ORDERS))]
            r = rng.random()
            t = t if r < 0.5 else (["opt", t] if r < 0.7 else (["list", t] if r < 0.9 else ["opt", ["list", t]]))
            cd["fields"].append(["v%d%s" % (j, cd["name"].lower()[0]), t, None])
    return fam


# ----------------------------------------------------------------------------- wide values: the full str domain, constructed objects
# (real code only; the driver's strings travel as UTF-8 hex, so these cases carry nomodel=True)
# NEL (U+0085) and long keys with spaces are recorded YAML findings (fixed probes in focused_families), kept out of the pools.
WIDE_STR = [
    "caf\udce9_results.csv", "\udc80", "\ud800", "\udfff", "\udc00\ud800", "a\ud83dz", "x\udcff\udcfe",  # unpaired surrogates (os.fsdecode / json \udXXX)
    "a\x00b", "\x00", "\x00\x00a", "\ufeffa", "a\ufeff", "\ufeff", "a\u2028b", "a\u2029b", "\u2028", "a\u00a0b", "\u3000a", "a\u200bb", "\u200e", "\ufffe", "\uffff", "\ufffd",
    "a\U0010ffffb", "\U0001F600", "\U0001F468\u200d\U0001F469\u200d\U0001F467", "e\u0301", "\u00e9", "\x01", "\x07\x08", "\x1b[0m", "\x7f", "a\x80b", "a\x9fb", "a\x1fb", "a\x0bb", "a\x0cb", "a\x1cb",
    "a\rb", "a\r", "a\tb", "x" * 5000, "a b " * 2000, "\u00e9" * 300, "\u65e5\u672c" * 500, "'" * 200, '"' * 200, "\\" * 200, "a\n" * 300, " \n \n x", "#" * 200, ": " * 100 + "x", "- " * 100 + "x",
    "a: b " * 100, "x " * 60 + "\udc80", "\\ud800", "\\u0000", "{\"a\": 1}", "[1, 2]", "!!python/object:os.system", "%YAML 1.2", "---", "\"\\udc80\"", "\ud83d\ude00"[0:1] + "\ude00",
]
OBJ = "\u00a7obj"  # marker key of an input value that is given as an already-constructed object (see `materialise`)
DUR_KW = [dict(years=1, months=2, days=3), dict(months=18), dict(years=2), dict(years=1, hours=12), dict(months=1, days=1), dict(weeks=60), dict(days=400), dict(hours=3, minutes=4, seconds=1),
          dict(milliseconds=250), dict(microseconds=1), dict(seconds=-5), dict(days=-1, hours=1), dict(years=-1), dict(years=1.5), dict(seconds=0.1), dict(days=1.5), dict(), dict(months=1, days=-31),
          dict(seconds=10 ** 10), dict(days=10 ** 7), dict(minutes=90), dict(hours=36), dict(weeks=1, days=1, hours=1, minutes=1, seconds=1, milliseconds=1, microseconds=1)]
QTY_MAGS = [1, 5, -3, 1000, 10 ** 20, 0.5, 2.5, -0.25, 1e-7, 1e22, 0.30000000000000004, 5.0, 123456789.125]  # int / float magnitudes (Fraction / Decimal / complex magnitudes: see the report of round 3)
QTY_UNITS = ["m", "meter", "km", "s", "kg*m/s**2", "1/s", "%", "", "count", "delta_degC", "eV", "m*m", "m/m", "km/h"]


NUM = "\u00a7num"  # {NUM: "fraction" | "decimal" | "complex", "v": text}: a magnitude that is neither int nor float (fixed probe of F39 only)


def _exotic_num(a):
    import decimal
    import fractions

    return {"fraction": fractions.Fraction, "decimal": decimal.Decimal, "complex": complex}[a[NUM]](a["v"])


def _has_exotic_mag(x):
    if isinstance(x, dict):
        return NUM in x or any(_has_exotic_mag(v) for v in x.values())
    return isinstance(x, list) and any(_has_exotic_mag(v) for v in x)


def quantity_object_probe():
    """Fixed probe for F39 (recorded, not repaired): a PintQuantity OBJECT whose magnitude is a Fraction / Decimal / complex number is passed
    through unchanged by StringParser.parse (types.py), but its text ("1/3 meter", "1.10 meter", "(2+1j) meter") reads back as a float
    quantity that is not equal / is refused by pint. The random generators use int and float magnitudes only."""
    fam = [dict(name="Aa", parent=None, extra=None, fields=[["q", ["qty"], None]], consts=[], overrides=[], mandatory=[])]
    mk = lambda kind, v: {"q": {OBJ: "qty", "args": [{NUM: kind, "v": v}, "m"]}}
    return dict(kind="fam", fam=fam, root="Aa", inputs=[mk("fraction", "1/3"), mk("decimal", "1.10"), mk("complex", "2+1j")], nomodel=True, wide=True)


def _make_obj(m, classes):
    from metador_core.schema.types import Duration, PintQuantity, PintUnit

    k = m[OBJ]
    if k == "dur":
        return Duration(**m["kw"])
    if k == "unit":
        return PintUnit(m["s"])
    if k == "qty":
        return PintQuantity(*[_exotic_num(a) if isinstance(a, dict) else a for a in m["args"]])
    if k == "model":  # a nested schema instance, built by the user with the class of that place
        v = materialise(m["v"], classes)
        return classes[m["cls"]](**v) if m.get("how") == "kw" and all(isinstance(x, str) and x.isidentifier() for x in v) else classes[m["cls"]].parse_obj(v)
    if k == "ext":
        cls = G.EXT_TYPES[m["name"]][0]()
        v = m["v"]
        if m["name"].startswith("pv-"):
            return cls(**v)
        kind = m["name"].split("-")[1]
        if kind == "ratio":
            return cls(v.strip())
        if kind == "point":
            return cls(*v.split(";"))
        return cls([int(x) for x in v.split(".")] if isinstance(v, str) else v)
    raise ValueError("unknown object marker %r" % (m,))


def materialise(x, classes=None):
    """JSON input -> what is given to the schema: `{OBJ: kind, ...}` places become constructed objects."""
    if isinstance(x, dict):
        if OBJ in x:
            return _make_obj(x, classes or {})
        return {k: materialise(v, classes) for k, v in x.items()}
    if isinstance(x, list):
        return [materialise(v, classes) for v in x]
    return x


def _has_obj(x):
    if isinstance(x, dict):
        return OBJ in x or any(_has_obj(v) for v in x.values())
    return isinstance(x, list) and any(_has_obj(v) for v in x)


def _has_obj_kind(x, kind):
    if isinstance(x, dict):
        return x.get(OBJ) == kind or any(_has_obj_kind(v, kind) for v in x.values())
    return isinstance(x, list) and any(_has_obj_kind(v, kind) for v in x)


def _count_obj(x):
    if isinstance(x, dict):
        return (1 if OBJ in x else 0) + sum(_count_obj(v) for v in x.values())
    return sum(_count_obj(v) for v in x) if isinstance(x, list) else 0


def markers_ok(fam, root, inp):
    """Every constructed object of the input stands at a declared field of its own type (an object put into an untyped
    place - an extra field, a place left over by shrinking - is not a value of a supported field type)."""
    seen = [0]

    def fn(ty, v):
        if ty[0] in ("opt", "ann", "list", "set"):
            return NotImplemented
        if isinstance(v, dict) and OBJ in v:
            k = v[OBJ]
            if k in ("dur", "unit", "qty") and ty[0] == k:
                seen[0] += 1
            elif k == "ext" and ty[0] == "ext" and v.get("name") == ty[1]:
                seen[0] += 1
            elif k == "model" and ty[0] == "model" and v.get("cls") == ty[1] and isinstance(v.get("v"), dict) and markers_ok(fam, ty[1], v["v"]):
                seen[0] += 1 + _count_obj(v["v"])
            return v
        return NotImplemented
    if not isinstance(inp, dict) or OBJ in inp:
        return False
    n = _count_obj(inp)
    if n:
        map_typed(fam, ["model", root], inp, _skip_first(fn))
    return seen[0] == n


def make_instance(S, inp, classes=None):
    return S.parse_obj(materialise(json.loads(json.dumps(inp)), classes))


def map_typed(fam, ty, v, fn):
    """Type-directed rewrite of a JSON input: fn(ty, v) returns a replacement or NotImplemented (= descend)."""
    r = fn(ty, v)
    if r is not NotImplemented:
        return r
    k = ty[0]
    if k in ("opt", "ann"):
        return v if v is None else map_typed(fam, ty[1], v, fn)
    if k in ("list", "set"):
        return [map_typed(fam, ty[1], x, fn) for x in v] if isinstance(v, list) else v
    if k == "model" and isinstance(v, dict) and OBJ not in v:
        try:
            ft = {f[0]: f[1] for f in G.eff_fields(fam, ty[1])}
        except KeyError:
            return v
        return {kk: (map_typed(fam, ft[kk], x, fn) if kk in ft else x) for kk, x in v.items()}
    return v  # unions: the alternative a value was generated for is not recorded


def _widen_leaves(rng, inp, n=2):
    """Replace up to n string leaves (values, not keys) of a hint-driven input of an installed schema by wide strings, in place."""
    leaves = []

    def walk(x):
        for k in (x if isinstance(x, dict) else range(len(x))):
            if isinstance(x[k], str):
                leaves.append((x, k))
            elif isinstance(x[k], (dict, list)):
                walk(x[k])
    walk(inp)
    for x, k in rng.sample(leaves, min(n, len(leaves))):
        x[k] = rng.choice(WIDE_STR)


def _skip_first(fn):
    first = [True]

    def g(ty, v):
        if first[0]:
            first[0] = False
            return NotImplemented
        return fn(ty, v)
    return g


def widen_input(rng, fam, root, inp, p=0.35):
    """Values of str / non-empty-str places (and string values of extra fields) from the full str domain."""
    def fn(ty, v):
        if ty[0] in ("str", "nes") and isinstance(v, str) and rng.random() < p:
            return rng.choice(WIDE_STR)
        return NotImplemented
    out = map_typed(fam, ["model", root], inp, fn)
    names = {f[0] for f in G.eff_fields(fam, root)}
    for k in out:
        if k not in names and isinstance(out[k], str) and rng.random() < p:
            out[k] = rng.choice(WIDE_STR)
    return out


def objectify_input(rng, fam, root, inp, p=0.5):
    """Values given as already-constructed objects of the field type (Duration, PintUnit, PintQuantity, nested schema instances,
    parser-built value schemas, user value types), also in non-normal forms, instead of their JSON / string form."""
    def fn(ty, v):
        k = ty[0]
        if rng.random() >= p:
            return NotImplemented
        if k == "dur" and isinstance(v, str):
            return {OBJ: "dur", "kw": rng.choice(DUR_KW)}
        if k == "unit" and isinstance(v, str):
            return {OBJ: "unit", "s": v if rng.random() < 0.5 else rng.choice(QTY_UNITS)}
        if k == "qty" and isinstance(v, str):
            return {OBJ: "qty", "args": [v] if rng.random() < 0.4 else [rng.choice(QTY_MAGS), rng.choice(QTY_UNITS)]}
        if k == "model" and isinstance(v, dict) and OBJ not in v:
            inner = map_typed(fam, ty, v, _skip_first(fn))
            return {OBJ: "model", "cls": ty[1], "v": inner, "how": rng.choice(["parse_obj", "kw"])}
        if k == "ext":
            if ty[1].startswith("pv-"):
                return {OBJ: "ext", "name": ty[1], "v": v} if isinstance(v, dict) and ty[1] != "pv-si" else v
            return {OBJ: "ext", "name": ty[1], "v": v}
        return NotImplemented
    return map_typed(fam, ["model", root], inp, _skip_first(fn))  # the instance itself is built by parse_obj


# ----------------------------------------------------------------------------- oracle (real code)
def _has_set(v):
    """Is the order of the serialised text not determined by the instance? (sets, and the extra
    fields of a model: pydantic collects them by a set difference)"""
    from pydantic import BaseModel

    if isinstance(v, (set, frozenset)):
        return True
    if isinstance(v, BaseModel):
        if len([k for k in v.__dict__ if k not in type(v).__fields__]) > 1:
            return True
        return any(_has_set(x) for x in v.__dict__.values())
    if isinstance(v, (list, tuple)):
        return any(_has_set(x) for x in v)
    if isinstance(v, dict):
        return any(_has_set(x) for x in v.values())
    return False


def _has_nan(j):
    if isinstance(j, float):
        return j != j
    if isinstance(j, list):
        return any(_has_nan(x) for x in j)
    if isinstance(j, dict):
        return any(_has_nan(x) for x in j.values())
    if isinstance(j, str):
        return "nan" in j.lower()
    return False


def _short(x, n=300):
    s = x if isinstance(x, str) else repr(x)
    return s if len(s) <= n else s[:n] + "..."


def _jsonable(x):
    return json.loads(json.dumps(x))


def _nested_consts(v, j, path, out):
    """Walk the live value `v` and the corresponding part `j` of a parsed output (JSON value) side by side;
    for every schema value (the instance itself and every nested one) collect the declared constants of its class that are missing / wrong in
    its part of the output: (path, class name, key, expected, got | _MISSING)."""
    from pydantic import BaseModel

    if isinstance(v, BaseModel):
        C = type(v)
        consts = getattr(C, "__constants__", None) or {}
        if not isinstance(j, dict):
            return out  # not dumped as an object: a matter of the round-trip clauses
        for k, c in consts.items():
            if c is None:
                continue  # None means "missing" by convention and is never dumped
            if k not in j:
                out.append((path, C.__name__, k, c, _MISSING))
            elif j[k] != _jsonable(c):
                out.append((path, C.__name__, k, c, j[k]))
        for n, x in v.__dict__.items():
            if x is None or n in consts:
                continue
            f = C.__fields__.get(n)
            key = f.alias if f is not None else n
            if key in j:
                _nested_consts(x, j[key], path + [key], out)
    elif isinstance(v, (list, tuple)):
        if isinstance(j, list) and len(j) == len(v):
            for i, (x, y) in enumerate(zip(v, j)):
                _nested_consts(x, y, path + [i], out)
    elif isinstance(v, dict):
        if isinstance(j, dict):
            for k, x in v.items():
                if k in j:
                    _nested_consts(x, j[k], path + [k], out)
    return out


_MISSING = "<missing>"


def _load_text(form, text):
    """The dumped text as a plain JSON value, read without the schema (json / yaml library only)."""
    if form in ("json", "bytes"):
        return json.loads(text)
    from ruamel.yaml import YAML

    return YAML(typ="safe").load(text)


def check_instance(S, o, inp, schema_name, hist=None):
    """All clauses of the property for one valid instance. Returns list of violation dicts."""
    V = []

    def bad(kind, **kw):
        d = dict(kind=kind, schema=schema_name, input=inp)
        d.update({k: _short(v) for k, v in kw.items()})
        if hist is not None:
            d["history"] = hist
        V.append(d)

    forms = {}
    try:
        forms["json"] = o.json()
    except Exception as e:
        bad("serialise-raises", form="json", error="%s: %s" % (type(e).__name__, e))
        return V
    try:
        jd0 = json.loads(forms["json"])
    except Exception as e:
        bad("json-output-is-not-json", form="json", text=forms["json"], error="%s: %s" % (type(e).__name__, e))
        return V
    if _has_nan(jd0):
        return V  # NaN excluded (NaN != NaN)
    try:
        forms["bytes"] = bytes(o)
    except Exception as e:
        bad("serialise-raises", form="bytes", error="%s: %s" % (type(e).__name__, e))
    try:
        forms["yaml"] = o.yaml()
    except Exception as e:
        bad("serialise-raises", form="yaml", error="%s: %s" % (type(e).__name__, e))
    # identical text on the second trip: for set-free instances; not demanded (the statement asks for equal instances) when a quantity was
    # given as a constructed object: PintQuantity(5, "m/s") is kept as it is (int magnitude), its text "5 meter / second" is read as 5.0
    setfree = not _has_set(o) and not _has_obj_kind([inp, (hist or {}).get("inputs")], "qty")
    for form, text in forms.items():
        try:
            o2 = S.parse_raw(text)
        except Exception as e:
            bad("parse-of-own-output-raises", form=form, text=text, error="%s: %s" % (type(e).__name__, e))
            return V  # the other forms and the constant clauses fail for the same reason
        if _differs(o2, o):
            try:
                got = o2.json() if hasattr(o2, "json") else o2
            except Exception as e:
                got = "<%s>" % type(e).__name__
            bad("roundtrip-differs", form=form, text=text, got=got)
            return V
        try:
            text2 = {"json": o2.json, "bytes": o2.__bytes__, "yaml": o2.yaml}[form]()
        except Exception as e:
            bad("serialise-raises", form=form + " (second trip)", error="%s: %s" % (type(e).__name__, e))
            continue
        if setfree and text2 != text:
            bad("second-trip-text-differs", form=form, text=text, text2=text2)
        elif not setfree:
            try:
                if not (S.parse_raw(text2) == o):
                    bad("second-trip-differs", form=form, text=text, text2=text2)
            except Exception as e:
                bad("parse-of-own-output-raises", form=form + " (second trip)", text=text2, error="%s: %s" % (type(e).__name__, e))
    # constants of the instance and of every nested schema value (also of values built by a custom Parser class), in every form
    seen = set()
    for form in ["json_dict"] + list(forms):
        try:
            j = o.json_dict() if form == "json_dict" else _load_text(form, forms[form])
        except Exception:
            continue  # unreadable output: reported by the round-trip clauses above
        for path, cname, k, exp, got in _nested_consts(o, j, [], []):
            if (tuple(path), k) in seen:
                continue  # one report per place (first form that shows it)
            seen.add((tuple(path), k))
            if got is _MISSING:
                bad("constant-missing-in-output", form=form, at=path, cls=cname, key=k, expected=exp)
            else:
                bad("constant-wrong-in-output", form=form, at=path, cls=cname, key=k, expected=exp, got=got)
    if V:
        return V
    # constants of the instance itself: forced on output whatever the input says about them
    consts = getattr(S, "__constants__", {})
    if consts:
        jd = jd0
        for k, v in consts.items():
            if v is None:
                continue  # None means "missing" by convention and is never dumped
            if k not in jd:
                bad("constant-missing-in-output", key=k, expected=v)
            elif jd[k] != json.loads(json.dumps(v)):
                bad("constant-wrong-in-output", key=k, expected=v, got=jd[k])
        for other in ("vt-other-value", 12345, None, ["x"], {"a": 1}):
            d = json.loads(json.dumps(jd0))
            for k in consts:
                d[k] = other
            try:
                o3 = S.parse_raw(json.dumps(d))
            except Exception as e:
                bad("constant-on-input-not-ignored", supplied=other, error="%s: %s" % (type(e).__name__, e))
                continue
            if not (o3 == o):
                bad("constant-on-input-not-ignored", supplied=other, got=o3.json())
            else:
                jd3 = o3.json_dict()
                for k, v in consts.items():
                    if v is not None and jd3.get(k) != json.loads(json.dumps(v)):
                        bad("constant-wrong-in-output", key=k, expected=v, got=jd3.get(k), supplied=other)
    return V


# ----------------------------------------------------------------------------- histories (real code)
# Paths into a live object: list of steps ["a", field/extra name] | ["i", list index] | ["k", dict key].
# Ops (explicit, JSON-able; a random history is generated on the fly and recorded in this form):
#   ["check"]                                   all clauses on the current state (if it is a verified valid instance)
#   ["dump", form]                              json | bytes | yaml | json_dict | dict | str, result ignored
#   ["reparse", form]                           continue with S.parse_raw(own output)
#   ["set", path, src, dpath]                   assign (attribute / list item / dict value) a copy of the donor value
#   ["setraw", path, src, dpath]                assign to an attribute the un-validated input value the donor was built from at that field
#                                               (what a user writes: string / number / dict / constructed object; validate_assignment parses it)
#   ["unset", path]                             assign None (= omitted) to an attribute
#   ["ins", listpath, pos, src, dpath]          list.insert of a donor element
#   ["pop", listpath, idx]   ["delkey", dictpath, key]   ["setkey", dictpath, key, src, dpath]
#   ["union", setpath, src, dpath]              set |= donor set
#   ["copy", modelpath, deep]                   replace the (nested) instance by its copy()
#   ["copyupd", modelpath, name, src, dpath]    replace the (nested) instance by copy(update={name: donor value})
# src = "a" (pristine twin of the start instance) | "b" (second valid instance); a donor value always comes
# from the same static position (class, field[, item]) as the place it is put into.
DUMP_FORMS = ["json", "bytes", "yaml", "json_dict", "dict", "str"]
HIST_KEYS = ["zz_extra", "k", "e2", "with space", "Üx"]


def _slots(x, path, tkey, out):
    from pydantic import BaseModel

    if isinstance(x, BaseModel):
        C = type(x)
        consts = getattr(C, "__constants__", {})
        for n in C.__fields__:
            if n in consts:
                continue
            v = x.__dict__.get(n)
            out.append((path + [["a", n]], (C, n), v))
            _slots(v, path + [["a", n]], (C, n), out)
        for n, v in x.__dict__.items():
            if n not in C.__fields__ and n not in consts:
                out.append((path + [["a", n]], (C, "*extra*"), v))
                _slots(v, path + [["a", n]], (C, "*extra*"), out)
    elif isinstance(x, list):
        for i, v in enumerate(x):
            out.append((path + [["i", i]], tkey + ("[]",), v))
            _slots(v, path + [["i", i]], tkey + ("[]",), out)
    elif isinstance(x, dict):
        for k, v in x.items():
            out.append((path + [["k", k]], tkey + ("{}",), v))
            _slots(v, path + [["k", k]], tkey + ("{}",), out)
    return out


def _resolve(root, path):
    cur = root
    for kind, key in path:
        if kind == "a":
            if not hasattr(cur, "__fields__") or key not in cur.__dict__:
                raise LookupError(key)
            cur = cur.__dict__[key]
        elif kind == "i":
            if not isinstance(cur, list):
                raise LookupError(key)
            cur = cur[key]
        else:
            if not isinstance(cur, dict):
                raise LookupError(key)
            cur = cur[key]
    return cur


def _tkey_of(root, path):
    """Static position of a path (same computation as in _slots)."""
    cur, tk = root, ("root",)
    for kind, key in path:
        if kind == "a":
            C = type(cur)
            tk = (C, key if key in C.__fields__ else "*extra*")
            cur = cur.__dict__[key]
        else:
            tk = tk + ("[]" if kind == "i" else "{}",)
            cur = cur[key]
    return tk


def _assign(root, path, val):
    parent = _resolve(root, path[:-1])
    kind, key = path[-1]
    if kind == "a":
        if not hasattr(parent, "__fields__"):
            raise LookupError(key)
        setattr(parent, key, val)  # validate_assignment
    elif kind == "i":
        if not isinstance(parent, list) or not (0 <= key < len(parent)):
            raise LookupError(key)
        parent[key] = val
    else:
        if not isinstance(parent, dict):
            raise LookupError(key)
        parent[key] = val


def _raw(v, top=True):
    """The harness's own walk of a live value into a parse_obj input (None = omitted)."""
    from pydantic import BaseModel

    if isinstance(v, BaseModel):
        C = type(v)
        consts = getattr(C, "__constants__", {})
        d = {}
        for n, x in v.__dict__.items():
            if n in consts or x is None:
                continue
            f = C.__fields__.get(n)
            d[f.alias if f is not None else n] = _raw(x)
        return d
    if isinstance(v, (list, tuple)):
        return [_raw(x) for x in v]
    if isinstance(v, (set, frozenset)):
        return [_raw(x) for x in v]
    if isinstance(v, dict):
        return {k: _raw(x) for k, x in v.items()}
    return v


def _verified(S, o):
    """Is the reached state equal to a freshly validated instance (so: a valid instance)?"""
    try:
        ref = S.parse_obj(_raw(o))
        return bool(ref == o) and bool(o == ref) and type(ref) is type(o)
    except Exception:
        return False


def _dump(o, form):
    if form == "json":
        return o.json()
    if form == "bytes":
        return bytes(o)
    if form == "yaml":
        return o.yaml()
    if form == "json_dict":
        return o.json_dict()
    if form == "dict":
        return o.dict()
    return str(o)


def _differs(x, y):
    try:
        return not (x == y)
    except Exception:
        return True


def _resolve_raw(donor, raw, path):
    """The part of the un-validated input `raw` that the place `path` of the validated donor was made from."""
    cur, r = donor, raw
    for kind, key in path:
        if kind == "a":
            if not isinstance(r, dict):
                raise LookupError(key)  # given as an object / a number (parser-built)
            f = type(cur).__fields__.get(key)
            names = [key] if f is None else [f.alias, key]
            hit = [n for n in names if n in r]
            if not hit:
                raise LookupError(key)  # omitted (default)
            r = r[hit[0]]
            cur = cur.__dict__[key]
        elif kind == "i":
            if not isinstance(r, list) or not isinstance(cur, list) or len(r) != len(cur):
                raise LookupError(key)
            r, cur = r[key], cur[key]
        else:
            if not isinstance(r, dict) or not isinstance(cur, dict):
                raise LookupError(key)
            r, cur = r[key], cur[key]
    return r


def _gen_op(rng, o, donors, raws=None):
    from pydantic import BaseModel

    slots = _slots(o, [], ("root",), [])
    dindex, rindex = {}, {}
    for src in sorted(donors):
        for p, tk, v in _slots(donors[src], [], ("root",), []):
            dindex.setdefault(tk, []).append((src, p, v))
            if raws is not None and p[-1][0] == "a":
                try:
                    _resolve_raw(donors[src], raws[src], p)
                    rindex.setdefault(tk, []).append((src, p, v))
                except (LookupError, KeyError, IndexError, TypeError):
                    pass

    def donor(tk, cur=None, pred=None):
        c = [x for x in dindex.get(tk, []) if pred is None or pred(x[2])]
        if not c:
            return None
        for _ in range(4):
            x = rng.choice(c)
            if cur is None or _differs(x[2], cur):
                return x
        return x

    kinds = ["set"] * 6 + ["setraw"] * 3 + ["ins"] * 3 + ["pop", "setkey", "delkey", "union", "union", "unset", "copy", "copyupd", "copyupd", "dump", "dump", "reparse"] + ["check"] * 5
    for _ in range(6):
        k = rng.choice(kinds)
        if k == "check":
            return ["check"]
        if k == "dump":
            return ["dump", rng.choice(DUMP_FORMS)]
        if k == "reparse":
            return ["reparse", rng.choice(["json", "bytes", "yaml"])]
        if k == "set":
            c = [s for s in slots if s[1] in dindex]
            if c:
                # nested places are the interesting ones: pick by depth class first
                deep = [s for s in c if len(s[0]) > 1]
                p, tk, v = rng.choice(deep if deep and rng.random() < 0.6 else c)
                d = donor(tk, v)
                return ["set", p, d[0], d[1]]
        if k == "setraw":
            # assign what a user would write (the un-validated input of the donor at that field: string, number, dict, constructed object)
            c = [s for s in slots if s[0][-1][0] == "a" and s[1] in rindex]
            if c:
                p, tk, v = rng.choice(c)
                d = rng.choice(rindex[tk])
                return ["setraw", p, d[0], d[1]]
        if k == "unset":
            c = [s for s in slots if s[0][-1][0] == "a" and s[2] is not None]
            if c:
                return ["unset", rng.choice(c)[0]]
        if k == "ins":
            c = [s for s in slots if isinstance(s[2], list) and (s[1] + ("[]",)) in dindex]
            if c:
                p, tk, v = rng.choice(c)
                d = donor(tk + ("[]",))
                return ["ins", p, len(v) if rng.random() < 0.6 else rng.randrange(len(v) + 1), d[0], d[1]]
        if k == "pop":
            c = [s for s in slots if isinstance(s[2], list) and s[2]]
            if c:
                p, tk, v = rng.choice(c)
                return ["pop", p, rng.randrange(len(v))]
        if k == "setkey":
            c = [s for s in slots if isinstance(s[2], dict) and (s[1] + ("{}",)) in dindex]
            if c:
                p, tk, v = rng.choice(c)
                d = donor(tk + ("{}",))
                return ["setkey", p, rng.choice(HIST_KEYS + list(v)), d[0], d[1]]
        if k == "delkey":
            c = [s for s in slots if isinstance(s[2], dict) and s[2]]
            if c:
                p, tk, v = rng.choice(c)
                return ["delkey", p, rng.choice(sorted(v, key=repr))]
        if k == "union":
            c = [s for s in slots if isinstance(s[2], set) and donor(s[1], pred=lambda x: isinstance(x, set))]
            if c:
                p, tk, v = rng.choice(c)
                d = donor(tk, v, pred=lambda x: isinstance(x, set))
                return ["union", p, d[0], d[1]]
        if k in ("copy", "copyupd"):
            mp = [([], o)] + [(s[0], s[2]) for s in slots if isinstance(s[2], BaseModel)]
            p, m = rng.choice(mp)
            if k == "copy":
                return ["copy", p, rng.random() < 0.5]
            consts = getattr(type(m), "__constants__", {})
            names = [n for n in type(m).__fields__ if n not in consts and (type(m), n) in dindex]
            if names:
                n = rng.choice(names)
                d = donor((type(m), n), m.__dict__.get(n))
                return ["copyupd", p, n, d[0], d[1]]
    return ["check"]


def _apply(S, st, donors, op):
    """Apply one mutating / observing op to the live object st["o"]. False = not applicable or
    refused by the library (validation error on assignment): the state is then unchanged."""
    import copy

    from pydantic import BaseModel

    o = st["o"]
    k = op[0]
    try:
        if k == "dump":
            try:
                _dump(o, op[1])
            except Exception:
                pass  # judged by "check" on verified states only
            return True
        if k == "reparse":
            st["o"] = S.parse_raw(_dump(o, op[1]))
            return True
        if k in ("set", "ins", "setkey", "union", "copyupd"):
            dpath = op[-1]
            dsrc = donors[op[-2]]
            val = copy.deepcopy(_resolve(dsrc, dpath))
            dtk = _tkey_of(dsrc, dpath)
        if k == "set":
            _resolve(o, op[1])  # the place must exist
            if _tkey_of(o, op[1]) != dtk:
                return False
            _assign(o, op[1], val)
            return True
        if k == "setraw":
            _resolve(o, op[1])
            if op[1][-1][0] != "a" or _tkey_of(o, op[1]) != _tkey_of(donors[op[2]], op[3]):
                return False
            _assign(o, op[1], copy.deepcopy(_resolve_raw(donors[op[2]], st["raws"][op[2]], op[3])))
            return True
        if k == "unset":
            _resolve(o, op[1])
            _assign(o, op[1], None)
            return True
        if k == "ins":
            lst = _resolve(o, op[1])
            if not isinstance(lst, list) or _tkey_of(o, op[1]) + ("[]",) != dtk:
                return False
            lst.insert(op[2], val)
            return True
        if k == "pop":
            lst = _resolve(o, op[1])
            if not isinstance(lst, list) or not (0 <= op[2] < len(lst)):
                return False
            del lst[op[2]]
            return True
        if k == "setkey":
            dct = _resolve(o, op[1])
            if not isinstance(dct, dict) or _tkey_of(o, op[1]) + ("{}",) != dtk:
                return False
            dct[op[2]] = val
            return True
        if k == "delkey":
            dct = _resolve(o, op[1])
            if not isinstance(dct, dict) or op[2] not in dct:
                return False
            del dct[op[2]]
            return True
        if k == "union":
            s = _resolve(o, op[1])
            if not isinstance(s, set) or not isinstance(val, set) or _tkey_of(o, op[1]) != dtk:
                return False
            s |= val
            return True
        if k in ("copy", "copyupd"):
            m = _resolve(o, op[1])
            if not isinstance(m, BaseModel):
                return False
            if k == "copy":
                m2 = m.copy(deep=bool(op[2]))
            else:
                if (type(m), op[2]) != dtk:
                    return False
                m2 = m.copy(update={op[2]: val})
            if op[1]:
                _assign(o, op[1], m2)
            else:
                st["o"] = m2
            return True
    except Exception:  # refused by the library (ValidationError, parser errors of pint / isodate / yaml ...): state unchanged
        return False
    raise ValueError("unknown history op %r" % (op,))


def run_history(S, a, b, name, ops=None, seed=0, nops=8, classes=None):
    """One history on one live instance built from input `a` (donor values from `b`).
    Returns (violations, tags); stops at the first violated check."""
    tags = []
    try:
        o = make_instance(S, a, classes)
        donors = {"a": make_instance(S, a, classes), "b": make_instance(S, b, classes)}
        # what the user wrote for the donors (strings, numbers, dicts, constructed objects): source of the "setraw" assignments
        raws = {"a": materialise(json.loads(json.dumps(a)), classes), "b": materialise(json.loads(json.dumps(b)), classes)}
    except Exception:
        return [], ["hist-gen-invalid"]
    st = {"o": o, "raws": raws}
    explicit = ops is not None
    rng = random.Random(seed)
    done = []
    i = 0
    while i < (len(ops) if explicit else nops):
        if explicit:
            op = ops[i]
        elif i == nops - 1:
            op = ["check"]
        elif i == 0 and rng.random() < 0.8:
            op = ["check"] if rng.random() < 0.5 else ["dump", rng.choice(DUMP_FORMS[:4])]
        else:
            op = _gen_op(rng, st["o"], donors, raws)
        i += 1
        if op[0] == "check":
            done.append(op)
            if _verified(S, st["o"]):
                tags.append("hist-check-after-%d-changes" % min(3, sum(1 for x in done if x[0] not in ("check", "dump"))))
                V = check_instance(S, st["o"], a, name, hist=dict(inputs=[a, b], ops=list(done)))
                if V:
                    return V, tags
            else:
                tags.append("hist-state-unverified")
            continue
        if op[0] == "reparse" and _verified(S, st["o"]):
            # continuing with the re-parsed own output of a valid instance: all clauses must hold for it first
            # (an exception of the library / the YAML library on its own output is a violation, never a harness error)
            V = check_instance(S, st["o"], a, name, hist=dict(inputs=[a, b], ops=list(done) + [["check"]]))
            if V:
                return V, tags
        if _apply(S, st, donors, op):
            done.append(op)
            tags.append("hist-op:" + op[0])
            if op[0] in ("set", "setraw", "unset", "copyupd", "copy") and len(op[1]) > (0 if op[0] in ("copy", "copyupd") else 1):
                tags.append("hist-nested-change")
        else:
            tags.append("hist-op-refused:" + op[0])
    return [], tags


def impl(case):
    kind = case["kind"]
    if kind == "shrink":
        return _impl_shrink(case)
    if kind == "nf":
        strings = case["strings"]
        nf = G.normal_forms(strings)
        oracle = []
        # closure: the normal forms themselves must be fixed points of parse-then-encode
        more = sorted({n for t in nf.values() for n in t.values() if isinstance(n, str)} - set(strings))
        nf2 = G.normal_forms(more)
        for k in G.OPAQUE:
            nf[k].update(nf2[k])
            for s, n in list(nf[k].items()):
                if isinstance(n, str) and nf[k].get(n, n) != n:
                    oracle.append(dict(kind="normal-form-not-fixed", type=k, input=s, once=n, twice=nf[k].get(n), error=G.NF_ERRORS.get((k, n), "")))
        return dict(out=None, oracle=oracle, tags=["nf-table"], nf=nf)
    from pydantic import ValidationError

    out, oracle, tags = [], [], []
    if kind == "inst":
        S = G.installed_schemas()[case["schema"]]
        rng = random.Random(case["seed"])
        hrng = random.Random(case["seed"] ^ 0x5BD1E995)
        wrng = random.Random(case["seed"] ^ 0x2545F491)
        prev = None
        nvalid = 0
        for i in range(case["n"]):
            inp = G.gen_model_input(rng, S, case.get("depth", 2))
            if case.get("wide") and wrng.random() < 0.6:
                _widen_leaves(wrng, inp)  # places that refuse the value are dropped again by repair_input
            o = None
            for attempt in range(8):
                try:
                    o = S.parse_obj(json.loads(json.dumps(inp)))
                    break
                except ValidationError as e:
                    if not G.repair_input(inp, e.errors()):
                        break
                except Exception as e:  # e.g. tokenize.TokenError out of pint: not a valid instance
                    tags.append("gen-invalid-exc:%s" % type(e).__name__)
                    break
            if o is None:
                tags.append("gen-invalid")
                continue
            nvalid += 1
            oracle += check_instance(S, o, json.loads(json.dumps(inp)), case["schema"])
            if len(inp) > 3:
                tags.append("installed-rich")
            if case.get("hist", True):
                # a history on a live instance; donor = the previous valid input (or the same one)
                a = json.loads(json.dumps(inp))
                V, tg = run_history(S, a, prev if prev is not None else a, case["schema"], seed=hrng.randrange(1 << 30), nops=case.get("nops", 7))
                oracle += V
                tags += tg
                prev = a
        tags.append("installed:%s" % case["schema"])
        if case["schema"] in G.UNRESOLVED:
            tags.append("forward-refs-unresolved:%s" % case["schema"])
        if nvalid == 0:
            tags.append("no-valid-instance:%s" % case["schema"])
        return dict(out=None, oracle=oracle[:20], tags=sorted(set(tags)), nvalid=nvalid)
    if kind == "inst1":
        S = G.installed_schemas()[case["schema"]]
        for inp in case["inputs"]:
            try:
                o = S.parse_obj(json.loads(json.dumps(inp)))
            except Exception:
                tags.append("gen-invalid")
                continue
            oracle += check_instance(S, o, inp, case["schema"])
        return dict(out=None, oracle=oracle[:20], tags=tags + ["installed:%s" % case["schema"]], nvalid=len(case["inputs"]) - tags.count("gen-invalid"))
    if kind == "fam":
        F = build_family(case["fam"])
        try:
            S = F.classes[case["root"]]
            try:
                from metador_core.schema.core import check_types
                check_types(S)
                tags.append("check_types-ok")
            except TypeError:
                tags.append("check_types-refuses")
            # phase 1: the instances are created (validated)
            objs = []
            for inp in case["inputs"]:
                if not markers_ok(case["fam"], case["root"], inp):
                    objs.append(None)
                    tags.append("gen-invalid-object-at-untyped-place")
                    continue
                try:
                    objs.append(make_instance(S, inp, F.classes))
                except ValidationError as e:
                    objs.append(None)
                    tags.append("gen-invalid")
                except Exception as e:  # e.g. tokenize.TokenError out of pint, or an object that cannot be constructed
                    objs.append(None)
                    tags.append("gen-invalid-exc:%s:%s" % (type(e).__name__, json.dumps(inp)[:200]))
            # user value types whose encoder is registered only now / only after a first (refused) dump
            if _UV["pending"]:
                _uv_register(("inst",))
                for o in objs:
                    if o is not None and _UV["pending"]:
                        try:
                            o.json()
                        except TypeError:
                            tags.append("uv-dump-before-registration-refused")
                _uv_register(UV_ORDERS)
            # phase 2: the clauses on every valid instance
            for inp, o in zip(case["inputs"], objs):
                if o is None:
                    out += ["err", "-"]
                    continue
                oracle += check_instance(S, o, inp, case["root"])
                tags += _inst_tags(case["fam"], case["root"], inp)
                if case.get("nomodel"):
                    out += ["-", "-"]  # real code only (oracle): nothing is compared with the model
                    continue
                out.append(G.pyval_str(o))
                try:
                    out.append(G.json_str(o.json_dict()))
                except Exception as e:  # reported by the oracle as serialise-raises
                    out.append("!%s" % type(e).__name__)
        finally:
            F.close()
        return dict(out=out, oracle=oracle[:20], tags=sorted(set(tags)))
    if kind == "hist":
        # histories on live instances: generated family (fam/root) or installed schema (schema);
        # explicit `ops` on inputs=[a, b], or `seeds`: one random history per seed on a pair of the inputs
        F = build_family(case["fam"], upto=UV_ORDERS) if case.get("fam") else None
        classes = F.classes if F else None
        try:
            S = F.classes[case["root"]] if F else G.installed_schemas()[case["schema"]]
            name = case["root"] if F else case["schema"]
            inputs = case["inputs"]
            if F and not all(markers_ok(case["fam"], case["root"], x) for x in inputs):
                return dict(out=None, oracle=[], tags=["gen-invalid-object-at-untyped-place"])
            if case.get("ops") is not None:
                V, tg = run_history(S, inputs[0], inputs[1 % len(inputs)], name, ops=case["ops"], classes=classes)
                oracle += V
                tags += tg
            else:
                for i, sd in enumerate(case["seeds"]):
                    a, b = inputs[i % len(inputs)], inputs[(i + 1) % len(inputs)]
                    V, tg = run_history(S, a, b, name, seed=sd, nops=case.get("nops", 8), classes=classes)
                    oracle += V
                    tags += tg
        finally:
            if F:
                F.close()
        return dict(out=None, oracle=oracle[:20], tags=sorted(set(tags)))
    raise ValueError(kind)


def _impl_shrink(req):
    """Greedy structural shrinking inside one worker (the oracle is re-run on every candidate)."""
    case, want = req["case"], req["want"]
    budget = [req.get("budget", 400)]

    def fails(c):
        budget[0] -= 1
        try:
            r = impl(c)
        except Exception:
            return None
        ds = [d for d in r["oracle"] if d.get("kind") == want and (not req.get("form") or d.get("form") == req.get("form"))]
        return ds[0] if ds else None

    det = fails(case)
    if det is None:
        return dict(out=None, oracle=[], tags=[], case=case, detail=None)
    cur = case
    if cur["kind"] == "hist":
        # explicit history: cut after the failing check, drop ops, then shrink both inputs
        ops = det["history"]["ops"]
        cur = dict(cur, ops=ops)
        i = len(ops) - 2
        while i >= 0 and budget[0] > 0:
            c = dict(cur, ops=cur["ops"][:i] + cur["ops"][i + 1:])
            d = fails(c)
            if d:
                cur, det = c, d
            i -= 1
        c = dict(cur, inputs=[cur["inputs"][0], cur["inputs"][0]])  # is one input enough?
        if fails(c):
            cur = c
        for which in (1, 0):
            def t(x, which=which):
                ins = list(cur["inputs"])
                ins[which] = x
                return fails(dict(cur, inputs=ins))
            x = _shrink_json(cur["inputs"][which], t, budget)
            ins = list(cur["inputs"])
            ins[which] = x
            cur = dict(cur, inputs=ins)
    else:
        if len(cur["inputs"]) > 1:
            for inp in cur["inputs"]:
                c = dict(cur, inputs=[inp])
                d = fails(c)
                if d:
                    cur, det = c, d
                    break
        inp = _shrink_json(cur["inputs"][0], lambda c: fails(dict(cur, inputs=[c])), budget)
        cur = dict(cur, inputs=[inp])
    if cur.get("fam"):
        for cd_i in range(len(cur["fam"])):
            for part in ("fields", "consts"):
                j = 0
                while j < len(cur["fam"][cd_i][part]) and budget[0] > 0:
                    fam2 = json.loads(json.dumps(cur["fam"]))
                    del fam2[cd_i][part][j]
                    c = dict(cur, fam=fam2)
                    if fails(c):
                        cur = c
                    else:
                        j += 1
        # drop classes nobody refers to
        i = len(cur["fam"]) - 1
        while i >= 0 and budget[0] > 0:
            if cur["fam"][i]["name"] != cur["root"]:
                fam2 = [cd for k, cd in enumerate(cur["fam"]) if k != i]
                c = dict(cur, fam=fam2)
                if fails(c):
                    cur = c
            i -= 1
        # keys of the inputs that only mattered for (or became extras of) the removed parts
        for which in range(len(cur["inputs"])):
            def t2(x, which=which):
                ins = list(cur["inputs"])
                ins[which] = x
                return fails(dict(cur, inputs=ins))
            x = _shrink_json(cur["inputs"][which], t2, budget)
            ins = list(cur["inputs"])
            ins[which] = x
            cur = dict(cur, inputs=ins)
    det = fails(cur) or det
    return dict(out=None, oracle=[], tags=[], case=cur, detail=det)


def _inst_tags(fam, root, inp):
    tg = set()
    kinds = json.dumps(fam)
    for a in ("dur", "unit", "qty"):
        if '"%s"' % a in kinds:
            tg.add("has-" + a)
    if '"set"' in kinds:
        tg.add("has-set")
    if '"union"' in kinds:
        tg.add("has-union")
    if any(cd["consts"] for cd in fam):
        tg.add("has-const")
    if any(cd["parent"] for cd in fam):
        tg.add("has-inheritance")
    for v in PV_VARIANTS:
        if '"pv-%s"' % v in kinds:
            tg.add("has-parser-built:" + v)
    if len(G.eff_fields(fam, root)) > len(inp):
        tg.add("omitted-optional")
    for v in inp.values():
        if v in (0, False, "", [], 0.0) and not isinstance(v, dict):
            tg.add("falsy-value")
    return tg


# ----------------------------------------------------------------------------- model lines
def lines(case):
    if case["kind"] != "fam" or case.get("nomodel"):
        return []
    fam = case["fam"]
    strs = set()
    for cd in fam:
        for f in cd["fields"]:
            if f[2] is not None:
                G.strings_in(f[2]["v"], strs)
    for inp in case["inputs"]:
        G.strings_in(inp, strs)
    closure = set(strs)
    for k in G.OPAQUE:
        for s in strs:
            n = NF.get(k, {}).get(s)
            if isinstance(n, str):
                closure.add(n)
    L = G.nf_lines(NF, closure)
    for cd in fam:
        L.append(G.cls_line(fam, cd["name"]))
    for inp in case["inputs"]:
        L.append("dec model(%s) %s" % (case["root"], G.json_str(inp)))
        L.append("encdec model(%s) %s" % (case["root"], G.json_str(inp)))
    return L


def compare(case, ir, mo):
    if case["kind"] != "fam" or case.get("nomodel"):
        return None
    k = len(mo) - 2 * len(case["inputs"])
    mo = mo[k:]
    a = ir["out"]
    if len(a) != len(mo):
        return "length %d vs %d" % (len(a), len(mo))
    fam, root = case["fam"], case["root"]
    for i in range(0, len(a), 2):
        rv, rj, mv, mj = a[i], a[i + 1], mo[i], mo[i + 1]
        if rv == "err" or mv.startswith("err"):
            if (rv == "err") != mv.startswith("err"):
                return "input %d: acceptance differs: impl=%r model=%r" % (i // 2, rv[:200], mv[:200])
            continue
        if G.canon_term(rv) != G.canon_term(mv):
            return "input %d: decoded value differs: impl=%r model=%r" % (i // 2, G.canon_term(rv)[:300], G.canon_term(mv)[:300])
        try:
            jr = G.canon_json(fam, ["model", root], G.term_to_json(G.parse_term(rj)))
            jm = G.canon_json(fam, ["model", root], G.term_to_json(G.parse_term(mj)))
        except ValueError as e:
            return "input %d: unparsable json term (%s): impl=%r model=%r" % (i // 2, e, rj[:200], mj[:200])
        if jr != jm:
            return "input %d: encoded JSON differs: impl=%r model=%r" % (i // 2, json.dumps(jr)[:300], json.dumps(jm)[:300])
    return None


# ----------------------------------------------------------------------------- generators
def gen_fam_cases(ctx, n):
    rng = ctx.rng
    cases = []
    for i in range(n):
        fam = G.rand_family(rng, n_classes=rng.randrange(1, 5), depth=rng.randrange(0, 3))
        root = rng.choice(fam)["name"]
        inputs = []
        for _ in range(4 if ctx.quick else 6):
            inp = G.gen_obj(rng, fam, root, 2)
            if G.model_safe_json(inp):
                inputs.append(inp)
        cases.append(dict(kind="fam", fam=fam, root=root, inputs=inputs))
    return cases


def gen_pv_fam_cases(ctx, n):
    """Generated families whose classes also hold parser-built value schemas (real code only)."""
    rng = ctx.rng
    cases = []
    for i in range(n):
        fam = add_pv_fields(rng, G.rand_family(rng, n_classes=rng.randrange(1, 4), depth=rng.randrange(0, 2)))
        rich = [cd["name"] for cd in fam if '"ext"' in json.dumps(G.eff_fields(fam, cd["name"]))]
        root = rng.choice(rich) if rich and rng.random() < 0.8 else rng.choice(fam)["name"]
        inputs = [G.gen_obj(rng, fam, root, 2) for _ in range(4 if ctx.quick else 6)]
        cases.append(dict(kind="fam", fam=fam, root=root, inputs=inputs, nomodel=True))
    return cases


def add_typed_fields(rng, fam, mk, prefix, p=0.8, shapes=("plain", "opt", "list", "optlist")):
    """Give classes of a generated family 1-2 more fields of the types made by mk(rng) (plain / Optional / List / Set)."""
    fam = json.loads(json.dumps(fam))
    for cd in fam:
        if cd["parent"] and G.eff_extra(fam, cd["parent"]) == "forbid":
            continue
        if rng.random() > p:
            continue
        for j in range(rng.randrange(1, 3)):
            t = mk(rng)
            sh = rng.choice(shapes)
            t = {"plain": t, "opt": ["opt", t], "list": ["list", t], "optlist": ["opt", ["list", t]], "set": ["set", t], "optset": ["opt", ["set", t]]}[sh]
            cd["fields"].append(["%s%d%s" % (prefix, j, cd["name"].lower()[0]), t, None])
    return fam


def _rich_root(rng, fam, marks):
    rich = [cd["name"] for cd in fam if any(m in json.dumps(G.eff_fields(fam, cd["name"])) for m in marks)]
    return rng.choice(rich) if rich and rng.random() < 0.85 else rng.choice(fam)["name"]


def gen_wide_fam_cases(ctx, n):
    """Generated families whose string places hold values from the full str domain (real code only)."""
    rng = ctx.rng
    cases = []
    for i in range(n):
        fam = add_typed_fields(rng, G.rand_family(rng, n_classes=rng.randrange(1, 4), depth=rng.randrange(0, 3)), lambda r: [r.choice(["str", "nes"])], "w",
                               shapes=("plain", "opt", "list", "optlist", "set"))
        root = _rich_root(rng, fam, ('"str"', '"nes"'))
        inputs = [widen_input(rng, fam, root, G.gen_obj(rng, fam, root, 2)) for _ in range(4 if ctx.quick else 6)]
        cases.append(dict(kind="fam", fam=fam, root=root, inputs=inputs, nomodel=True, wide=True))
    return cases


def gen_obj_fam_cases(ctx, n):
    """Generated families (also with parser-built value schemas and user value types) whose inputs give values as
    already-constructed objects of the field type, also in non-normal forms (real code only)."""
    rng = ctx.rng
    cases = []
    for i in range(n):
        fam = G.rand_family(rng, n_classes=rng.randrange(1, 4), depth=rng.randrange(0, 3))
        fam = add_typed_fields(rng, fam, lambda r: [r.choice(["dur", "dur", "unit", "qty"])], "o", shapes=("plain", "opt", "list", "optlist", "set"))
        if i % 4 == 1:
            fam = add_pv_fields(rng, fam, 0.5)
        if i % 4 == 2:
            fam = add_uv_fields(rng, fam, 0.5)
        root = _rich_root(rng, fam, ('"model"', '"dur"', '"unit"', '"qty"'))
        inputs = [objectify_input(rng, fam, root, G.gen_obj(rng, fam, root, 2)) for _ in range(4 if ctx.quick else 6)]
        cases.append(dict(kind="fam", fam=fam, root=root, inputs=inputs, nomodel=True, wide=True))
    return cases


def gen_uv_fam_cases(ctx, n):
    """Generated families with fields of user-registered value types, every order of encoder registration (real code only)."""
    rng = ctx.rng
    cases = []
    for i in range(n):
        fam = add_uv_fields(rng, G.rand_family(rng, n_classes=rng.randrange(1, 4), depth=rng.randrange(0, 2)))
        root = _rich_root(rng, fam, ('"ext"',))
        inputs = [G.gen_obj(rng, fam, root, 2) for _ in range(3 if ctx.quick else 6)]
        if rng.random() < 0.3:
            inputs = [objectify_input(rng, fam, root, x) for x in inputs]
        cases.append(dict(kind="fam", fam=fam, root=root, inputs=inputs, nomodel=True, wide=True))
    return cases


def wide_focused_families():
    """Hand-picked shapes for the widened value and construction alphabets (always run, real code only)."""
    O, L, St, E, M = (lambda t: ["opt", t]), (lambda t: ["list", t]), (lambda t: ["set", t]), (lambda n: ["ext", n]), (lambda n: ["model", n])
    cd = lambda name, fields, consts=(), parent=None, extra=None: dict(name=name, parent=parent, extra=extra, fields=[[a, b, None] for a, b in fields], consts=[list(c) for c in consts], overrides=[], mandatory=[])
    D = lambda **kw: {OBJ: "dur", "kw": kw}
    fams = []
    # a file listing: names as the file system hands them out, comments, tags; nested
    files = [cd("Aa", [("filename", ["nes"]), ("comment", O(["str"])), ("tags", O(L(["str"]))), ("keys", O(St(["nes"])))]),
             cd("Bb", [("name", ["str"]), ("files", L(M("Aa")))], consts=[("@type", "Listing")])]
    fams.append((files, "Bb", [{"name": w, "files": [{"filename": "ok.txt"}, {"filename": w2, "comment": w3, "tags": [w, "t"], "keys": [w2]}], "zz_extra": w3}
                               for w, w2, w3 in zip(WIDE_STR[0::3], WIDE_STR[1::3], WIDE_STR[2::3])]))
    # durations / units / quantities given as objects: plain, optional, list, set, nested instance
    step = [cd("Aa", [("label", ["str"]), ("lasts", ["dur"])]),
            cd("Bb", [("total", ["dur"]), ("pause", O(["dur"])), ("slots", O(L(["dur"]))), ("kinds", O(St(["dur"]))), ("steps", O(L(M("Aa")))), ("u", O(["unit"])), ("q", O(["qty"])), ("lq", O(L(["qty"])))])]
    ins = []
    for i in range(0, len(DUR_KW) - 2, 3):
        a, b, c = DUR_KW[i], DUR_KW[i + 1], DUR_KW[i + 2]
        ins.append({"total": D(**a), "pause": D(**b), "slots": [D(**c), "PT1M", D(**a)], "kinds": [D(**b), D(**c)],
                    "steps": [{OBJ: "model", "cls": "Aa", "how": "kw", "v": {"label": "x", "lasts": D(**c)}}, {"label": "y", "lasts": D(**a)}],
                    "u": {OBJ: "unit", "s": QTY_UNITS[i % len(QTY_UNITS)]}, "q": {OBJ: "qty", "args": [QTY_MAGS[i % len(QTY_MAGS)], QTY_UNITS[(i + 1) % len(QTY_UNITS)]]},
                    "lq": [{OBJ: "qty", "args": ["1000 m"]}, "5 km/h", {OBJ: "qty", "args": [2.5, "kg*m/s**2"]}]})
    fams.append((step, "Bb", ins))
    # user value types: one schema per registration order, nested in a JSON-LD-like record
    for kind in UV_KINDS:
        vals = UV_INPUTS[kind]
        fam = [cd(n, [("label", ["str"]), ("share", E("uv-%s-%s" % (kind, o))), ("parts", O(L(E("uv-%s-%s" % (kind, o)))))]) for n, o in zip(["Aa", "Bb", "Cc", "Dd", "Ee"], UV_ORDERS)]
        fam.append(cd("Ff", [("name", ["str"])] + [("c" + n.lower(), O(L(M(n)))) for n in ["Aa", "Bb", "Cc", "Dd", "Ee"]], consts=[("@context", "https://example.org/lab"), ("@type", "Mixture")]))
        one = lambda j: {"label": "w", "share": vals[j % len(vals)], "parts": [vals[(j + 1) % len(vals)], {OBJ: "ext", "name": "uv-%s-%s" % (kind, UV_ORDERS[j % 5]), "v": vals[(j + 2) % len(vals)]}]}
        fams.append((fam, "Ff", [dict([("name", "m")] + [("c" + n.lower(), [one(j), {"label": "s", "share": vals[0]}]) for j, n in enumerate(["Aa", "Bb", "Cc", "Dd", "Ee"])])]))
        for n in ["Aa", "Bb", "Cc", "Dd", "Ee"]:
            fams.append((fam, n, [{"label": "l", "share": vals[1]}]))
    return [dict(kind="fam", fam=f, root=r, inputs=i, nomodel=True, wide=True) for f, r, i in fams]


def pv_focused_families():
    """Hand-picked shapes with parser-built value schemas (always run, real code only)."""
    O, L, E = (lambda t: ["opt", t]), (lambda t: ["list", t]), (lambda v: ["ext", "pv-" + v])
    fams = []
    # the documented pattern: an image-like record with pixel sizes, a user-defined distance with own constants
    fams.append(([dict(name="Aa", parent=None, extra=None, fields=[["name", ["nes"], None], ["w", E("px"), None], ["h", O(E("px")), None], ["len", O(E("metres")), None],
                                                                        ["laps", L(E("secs")), None], ["si", O(E("si")), None], ["any", O(L(E("num"))), None]],
                       consts=[["@context", "https://schema.org"], ["@type", "Track"]], overrides=[], mandatory=[])], "Aa",
                 [{"name": "t1", "w": 3, "h": 4.5, "len": 12.5, "laps": [{"value": 61, "unitText": "s"}, {"value": 900, "unitCode": "ms"}], "si": "5 km/h", "any": [{"value": 1, "unitText": "a.u."}]},
                  {"name": "t2", "w": {"value": 3}, "len": {"value": 7, "unitText": "cm"}, "laps": [], "si": {"value": 2.5, "unitText": "meter"}},
                  {"name": "t3", "w": {"value": 0, "unitText": "px", "minValue": 0}, "h": 0, "len": 0, "laps": [{"value": 0.5, "unitText": "ms"}], "si": "3"}]))
    # nested: list of records each holding parser-built values, inherited
    fams.append(([dict(name="Aa", parent=None, extra=None, fields=[["id", ["nes"], None], ["size", E("px"), None], ["d", O(E("metres")), None]], consts=[["@type", "Item"]], overrides=[], mandatory=[]),
                  dict(name="Bb", parent="Aa", extra=None, fields=[["t", O(E("secs")), None]], consts=[["@type", "TimedItem"]], overrides=[], mandatory=[]),
                  dict(name="Cc", parent=None, extra=None, fields=[["items", L(["model", "Aa"]), None], ["best", O(["model", "Bb"]), None]], consts=[], overrides=[], mandatory=[])], "Cc",
                 [{"items": [{"id": "a", "size": 1, "d": 2}, {"id": "b", "size": {"value": 2.5}}], "best": {"id": "c", "size": 3, "t": {"value": 9.5, "unitText": "s"}}},
                  {"items": [], "best": {"id": "c", "size": 10 ** 6, "d": {"value": 1, "unitCode": "cm"}}}, {"items": [{"id": "x", "size": 0.5, "zz_extra": 1}]}]))
    return [dict(kind="fam", fam=f, root=r, inputs=i, nomodel=True) for f, r, i in fams]


def numvalue_probe():
    """Fixed probe for F29 (repaired in /repo; also reachable by the random pools): a unit-less value for a NumValue whose
    Parser infers no unit read back with unitText "" (bare number) / was accepted with unitText "" and then refused its own output (dict)."""
    fam = [dict(name="Aa", parent=None, extra=None, fields=[["n", ["ext", "pv-num"], None]], consts=[], overrides=[], mandatory=[])]
    return dict(kind="fam", fam=fam, root="Aa", inputs=[{"n": 5}, {"n": {"value": 5}}], nomodel=True)


def focused_families():
    """Hand-picked shapes the property names (always run)."""
    I, S, O = ["int"], ["str"], lambda t: ["opt", t]
    fams = []
    fams.append(([dict(name="Aa", parent=None, extra=None, fields=[["d", ["dur"], None], ["u", ["unit"], None], ["q", ["qty"], None], ["od", O(["dur"]), None],
                                                                        ["lu", ["list", ["unit"]], None], ["sq", O(["set", ["unit"]]), None]], consts=[], overrides=[], mandatory=[])], "Aa",
                 [{"d": "PT60S", "u": "m", "q": "5 m/s".replace("/s", ""), "lu": ["m", "s", "meter"], "sq": ["m", "meter", "s"]},
                  {"d": "P1DT2H3M4S", "u": "kg*m/s**2", "q": "2.5 kg*m/s**2", "od": "PT0.5S", "lu": []},
                  {"d": "-PT5S", "u": "1", "q": "3", "lu": ["%"]}, {"d": "PT0S", "u": "dimensionless", "q": "0 m", "lu": []}]))
    fams.append(([dict(name="Aa", parent=None, extra=None, fields=[["b", ["bool"], None], ["i", I, None], ["f", ["float"], None], ["s", S, None], ["ob", O(["bool"]), None],
                                                                        ["oi", O(I), None], ["of", O(["float"]), None], ["li", ["list", I], None], ["si", ["set", I], None],
                                                                        ["di", I, {"v": 5}], ["odi", O(I), None]], consts=[], overrides=[], mandatory=[])], "Aa",
                 [{"b": False, "i": 0, "f": 0.0, "s": "0", "ob": False, "oi": 0, "of": -0.0, "li": [], "si": []},
                  {"b": True, "i": -1, "f": 1e22, "s": " a ", "li": [0, 0, 1], "si": [1, 1, 2], "di": 0},
                  {"b": True, "i": 2 ** 53 + 1, "f": 5e-324, "s": "null", "li": [10 ** 20], "si": [0], "odi": 0}]))
    fams.append(([dict(name="Aa", parent=None, extra=None, fields=[["n", O(["nes"]), None], ["m", O(["mime"]), None], ["h", O(["hash"]), None], ["q", O(["qhash"]), None],
                                                                        ["l", ["lit", ["a", 1, True]], None], ["u", ["union", [I, ["nes"], ["bool"]]], None]],
                       consts=[["@context", "https://schema.org"], ["@type", "Thing"], ["kc2", {"a": [1, None, 1.5]}]], overrides=[], mandatory=[])], "Aa",
                 [{"n": " x ", "m": "a/b;c", "h": "AbCdEf09", "q": "sha256:ab", "l": "a", "u": 0}, {"l": 1, "u": " "[:0] + "z"}, {"l": True, "u": False, "@type": "Other", "@context": None},
                  {"l": 1.0, "u": "1", "zz_extra": {"k": None}}]))
    # nested + recursive + inheritance + extra policies
    fams.append(([dict(name="Aa", parent=None, extra="forbid", fields=[["id", ["nes"], None]], consts=[], overrides=[], mandatory=[]),
                  dict(name="Bb", parent=None, extra=None, fields=[["name", O(["nes"]), None], ["kids", O(["list", ["model", "Bb"]]), None], ["ref", O(["union", [["model", "Aa"], ["nes"]]]), None]],
                       consts=[["@type", "Node"]], overrides=[], mandatory=[]),
                  dict(name="Cc", parent="Bb", extra="ignore", fields=[["w", ["float"], None], ["name", ["nes"], None]], consts=[["@type", "Leaf"]], overrides=[], mandatory=[])], "Cc",
                 [{"w": 1.5, "name": "n", "kids": [{"name": "k1"}, {"kids": [{"name": "deep", "junk": 1}]}], "ref": {"id": "x"}, "junk": [1]},
                  {"w": 0.0, "name": "0", "ref": "x"}, {"w": -0.0, "name": "n", "kids": []}]))
    out = [dict(kind="fam", fam=f, root=r, inputs=i) for f, r, i in fams]
    # two YAML hazards of ruamel.yaml reached through BaseModelPlus.yaml() (fixed probes, kept out of the random pools)
    one = [dict(name="Aa", parent=None, extra=None, fields=[["s", O(["nes"]), None]], consts=[], overrides=[], mandatory=[])]
    out.append(dict(kind="fam", fam=one, root="Aa", inputs=[{"s": "a\x85b"}], nomodel=True))
    out.append(dict(kind="fam", fam=one, root="Aa", inputs=[{"a b " * 20 + "x": 1}], nomodel=True))
    return out


def gen_hist_cases(ctx, n):
    """Histories on live instances of generated families (biased to nested schemas and containers)."""
    rng = ctx.rng
    cases = []
    for f, r, i in ([(c["fam"], c["root"], c["inputs"]) for c in focused_families() if not c.get("nomodel")] + [(c["fam"], c["root"], c["inputs"]) for c in pv_focused_families()]
                    + [(c["fam"], c["root"], c["inputs"]) for c in wide_focused_families()[:5] if len(c["inputs"]) > 1]):
        cases.append(dict(kind="hist", fam=f, root=r, inputs=i, seeds=[rng.randrange(1 << 30) for _ in range(6 if ctx.quick else 40)], nops=9))
    for i in range(n):
        fam = G.rand_family(rng, n_classes=rng.randrange(1, 5), depth=rng.randrange(1, 3))
        if i % 5 == 4:
            fam = add_pv_fields(rng, fam)  # live instances holding parser-built values (assignment runs the Parser again)
        if i % 10 == 3:
            fam = add_uv_fields(rng, fam)  # ... user-registered value types
        # roots that hold other schemas / containers first
        rich = [cd["name"] for cd in fam if any(t in json.dumps(G.eff_fields(fam, cd["name"])) for t in ('"model"', '"list"', '"set"', '"ext"'))]
        root = rng.choice(rich) if rich and rng.random() < 0.8 else rng.choice(fam)["name"]
        inputs = [G.gen_obj(rng, fam, root, 2) for _ in range(3)]
        if i % 5 == 1:
            inputs = [objectify_input(rng, fam, root, x) for x in inputs]  # the user's values are constructed objects (used by "setraw")
        if i % 5 == 2:
            inputs = [widen_input(rng, fam, root, x) for x in inputs]
        cases.append(dict(kind="hist", fam=fam, root=root, inputs=inputs, seeds=[rng.randrange(1 << 30) for _ in range(3)], nops=rng.randrange(4, 11)))
    return cases


def run_hist(ctx, cases, group="histories"):
    res = pool.run(MOD, "impl", cases, timeout=300)
    for c, r in zip(cases, res):
        if "timeout" in r:
            ctx.oracle_hit(c, {"kind": "does-not-terminate", "limit_s": 300}, group=group)
            continue
        if "crash" in r:
            raise lean.InfraError("harness crashed on %s: %s\n%s" % (core.canon(c)[:200], r["crash"], r.get("tb", "")))
        for d in r["ok"]["oracle"]:
            ctx.oracle_hit(c, d, group=group)
        ctx.note_case(c, r["ok"]["tags"], len(c.get("seeds", [0])) * c.get("nops", len(c.get("ops") or [])))


def gen_inst_cases(ctx, names):
    cases = []
    per = 3 if ctx.quick else 12
    for name in names:
        for k in range(per):
            cases.append(dict(kind="inst", schema=name, seed=ctx.rng.randrange(1 << 30), n=8 if ctx.quick else 25, depth=2 + (k % 2), **({"wide": True} if k % 3 == 2 else {})))
    return cases


def installed_names():
    r = pool.run_one(MOD, "list_installed", {}, timeout=300)
    if "ok" not in r:
        raise lean.InfraError("cannot list installed schemas: %s" % (r,))
    return r["ok"]


def list_installed(case):
    return sorted(G.installed_schemas().keys())


def load_nf(ctx):
    r = pool.run_one(MOD, "impl", dict(kind="nf", strings=G.all_pool_strings()), timeout=600)
    if "ok" not in r:
        raise lean.InfraError("normal-form table: %s" % (r,))
    NF.clear()
    NF.update(r["ok"]["nf"])
    for d in r["ok"]["oracle"]:
        ctx.oracle_hit(dict(kind="nf"), d, group="normal-forms")
    ctx.note_case(dict(kind="nf"), ["nf-table"])


def ensure_nf(ctx, cases, report=True):
    """Normal forms of every string occurring in the cases (beyond the pools)."""
    strs = set()
    for c in cases:
        G.strings_in(c.get("inputs", []), strs)
        G.strings_in(c.get("values", []), strs)
        for cd in c.get("fam", []):
            for f in cd["fields"]:
                if f[2] is not None:
                    G.strings_in(f[2]["v"], strs)
    missing = sorted(x for x in strs if x not in NF.get("dur", {}) and G.model_safe_json(x))
    if not missing:
        return
    r = pool.run_one(MOD, "impl", dict(kind="nf", strings=missing), timeout=600)
    if "ok" not in r:
        raise lean.InfraError("normal-form table: %s" % (r,))
    for k in G.OPAQUE:
        NF.setdefault(k, {}).update(r["ok"]["nf"][k])
    if report:
        for d in r["ok"]["oracle"]:
            ctx.oracle_hit(dict(kind="nf"), d, group="normal-forms")


def run(ctx):
    ctx.rule = ("cases: (inst) every installed schema plugin, instances generated from the field hints (optional = omitted) and built with parse_obj; "
                "(fam) families of 1-4 schema classes generated from the field-type grammar (strict primitives incl. falsy values, constrained strings, Literal, "
                "Optional, unambiguous Unions, List, Set of hashables, nested / recursive / inherited schemas, Duration, PintUnit, PintQuantity, constants, extra policies, "
                "defaults), 4-6 valid inputs each; hand-picked families always run; (fam, real code only) the same families with fields holding value schemas that are built by a custom "
                "Parser class (Pixels, NumValue with unit, SIValue, user-defined NumValue subclasses with own constants / required unit; plain, Optional, List; bare numbers and dicts); "
                "(fam, real code only) string places from the full str domain (unpaired surrogates, NUL, BOM, separators, controls, non-BMP, very long); values given as already-constructed objects "
                "(Duration incl. years / months / negative / fractional parts, PintUnit, PintQuantity with int / float magnitude, nested schema instances, parser-built values, user value types); "
                "user-registered value types (Fraction subclass, plain class encoded as string, plain class encoded as array) whose encoder is registered by decorator / before the schema class / "
                "after the family / after the instances were created / after a first refused dump; (hist) histories on one live instance of a generated family or an installed schema: "
                "dump / assign at any depth / assign the un-validated value a user would write (string, number, dict, constructed object) / in-place list, dict, set updates / copy, copy(update) / re-parse, values from a second valid instance at the same field position, "
                "all clauses re-checked on every reached state that equals a freshly validated instance. Non-trivial = tagged (has-dur/unit/qty/set/union/const/inheritance, omitted optional, falsy value, "
                "rich installed instance).")
    ctx.assumptions += [
        "CPython float repr round-trips (hypothesis `FloatCodecOk` of C12.roundtrip; floats travel as repr tokens, compared by value)",
        "isodate / pint string codecs are inverse on their normal forms (hypothesis `NormOk`; the graph of parse-then-format on every string used is taken from the real libraries and its fixed-point property is checked by the oracle)",
        "union alternatives of generated schemas have disjoint JSON encodings (pydantic left-to-right unions are otherwise inherently ambiguous)",
        "strings sent to the model use ASCII whitespace only (the oracle also uses others)",
        "quantities given as constructed PintQuantity objects have int or float magnitudes in the random generators (Fraction / Decimal / complex magnitudes: recorded finding F39, fixed probe `quantity_object_probe`); "
        "for such instances only equality of the second trip is demanded, not identical text (an int magnitude with a division unit is written as '5 meter / second' and read as 5.0)",
        "a constructed object counts as a value of a supported field type only at a declared field of its own type (never in an extra field)",
    ]
    load_nf(ctx)
    corpus = core.load_corpus(ID)
    fam_cases = ([c for c in corpus if c["kind"] == "fam"] + focused_families() + pv_focused_families() + [numvalue_probe()]
                 + gen_fam_cases(ctx, 300 if ctx.quick else 6000) + gen_pv_fam_cases(ctx, 60 if ctx.quick else 1200)
                 + [quantity_object_probe()] + wide_focused_families() + gen_wide_fam_cases(ctx, 60 if ctx.quick else 1200) + gen_obj_fam_cases(ctx, 80 if ctx.quick else 1600)
                 + gen_uv_fam_cases(ctx, 40 if ctx.quick else 800))
    ensure_nf(ctx, [c for c in fam_cases if '"ext"' not in json.dumps(c["fam"]) and not (c.get("nomodel") and c.get("wide"))])
    ctx.correspond("codec-families", MOD, fam_cases, lines, "drv_cod", compare=compare, timeout=120)
    run_hist(ctx, [c for c in corpus if c["kind"] == "hist"] + gen_hist_cases(ctx, 150 if ctx.quick else 3000))
    names = installed_names()
    inst = [c for c in corpus if c["kind"] in ("inst", "inst1")] + gen_inst_cases(ctx, names)
    res = pool.run(MOD, "impl", inst, timeout=300)
    seen_valid = {}
    for c, r in zip(inst, res):
        if "timeout" in r:
            ctx.oracle_hit(c, {"kind": "does-not-terminate", "limit_s": 300}, group="installed")
            continue
        if "crash" in r:
            raise lean.InfraError("harness crashed on %s: %s\n%s" % (core.canon(c)[:200], r["crash"], r.get("tb", "")))
        for d in r["ok"]["oracle"]:
            ctx.oracle_hit(c, d, group="installed")
        seen_valid[c["schema"]] = seen_valid.get(c["schema"], 0) + r["ok"].get("nvalid", 0)
        ctx.note_case(c, r["ok"]["tags"], c.get("n", len(c.get("inputs", []))))
    for n in names:
        if not seen_valid.get(n):
            raise lean.InfraError("no valid instance generated for installed schema %s" % n)
    ctx.notes.append("installed schemas exercised (valid instances): %s" % ", ".join("%s(%d)" % (n, seen_valid[n]) for n in names))
    if any(t.startswith("tag:forward-refs-unresolved") for t in ctx.dist):
        ctx.notes.append("core.packerinfo: field `packer: PGPacker.PluginRef` is an unresolved forward reference in a fresh process (instantiation raises ConfigError "
                         "until `.Partial` / `update_forward_refs()` is touched); the harness calls update_forward_refs() before generating instances")
    ctx.notes.append("observations outside the statement: the Duration parser drops years and months (\"P1Y\" is read as zero seconds; the instance then round-trips); "
                     "a zero PintQuantity *object* is refused by its own parser (`if not v`), JSON/YAML/bytes are not affected")
    if not ctx.quick:
        ctx.exhaustive_spaces.append("every string of the value pools through the three opaque codecs (normal-form fixed point)")


def signature(case, detail):
    if not isinstance(detail, dict):
        return "%s:%s" % (ID, str(detail)[:40])
    kind = detail.get("kind")
    if _has_exotic_mag([case.get("inputs"), detail.get("input"), (detail.get("history") or {}).get("inputs")]):
        return "%s:quantity-object-exotic-magnitude" % ID  # see quantity_object_probe (F39)
    if kind == "normal-form-not-fixed":
        cause = ":offset-unit" if "offset unit" in str(detail.get("error", "")).lower() else ""
        return "%s:%s:%s%s" % (ID, kind, detail.get("type"), cause)
    if detail.get("form") == "yaml" and kind in ("parse-of-own-output-raises", "roundtrip-differs"):
        strs = G.strings_in(case.get("inputs", [detail.get("input")]))
        if any("\x85" in x for x in strs):
            return "%s:yaml-nel-character" % ID
        if "mapping values are not allowed" in str(detail.get("error", "")) and any(len(x) > 80 and " " in x for x in strs):
            return "%s:yaml-long-key" % ID
    if case.get("fam") and kind in ("roundtrip-differs", "parse-of-own-output-raises", "second-trip-text-differs", "second-trip-differs"):
        if any(isinstance(x, dict) and _pv_unitless(case["fam"], case.get("root"), x) for x in case.get("inputs", [])):
            return "%s:numvalue-unitless" % ID  # see numvalue_probe
    where = case.get("schema") if case.get("schema") else "generated"
    # a clause violated only on an instance reached by a history (dump / mutate / copy / re-parse ...)
    return "%s:%s:%s%s" % (ID, kind, where, ":after-history" if detail.get("history") else "")


def _fails(case, want):
    r = pool.run_one(MOD, "impl", case, timeout=300)
    ds = [d for d in r.get("ok", {}).get("oracle", []) if d.get("kind") == want]
    return ds[0] if ds else None


def _shrink_json(obj, test, budget):
    """Greedy structural shrinking of a JSON input: drop dict keys / list items (outermost
    first), as long as `test(candidate)` still fails."""
    changed = True
    while changed and budget[0] > 0:
        changed = False
        paths = []

        def walk(x, path):
            if isinstance(x, dict):
                for k in x:
                    paths.append(path + [k])
                for k, v in x.items():
                    walk(v, path + [k])
            elif isinstance(x, list):
                for i in range(len(x)):
                    paths.append(path + [i])
                for i, v in enumerate(x):
                    walk(v, path + [i])

        walk(obj, [])
        paths.sort(key=len)
        for pth in paths:
            cand = json.loads(json.dumps(obj))
            cur = cand
            for x in pth[:-1]:
                cur = cur[x]
            del cur[pth[-1]]
            budget[0] -= 1
            if budget[0] <= 0:
                break
            if test(cand):
                obj = cand
                changed = True
                break
    # string leaves (values): shorter pieces, as long as the candidate still fails
    changed = True
    while changed and budget[0] > 0:
        changed = False
        leaves = []

        def walk2(x, path):
            if isinstance(x, dict):
                for k, v in x.items():
                    walk2(v, path + [k])
            elif isinstance(x, list):
                for i, v in enumerate(x):
                    walk2(v, path + [i])
            elif isinstance(x, str) and len(x) > 1 and path and path[-1] != OBJ:
                leaves.append(path)

        walk2(obj, [])
        for pth in leaves:
            cur = obj
            for x in pth[:-1]:
                cur = cur[x]
            sv = cur[pth[-1]]
            cands = [sv[:len(sv) // 2], sv[len(sv) // 2:]] + ([c for c in dict.fromkeys(sv)] if len(sv) <= 12 else [])
            for piece in cands:
                if not piece or piece == sv or budget[0] <= 0:
                    continue
                cand = json.loads(json.dumps(obj))
                c2 = cand
                for x in pth[:-1]:
                    c2 = c2[x]
                c2[pth[-1]] = piece
                budget[0] -= 1
                if test(cand):
                    obj = cand
                    changed = True
                    break
            if changed:
                break
    return obj


def shrink(ctx, case, detail):
    if not isinstance(detail, dict) or case.get("kind") not in ("fam", "inst", "inst1", "hist"):
        return case, detail
    if detail.get("history"):
        h = detail["history"]
        case = dict(kind="hist", inputs=h["inputs"], ops=h["ops"], **({"fam": case["fam"], "root": case["root"]} if case.get("fam") else {"schema": case["schema"]}))
    elif case["kind"] in ("inst", "inst1"):
        if not isinstance(detail.get("input"), dict):
            return case, detail
        case = dict(kind="inst1", schema=case["schema"], inputs=[detail["input"]])
    r = pool.run_one(MOD, "impl", dict(kind="shrink", case=case, want=detail.get("kind"), form=detail.get("form")), timeout=600)
    if "ok" in r and r["ok"].get("detail"):
        return r["ok"]["case"], r["ok"]["detail"]
    return case, detail


def search(ctx):
    for s in range(1, 4):
        sub = core.Ctx(ID, "quick", ctx.seed + 7919 * s)
        cases = gen_fam_cases(sub, 150)
        res = pool.run(MOD, "impl", cases, timeout=120)
        ctx.search_log.append("seed %d: %d generated families, oracle only" % (sub.seed, len(cases)))
        for c, r in zip(cases, res):
            if "ok" in r and r["ok"]["oracle"]:
                return shrink(ctx, c, r["ok"]["oracle"][0])
        cases = gen_pv_fam_cases(sub, 100)
        res = pool.run(MOD, "impl", cases, timeout=120)
        ctx.search_log.append("seed %d: %d generated families with parser-built value schemas, oracle only" % (sub.seed, len(cases)))
        for c, r in zip(cases, res):
            if "ok" in r and r["ok"]["oracle"]:
                return shrink(ctx, c, r["ok"]["oracle"][0])
        cases = wide_focused_families() + gen_wide_fam_cases(sub, 60) + gen_obj_fam_cases(sub, 80) + gen_uv_fam_cases(sub, 40)
        res = pool.run(MOD, "impl", cases, timeout=120)
        ctx.search_log.append("seed %d: %d generated families with wide strings / values given as objects / user value types, oracle only" % (sub.seed, len(cases)))
        for c, r in zip(cases, res):
            if "ok" in r and r["ok"]["oracle"]:
                return shrink(ctx, c, r["ok"]["oracle"][0])
        cases = gen_hist_cases(sub, 150)
        res = pool.run(MOD, "impl", cases, timeout=300)
        ctx.search_log.append("seed %d: %d histories on live instances, oracle only" % (sub.seed, len(cases)))
        for c, r in zip(cases, res):
            if "ok" in r and r["ok"]["oracle"]:
                return shrink(ctx, c, r["ok"]["oracle"][0])
        cases = gen_inst_cases(sub, installed_names())
        res = pool.run(MOD, "impl", cases, timeout=300)
        ctx.search_log.append("seed %d: %d batches of instances of installed schemas, oracle only" % (sub.seed, len(cases)))
        for c, r in zip(cases, res):
            if "ok" in r and r["ok"]["oracle"]:
                return shrink(ctx, c, r["ok"]["oracle"][0])
    return None


def replay(ctx, rep):
    case = rep.get("case")
    if not case:
        print(core.canon(rep)[:3000])
        return 0
    r = pool.run_one(MOD, "impl", case, timeout=300)
    print("implementation:", core.canon(r)[:4000])
    if case.get("kind") == "fam":
        load_nf(ctx)
        print("model:", lean.run_driver("drv_cod", [lines(case)]))
    return 1 if ("ok" in r and r["ok"]["oracle"]) else 0
