"""C12 — Schema instances survive serialisation unchanged.

Lean: Model/Codec.lean (grammar Ty, values PyVal, Json, decode/encode, schemas with constants
and extra policy), Proofs/Codec.lean, Props/C12.lean; driver drv_cod.
Real code: every installed schema plugin and schema classes generated from the grammar
(harness/props/schema_gen.py), valid instances built with `S.parse_obj(input)` where a
missing optional is expressed by omission.
Oracle (real code only): parse_raw(o.json()) == o, parse_raw(bytes(o)) == o,
parse_raw(o.yaml()) == o, second trip gives identical text (set-free instances), declared
constants present in json_dict() with their value and ignored on input.
Correspondence: value obtained by pydantic vs. model `decode`, JSON produced by pydantic vs.
model `encode` (parsed JSON equality, arrays of set-typed positions sorted).
"""
import json
import random

from .. import core, lean, pool
from . import schema_gen as G

ID = "C12"
MOD = "harness.props.c12"
T = "MetadorModel.C12."
LEAN = dict(
    modules=["MetadorModel.Props.C12"],
    theorems=[T + n for n in [
        "roundtrip", "roundtrip_at", "roundtrip_idempotent", "constants_forced", "constants_ignored", "omitted_optional_stable",
        "explicit_none_reads_default", "roundtrip_needs_unit", "legacy_opaque_not_serialisable"]],
    drivers=["drv_cod"],
)

NF = {}  # normal-form tables of the opaque codecs, filled by run() through a worker


# ----------------------------------------------------------------------------- oracle (real code)
def _has_set(v):
    """Is the order of the serialised text not determined by the instance? (sets, and the extra
    fields of a model: pydantic collects them by a set difference)"""
    from pydantic import BaseModel

    if isinstance(v, (set, frozenset)):
        return True
    if isinstance(v, BaseModel):
        if len([k for k in v.__dict__ if k not in type(v).__fields__]) > 1:
            return True
        return any(_has_set(x) for x in v.__dict__.values())
    if isinstance(v, (list, tuple)):
        return any(_has_set(x) for x in v)
    if isinstance(v, dict):
        return any(_has_set(x) for x in v.values())
    return False


def _has_nan(j):
    if isinstance(j, float):
        return j != j
    if isinstance(j, list):
        return any(_has_nan(x) for x in j)
    if isinstance(j, dict):
        return any(_has_nan(x) for x in j.values())
    if isinstance(j, str):
        return "nan" in j.lower()
    return False


def _short(x, n=300):
    s = x if isinstance(x, str) else repr(x)
    return s if len(s) <= n else s[:n] + "..."


def check_instance(S, o, inp, schema_name):
    """All clauses of the property for one valid instance. Returns list of violation dicts."""
    V = []

    def bad(kind, **kw):
        d = dict(kind=kind, schema=schema_name, input=inp)
        d.update({k: _short(v) for k, v in kw.items()})
        V.append(d)

    forms = {}
    try:
        forms["json"] = o.json()
    except Exception as e:
        bad("serialise-raises", form="json", error="%s: %s" % (type(e).__name__, e))
        return V
    if _has_nan(json.loads(forms["json"])):
        return V  # NaN excluded (NaN != NaN)
    try:
        forms["bytes"] = bytes(o)
    except Exception as e:
        bad("serialise-raises", form="bytes", error="%s: %s" % (type(e).__name__, e))
    try:
        forms["yaml"] = o.yaml()
    except Exception as e:
        bad("serialise-raises", form="yaml", error="%s: %s" % (type(e).__name__, e))
    setfree = not _has_set(o)
    for form, text in forms.items():
        try:
            o2 = S.parse_raw(text)
        except Exception as e:
            bad("parse-of-own-output-raises", form=form, text=text, error="%s: %s" % (type(e).__name__, e))
            return V  # the other forms and the constant clauses fail for the same reason
        if not (o2 == o):
            bad("roundtrip-differs", form=form, text=text, got=o2.json() if hasattr(o2, "json") else o2)
            return V
        try:
            text2 = {"json": o2.json, "bytes": o2.__bytes__, "yaml": o2.yaml}[form]()
        except Exception as e:
            bad("serialise-raises", form=form + " (second trip)", error="%s: %s" % (type(e).__name__, e))
            continue
        if setfree and text2 != text:
            bad("second-trip-text-differs", form=form, text=text, text2=text2)
        elif not setfree:
            try:
                if not (S.parse_raw(text2) == o):
                    bad("second-trip-differs", form=form, text=text, text2=text2)
            except Exception as e:
                bad("parse-of-own-output-raises", form=form + " (second trip)", text=text2, error="%s: %s" % (type(e).__name__, e))
    # constants
    consts = getattr(S, "__constants__", {})
    if consts:
        jd = o.json_dict()
        for k, v in consts.items():
            if v is None:
                continue  # None means "missing" by convention and is never dumped
            if k not in jd:
                bad("constant-missing-in-output", key=k, expected=v)
            elif jd[k] != json.loads(json.dumps(v)):
                bad("constant-wrong-in-output", key=k, expected=v, got=jd[k])
        for other in ("vt-other-value", 12345, None, ["x"], {"a": 1}):
            d = json.loads(forms["json"])
            for k in consts:
                d[k] = other
            try:
                o3 = S.parse_raw(json.dumps(d))
            except Exception as e:
                bad("constant-on-input-not-ignored", supplied=other, error="%s: %s" % (type(e).__name__, e))
                continue
            if not (o3 == o):
                bad("constant-on-input-not-ignored", supplied=other, got=o3.json())
            else:
                jd3 = o3.json_dict()
                for k, v in consts.items():
                    if v is not None and jd3.get(k) != json.loads(json.dumps(v)):
                        bad("constant-wrong-in-output", key=k, expected=v, got=jd3.get(k), supplied=other)
    return V


def impl(case):
    kind = case["kind"]
    if kind == "shrink":
        return _impl_shrink(case)
    if kind == "nf":
        strings = case["strings"]
        nf = G.normal_forms(strings)
        oracle = []
        # closure: the normal forms themselves must be fixed points of parse-then-encode
        more = sorted({n for t in nf.values() for n in t.values() if isinstance(n, str)} - set(strings))
        nf2 = G.normal_forms(more)
        for k in G.OPAQUE:
            nf[k].update(nf2[k])
            for s, n in list(nf[k].items()):
                if isinstance(n, str) and nf[k].get(n, n) != n:
                    oracle.append(dict(kind="normal-form-not-fixed", type=k, input=s, once=n, twice=nf[k].get(n), error=G.NF_ERRORS.get((k, n), "")))
        return dict(out=None, oracle=oracle, tags=["nf-table"], nf=nf)
    from pydantic import ValidationError

    out, oracle, tags = [], [], []
    if kind == "inst":
        S = G.installed_schemas()[case["schema"]]
        rng = random.Random(case["seed"])
        nvalid = 0
        for i in range(case["n"]):
            inp = G.gen_model_input(rng, S, case.get("depth", 2))
            o = None
            for attempt in range(8):
                try:
                    o = S.parse_obj(json.loads(json.dumps(inp)))
                    break
                except ValidationError as e:
                    if not G.repair_input(inp, e.errors()):
                        break
            if o is None:
                tags.append("gen-invalid")
                continue
            nvalid += 1
            oracle += check_instance(S, o, json.loads(json.dumps(inp)), case["schema"])
            if len(inp) > 3:
                tags.append("installed-rich")
        tags.append("installed:%s" % case["schema"])
        if case["schema"] in G.UNRESOLVED:
            tags.append("forward-refs-unresolved:%s" % case["schema"])
        if nvalid == 0:
            tags.append("no-valid-instance:%s" % case["schema"])
        return dict(out=None, oracle=oracle[:20], tags=tags, nvalid=nvalid)
    if kind == "inst1":
        S = G.installed_schemas()[case["schema"]]
        for inp in case["inputs"]:
            try:
                o = S.parse_obj(json.loads(json.dumps(inp)))
            except ValidationError:
                tags.append("gen-invalid")
                continue
            oracle += check_instance(S, o, inp, case["schema"])
        return dict(out=None, oracle=oracle[:20], tags=tags + ["installed:%s" % case["schema"]], nvalid=len(case["inputs"]) - tags.count("gen-invalid"))
    if kind == "fam":
        F = G.Family(case["fam"])
        try:
            S = F.classes[case["root"]]
            try:
                from metador_core.schema.core import check_types
                check_types(S)
                tags.append("check_types-ok")
            except TypeError:
                tags.append("check_types-refuses")
            for inp in case["inputs"]:
                try:
                    o = S.parse_obj(json.loads(json.dumps(inp)))
                except ValidationError as e:
                    out += ["err", "-"]
                    tags.append("gen-invalid")
                    continue
                except Exception as e:  # e.g. tokenize.TokenError out of pint
                    out += ["err", "-"]
                    tags.append("gen-invalid-exc:%s:%s" % (type(e).__name__, json.dumps(inp)[:200]))
                    continue
                oracle += check_instance(S, o, inp, case["root"])
                out.append(G.pyval_str(o))
                try:
                    out.append(G.json_str(o.json_dict()))
                except Exception as e:  # reported by the oracle as serialise-raises
                    out.append("!%s" % type(e).__name__)
                tags += _inst_tags(case["fam"], case["root"], inp)
        finally:
            F.close()
        return dict(out=out, oracle=oracle[:20], tags=sorted(set(tags)))
    raise ValueError(kind)


def _impl_shrink(req):
    """Greedy structural shrinking inside one worker (the oracle is re-run on every candidate)."""
    case, want = req["case"], req["want"]
    budget = [req.get("budget", 400)]

    def fails(c):
        budget[0] -= 1
        try:
            r = impl(c)
        except Exception:
            return None
        ds = [d for d in r["oracle"] if d.get("kind") == want and (not req.get("form") or d.get("form") == req.get("form"))]
        return ds[0] if ds else None

    det = fails(case)
    if det is None:
        return dict(out=None, oracle=[], tags=[], case=case, detail=None)
    cur = case
    if len(cur["inputs"]) > 1:
        for inp in cur["inputs"]:
            c = dict(cur, inputs=[inp])
            d = fails(c)
            if d:
                cur, det = c, d
                break
    inp = _shrink_json(cur["inputs"][0], lambda c: fails(dict(cur, inputs=[c])), budget)
    cur = dict(cur, inputs=[inp])
    if cur["kind"] == "fam":
        for cd_i in range(len(cur["fam"])):
            for part in ("fields", "consts"):
                j = 0
                while j < len(cur["fam"][cd_i][part]) and budget[0] > 0:
                    fam2 = json.loads(json.dumps(cur["fam"]))
                    del fam2[cd_i][part][j]
                    c = dict(cur, fam=fam2)
                    if fails(c):
                        cur = c
                    else:
                        j += 1
        # drop classes nobody refers to
        i = len(cur["fam"]) - 1
        while i >= 0 and budget[0] > 0:
            if cur["fam"][i]["name"] != cur["root"]:
                fam2 = [cd for k, cd in enumerate(cur["fam"]) if k != i]
                c = dict(cur, fam=fam2)
                if fails(c):
                    cur = c
            i -= 1
    det = fails(cur) or det
    return dict(out=None, oracle=[], tags=[], case=cur, detail=det)


def _inst_tags(fam, root, inp):
    tg = set()
    kinds = json.dumps(fam)
    for a in ("dur", "unit", "qty"):
        if '"%s"' % a in kinds:
            tg.add("has-" + a)
    if '"set"' in kinds:
        tg.add("has-set")
    if '"union"' in kinds:
        tg.add("has-union")
    if any(cd["consts"] for cd in fam):
        tg.add("has-const")
    if any(cd["parent"] for cd in fam):
        tg.add("has-inheritance")
    if len(G.eff_fields(fam, root)) > len(inp):
        tg.add("omitted-optional")
    for v in inp.values():
        if v in (0, False, "", [], 0.0) and not isinstance(v, dict):
            tg.add("falsy-value")
    return tg


# ----------------------------------------------------------------------------- model lines
def lines(case):
    if case["kind"] != "fam" or case.get("nomodel"):
        return []
    fam = case["fam"]
    strs = set()
    for cd in fam:
        for f in cd["fields"]:
            if f[2] is not None:
                G.strings_in(f[2]["v"], strs)
    for inp in case["inputs"]:
        G.strings_in(inp, strs)
    closure = set(strs)
    for k in G.OPAQUE:
        for s in strs:
            n = NF.get(k, {}).get(s)
            if isinstance(n, str):
                closure.add(n)
    L = G.nf_lines(NF, closure)
    for cd in fam:
        L.append(G.cls_line(fam, cd["name"]))
    for inp in case["inputs"]:
        L.append("dec model(%s) %s" % (case["root"], G.json_str(inp)))
        L.append("encdec model(%s) %s" % (case["root"], G.json_str(inp)))
    return L


def compare(case, ir, mo):
    if case["kind"] != "fam" or case.get("nomodel"):
        return None
    k = len(mo) - 2 * len(case["inputs"])
    mo = mo[k:]
    a = ir["out"]
    if len(a) != len(mo):
        return "length %d vs %d" % (len(a), len(mo))
    fam, root = case["fam"], case["root"]
    for i in range(0, len(a), 2):
        rv, rj, mv, mj = a[i], a[i + 1], mo[i], mo[i + 1]
        if rv == "err" or mv.startswith("err"):
            if (rv == "err") != mv.startswith("err"):
                return "input %d: acceptance differs: impl=%r model=%r" % (i // 2, rv[:200], mv[:200])
            continue
        if G.canon_term(rv) != G.canon_term(mv):
            return "input %d: decoded value differs: impl=%r model=%r" % (i // 2, G.canon_term(rv)[:300], G.canon_term(mv)[:300])
        try:
            jr = G.canon_json(fam, ["model", root], G.term_to_json(G.parse_term(rj)))
            jm = G.canon_json(fam, ["model", root], G.term_to_json(G.parse_term(mj)))
        except ValueError as e:
            return "input %d: unparsable json term (%s): impl=%r model=%r" % (i // 2, e, rj[:200], mj[:200])
        if jr != jm:
            return "input %d: encoded JSON differs: impl=%r model=%r" % (i // 2, json.dumps(jr)[:300], json.dumps(jm)[:300])
    return None


# ----------------------------------------------------------------------------- generators
def gen_fam_cases(ctx, n):
    rng = ctx.rng
    cases = []
    for i in range(n):
        fam = G.rand_family(rng, n_classes=rng.randrange(1, 5), depth=rng.randrange(0, 3))
        root = rng.choice(fam)["name"]
        inputs = []
        for _ in range(4 if ctx.quick else 6):
            inp = G.gen_obj(rng, fam, root, 2)
            if G.model_safe_json(inp):
                inputs.append(inp)
        cases.append(dict(kind="fam", fam=fam, root=root, inputs=inputs))
    return cases


def focused_families():
    """Hand-picked shapes the property names (always run)."""
    I, S, O = ["int"], ["str"], lambda t: ["opt", t]
    fams = []
    fams.append(([dict(name="Aa", parent=None, extra=None, fields=[["d", ["dur"], None], ["u", ["unit"], None], ["q", ["qty"], None], ["od", O(["dur"]), None],
                                                                        ["lu", ["list", ["unit"]], None], ["sq", O(["set", ["unit"]]), None]], consts=[], overrides=[], mandatory=[])], "Aa",
                 [{"d": "PT60S", "u": "m", "q": "5 m/s".replace("/s", ""), "lu": ["m", "s", "meter"], "sq": ["m", "meter", "s"]},
                  {"d": "P1DT2H3M4S", "u": "kg*m/s**2", "q": "2.5 kg*m/s**2", "od": "PT0.5S", "lu": []},
                  {"d": "-PT5S", "u": "1", "q": "3", "lu": ["%"]}, {"d": "PT0S", "u": "dimensionless", "q": "0 m", "lu": []}]))
    fams.append(([dict(name="Aa", parent=None, extra=None, fields=[["b", ["bool"], None], ["i", I, None], ["f", ["float"], None], ["s", S, None], ["ob", O(["bool"]), None],
                                                                        ["oi", O(I), None], ["of", O(["float"]), None], ["li", ["list", I], None], ["si", ["set", I], None],
                                                                        ["di", I, {"v": 5}], ["odi", O(I), None]], consts=[], overrides=[], mandatory=[])], "Aa",
                 [{"b": False, "i": 0, "f": 0.0, "s": "0", "ob": False, "oi": 0, "of": -0.0, "li": [], "si": []},
                  {"b": True, "i": -1, "f": 1e22, "s": " a ", "li": [0, 0, 1], "si": [1, 1, 2], "di": 0},
                  {"b": True, "i": 2 ** 53 + 1, "f": 5e-324, "s": "null", "li": [10 ** 20], "si": [0], "odi": 0}]))
    fams.append(([dict(name="Aa", parent=None, extra=None, fields=[["n", O(["nes"]), None], ["m", O(["mime"]), None], ["h", O(["hash"]), None], ["q", O(["qhash"]), None],
                                                                        ["l", ["lit", ["a", 1, True]], None], ["u", ["union", [I, ["nes"], ["bool"]]], None]],
                       consts=[["@context", "https://schema.org"], ["@type", "Thing"], ["kc2", {"a": [1, None, 1.5]}]], overrides=[], mandatory=[])], "Aa",
                 [{"n": " x ", "m": "a/b;c", "h": "AbCdEf09", "q": "sha256:ab", "l": "a", "u": 0}, {"l": 1, "u": " "[:0] + "z"}, {"l": True, "u": False, "@type": "Other", "@context": None},
                  {"l": 1.0, "u": "1", "zz_extra": {"k": None}}]))
    # nested + recursive + inheritance + extra policies
    fams.append(([dict(name="Aa", parent=None, extra="forbid", fields=[["id", ["nes"], None]], consts=[], overrides=[], mandatory=[]),
                  dict(name="Bb", parent=None, extra=None, fields=[["name", O(["nes"]), None], ["kids", O(["list", ["model", "Bb"]]), None], ["ref", O(["union", [["model", "Aa"], ["nes"]]]), None]],
                       consts=[["@type", "Node"]], overrides=[], mandatory=[]),
                  dict(name="Cc", parent="Bb", extra="ignore", fields=[["w", ["float"], None], ["name", ["nes"], None]], consts=[["@type", "Leaf"]], overrides=[], mandatory=[])], "Cc",
                 [{"w": 1.5, "name": "n", "kids": [{"name": "k1"}, {"kids": [{"name": "deep", "junk": 1}]}], "ref": {"id": "x"}, "junk": [1]},
                  {"w": 0.0, "name": "0", "ref": "x"}, {"w": -0.0, "name": "n", "kids": []}]))
    out = [dict(kind="fam", fam=f, root=r, inputs=i) for f, r, i in fams]
    # two YAML hazards of ruamel.yaml reached through BaseModelPlus.yaml() (fixed probes, kept out of the random pools)
    one = [dict(name="Aa", parent=None, extra=None, fields=[["s", O(["nes"]), None]], consts=[], overrides=[], mandatory=[])]
    out.append(dict(kind="fam", fam=one, root="Aa", inputs=[{"s": "a\x85b"}], nomodel=True))
    out.append(dict(kind="fam", fam=one, root="Aa", inputs=[{"a b " * 20 + "x": 1}], nomodel=True))
    return out


def gen_inst_cases(ctx, names):
    cases = []
    per = 3 if ctx.quick else 12
    for name in names:
        for k in range(per):
            cases.append(dict(kind="inst", schema=name, seed=ctx.rng.randrange(1 << 30), n=8 if ctx.quick else 25, depth=2 + (k % 2)))
    return cases


def installed_names():
    r = pool.run_one(MOD, "list_installed", {}, timeout=300)
    if "ok" not in r:
        raise lean.InfraError("cannot list installed schemas: %s" % (r,))
    return r["ok"]


def list_installed(case):
    return sorted(G.installed_schemas().keys())


def load_nf(ctx):
    r = pool.run_one(MOD, "impl", dict(kind="nf", strings=G.all_pool_strings()), timeout=600)
    if "ok" not in r:
        raise lean.InfraError("normal-form table: %s" % (r,))
    NF.clear()
    NF.update(r["ok"]["nf"])
    for d in r["ok"]["oracle"]:
        ctx.oracle_hit(dict(kind="nf"), d, group="normal-forms")
    ctx.note_case(dict(kind="nf"), ["nf-table"])


def ensure_nf(ctx, cases, report=True):
    """Normal forms of every string occurring in the cases (beyond the pools)."""
    strs = set()
    for c in cases:
        G.strings_in(c.get("inputs", []), strs)
        G.strings_in(c.get("values", []), strs)
        for cd in c.get("fam", []):
            for f in cd["fields"]:
                if f[2] is not None:
                    G.strings_in(f[2]["v"], strs)
    missing = sorted(x for x in strs if x not in NF.get("dur", {}) and G.model_safe_json(x))
    if not missing:
        return
    r = pool.run_one(MOD, "impl", dict(kind="nf", strings=missing), timeout=600)
    if "ok" not in r:
        raise lean.InfraError("normal-form table: %s" % (r,))
    for k in G.OPAQUE:
        NF.setdefault(k, {}).update(r["ok"]["nf"][k])
    if report:
        for d in r["ok"]["oracle"]:
            ctx.oracle_hit(dict(kind="nf"), d, group="normal-forms")


def run(ctx):
    ctx.rule = ("cases: (inst) every installed schema plugin, instances generated from the field hints (optional = omitted) and built with parse_obj; "
                "(fam) families of 1-4 schema classes generated from the field-type grammar (strict primitives incl. falsy values, constrained strings, Literal, "
                "Optional, unambiguous Unions, List, Set of hashables, nested / recursive / inherited schemas, Duration, PintUnit, PintQuantity, constants, extra policies, "
                "defaults), 4-6 valid inputs each; hand-picked families always run. Non-trivial = tagged (has-dur/unit/qty/set/union/const/inheritance, omitted optional, falsy value, "
                "rich installed instance).")
    ctx.assumptions += [
        "CPython float repr round-trips (hypothesis `FloatCodecOk` of C12.roundtrip; floats travel as repr tokens, compared by value)",
        "isodate / pint string codecs are inverse on their normal forms (hypothesis `NormOk`; the graph of parse-then-format on every string used is taken from the real libraries and its fixed-point property is checked by the oracle)",
        "union alternatives of generated schemas have disjoint JSON encodings (pydantic left-to-right unions are otherwise inherently ambiguous)",
        "strings sent to the model use ASCII whitespace only (the oracle also uses others)",
    ]
    load_nf(ctx)
    corpus = core.load_corpus(ID)
    fam_cases = [c for c in corpus if c["kind"] == "fam"] + focused_families() + gen_fam_cases(ctx, 300 if ctx.quick else 6000)
    ensure_nf(ctx, fam_cases)
    ctx.correspond("codec-families", MOD, fam_cases, lines, "drv_cod", compare=compare, timeout=120)
    names = installed_names()
    inst = [c for c in corpus if c["kind"] in ("inst", "inst1")] + gen_inst_cases(ctx, names)
    res = pool.run(MOD, "impl", inst, timeout=300)
    seen_valid = {}
    for c, r in zip(inst, res):
        if "timeout" in r:
            ctx.oracle_hit(c, {"kind": "does-not-terminate", "limit_s": 300}, group="installed")
            continue
        if "crash" in r:
            raise lean.InfraError("harness crashed on %s: %s\n%s" % (core.canon(c)[:200], r["crash"], r.get("tb", "")))
        for d in r["ok"]["oracle"]:
            ctx.oracle_hit(c, d, group="installed")
        seen_valid[c["schema"]] = seen_valid.get(c["schema"], 0) + r["ok"].get("nvalid", 0)
        ctx.note_case(c, r["ok"]["tags"], c.get("n", len(c.get("inputs", []))))
    for n in names:
        if not seen_valid.get(n):
            raise lean.InfraError("no valid instance generated for installed schema %s" % n)
    ctx.notes.append("installed schemas exercised (valid instances): %s" % ", ".join("%s(%d)" % (n, seen_valid[n]) for n in names))
    if any(t.startswith("tag:forward-refs-unresolved") for t in ctx.dist):
        ctx.notes.append("core.packerinfo: field `packer: PGPacker.PluginRef` is an unresolved forward reference in a fresh process (instantiation raises ConfigError "
                         "until `.Partial` / `update_forward_refs()` is touched); the harness calls update_forward_refs() before generating instances")
    ctx.notes.append("observations outside the statement: the Duration parser drops years and months (\"P1Y\" is read as zero seconds; the instance then round-trips); "
                     "a zero PintQuantity *object* is refused by its own parser (`if not v`), JSON/YAML/bytes are not affected")
    if not ctx.quick:
        ctx.exhaustive_spaces.append("every string of the value pools through the three opaque codecs (normal-form fixed point)")


def signature(case, detail):
    if not isinstance(detail, dict):
        return "%s:%s" % (ID, str(detail)[:40])
    kind = detail.get("kind")
    if kind == "normal-form-not-fixed":
        cause = ":offset-unit" if "offset unit" in str(detail.get("error", "")).lower() else ""
        return "%s:%s:%s%s" % (ID, kind, detail.get("type"), cause)
    if detail.get("form") == "yaml" and kind in ("parse-of-own-output-raises", "roundtrip-differs"):
        strs = G.strings_in(case.get("inputs", [detail.get("input")]))
        if any("\x85" in x for x in strs):
            return "%s:yaml-nel-character" % ID
        if "mapping values are not allowed" in str(detail.get("error", "")) and any(len(x) > 80 and " " in x for x in strs):
            return "%s:yaml-long-key" % ID
    where = case.get("schema") if case.get("kind") in ("inst", "inst1") else "generated"
    return "%s:%s:%s" % (ID, kind, where)


def _fails(case, want):
    r = pool.run_one(MOD, "impl", case, timeout=300)
    ds = [d for d in r.get("ok", {}).get("oracle", []) if d.get("kind") == want]
    return ds[0] if ds else None


def _shrink_json(obj, test, budget):
    """Greedy structural shrinking of a JSON input: drop dict keys / list items (outermost
    first), as long as `test(candidate)` still fails."""
    changed = True
    while changed and budget[0] > 0:
        changed = False
        paths = []

        def walk(x, path):
            if isinstance(x, dict):
                for k in x:
                    paths.append(path + [k])
                for k, v in x.items():
                    walk(v, path + [k])
            elif isinstance(x, list):
                for i in range(len(x)):
                    paths.append(path + [i])
                for i, v in enumerate(x):
                    walk(v, path + [i])

        walk(obj, [])
        paths.sort(key=len)
        for pth in paths:
            cand = json.loads(json.dumps(obj))
            cur = cand
            for x in pth[:-1]:
                cur = cur[x]
            del cur[pth[-1]]
            budget[0] -= 1
            if budget[0] <= 0:
                break
            if test(cand):
                obj = cand
                changed = True
                break
    return obj


def shrink(ctx, case, detail):
    if not isinstance(detail, dict) or case.get("kind") not in ("fam", "inst", "inst1"):
        return case, detail
    if case["kind"] in ("inst", "inst1"):
        if not isinstance(detail.get("input"), dict):
            return case, detail
        case = dict(kind="inst1", schema=case["schema"], inputs=[detail["input"]])
    r = pool.run_one(MOD, "impl", dict(kind="shrink", case=case, want=detail.get("kind"), form=detail.get("form")), timeout=600)
    if "ok" in r and r["ok"].get("detail"):
        return r["ok"]["case"], r["ok"]["detail"]
    return case, detail


def search(ctx):
    for s in range(1, 4):
        sub = core.Ctx(ID, "quick", ctx.seed + 7919 * s)
        cases = gen_fam_cases(sub, 150)
        res = pool.run(MOD, "impl", cases, timeout=120)
        ctx.search_log.append("seed %d: %d generated families, oracle only" % (sub.seed, len(cases)))
        for c, r in zip(cases, res):
            if "ok" in r and r["ok"]["oracle"]:
                return shrink(ctx, c, r["ok"]["oracle"][0])
    return None


def replay(ctx, rep):
    case = rep.get("case")
    if not case:
        print(core.canon(rep)[:3000])
        return 0
    r = pool.run_one(MOD, "impl", case, timeout=300)
    print("implementation:", core.canon(r)[:4000])
    if case.get("kind") == "fam":
        load_nf(ctx)
        print("model:", lean.run_driver("drv_cod", [lines(case)]))
    return 1 if ("ok" in r and r["ok"]["oracle"]) else 0
