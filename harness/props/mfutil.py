"""Helpers shared by C05 and C10: file sets that contain a stub, merge attempts that have to be
refused, hashing of record directories."""
import hashlib
import os

from . import h5util as H


def hashes(d):
    out = {}
    for fn in sorted(os.listdir(d)):
        p = os.path.join(d, fn)
        if os.path.isfile(p):
            out[fn] = hashlib.sha256(open(p, "rb").read()).hexdigest()
    return out


def stub_flags(rec):
    """one character per container (oldest first): is it marked as a stub"""
    from metador_core.ih5.manifest import IH5UBExtManifest

    fl = []
    for ub in rec.ih5_meta:
        ext = IH5UBExtManifest.get(ub)
        fl.append("1" if ext is not None and ext.is_stub_container else "0")
    return "".join(fl)


def guard_word(e):
    """outcome of a merge attempt in the vocabulary of the model's `mergeGuard`"""
    if e is None:
        return "merge-allowed"
    msg = str(e)
    if isinstance(e, ValueError) and "stub" in msg:
        return "refused-stub"
    if isinstance(e, ValueError) and "commit or discard" in msg:
        return "refused-writable"
    return "refused-other:" + type(e).__name__


STUB_OPENINGS = ["name", "list", "reversed", "name-rw"]


def stub_set_merges(tmp, mfpath, spec, oracle, tags, name="rec", kind="merge-of-stub-not-refused"):
    """Create a stub from the manifest `mfpath`, put `spec["patches"]` (a list of op lists,
    0..3) on top as committed patches, and try to merge the set: in the session that made it
    (after the stub and after every commit) and re-opened from disk in every legal way (by
    record name, by file list, by file list in another order, by name in 'r+' with the
    automatically created patch committed). Every attempt has to be refused and must not leave
    a container behind. Returns the (guard line, outcome word) pairs for the model tie."""
    from pathlib import Path
    from metador_core.ih5.manifest import IH5MFRecord

    sdir = os.path.join(tmp, "stubset")
    odir = os.path.join(tmp, "stubset-out")
    os.makedirs(sdir)
    os.makedirs(odir)
    pairs = []
    n = [0]

    def attempt(rec, how, npatch):
        n[0] += 1
        tname = "m%d" % n[0]
        flags = stub_flags(rec)
        err = None
        try:
            rec.merge_files(Path(odir) / tname)
        except Exception as e:  # noqa: BLE001
            err = e
        word = guard_word(err)
        pairs.append(("guard %s 0" % flags, word))
        if err is None:
            oracle.append(dict(kind=kind, opened=how, patches_on_stub=npatch, stub_flags=flags))
        elif os.listdir(odir):
            oracle.append(dict(kind="refused-merge-left-file", opened=how, patches_on_stub=npatch, files=sorted(os.listdir(odir))))
        for f in os.listdir(odir):
            os.remove(os.path.join(odir, f))

    patches = spec.get("patches") or []
    stub = IH5MFRecord.create_stub(Path(sdir) / name, Path(mfpath))
    attempt(stub, "session", 0)
    for k, ops in enumerate(patches):
        stub.create_patch()
        for op in ops:
            H.apply_op(stub, op)
        stub.commit_patch()
        attempt(stub, "session", k + 1)
    files = [Path(p) for p in stub.ih5_files]
    stub.close()
    for how in spec.get("reopen") or STUB_OPENINGS:
        if how == "name":
            rec = IH5MFRecord(Path(sdir) / name, "r")
        elif how == "list":
            rec = IH5MFRecord(list(files), "r")
        elif how == "reversed":
            rec = IH5MFRecord(list(reversed(files)), "r")
        else:  # by name in r+: a new patch is created, commit it, then try to merge
            rec = IH5MFRecord(Path(sdir) / name, "r+")
            rec.commit_patch()
        attempt(rec, how, len(patches))
        rec.close()
    tags.append("stub-set-patches=%d" % len(patches))
    if patches:
        tags.append("stub-with-patches-reopened")
    return pairs
