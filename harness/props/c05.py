"""C05 — merge materialises the overlay view and continues the patch chain.

Oracle (real code only): after a random history producing an N-container record, `merge_files`
gives a single container whose dump equals the overlay view; the merged user block identifies
the same record at the same patch state; the source is unchanged on disk (sha256 of every
file) and as observed through the still-open object (dump, ih5_meta); follow-up patches made
on the source apply to the merged container with the same result; merging is refused while
there are uncommitted changes and when the set contains a stub.
Correspondence: the Lean overlay model (`drv_ov`, C01's model) computes the merged container
from the same history (`merge` op) and its view.
"""
import hashlib
import os
import shutil
import tempfile

from .. import core, lean, pool
from . import h5util as H
from . import mfutil as MU

ID = "C05"
MOD = "harness.props.c05"
LEAN = dict(modules=["MetadorModel.Props.C05"],
            theorems=["MetadorModel.C05." + n for n in ['merge_identity', 'merge_defined', 'merge_continues_chain', 'merge_is_base', 'next_patch_follows_merged', 'merge_view', 'merge_single', 'merge_succeeds', 'merge_idempotent_on_view',
                                                               'merge_inv', 'merge_mentions', 'merge_followups_over',
                                                               'merge_followups_same_view', 'merge_followups_fold',
                                                               'merge_same_update_partial', 'merge_same_update',
                                                               'coherent_ends', 'coherent_append', 'squash_coherent',
                                                               'merge_refused_with_stub', 'merge_refused_when_writable', 'merge_allowed_iff']]
            + ["MetadorModel.Follow." + n for n in ['invLast_transfer', 'follow_same_view', 'view_fold_over', 'invB_sound']],
            drivers=["drv_mrg"])
# translated tie (harness/translate_c05.py): `merge_files` (both classes), `_fixes_after_merge`, and `commit_patch` (which
# the `with` block of `merge_files` runs on the target) are regenerated from the source on every run
LEAN["modules"] += ["MetadorModel.Bridge.MergeFnsTree", "MetadorModel.Bridge.MergeFnsCommit", "MetadorModel.Bridge.MergeFns"]
LEAN["theorems"] += ["MetadorModel.Bridge.MergeFns." + n for n in [
    'flatMap_blocks', 'listing_blocks', 'mergeFold_eq',
    'gen_manifest', 'gen_fresh_manifest', 'gen_commit_patch_ok', 'gen_commit_patch_refused',
    'gen_merge_files_mf', 'gen_merge_refused', 'gen_stub_merge_refused', 'gen_merge_loops',
    'gen_merge_files_plain', 'gen_merge_files_mfcls', 'gen_merge_files_ok', 'gen_merged_ub', 'gen_merge_files_replayable']]


def translate(ctx):
    """regenerate Gen/MergeFns.lean from the current source (`IH5Record.merge_files`, `_fixes_after_merge`,
    `IH5MFRecord.merge_files`, `_fixes_after_merge`, `manifest`, `_fresh_manifest`, `commit_patch`, `create_stub`,
    `init_stub_skeleton`, `init_stub_base`); the bridge modules prove it equal to Model/Merge.lean. Shared with C10."""
    from .. import translate_c05
    ctx.trusted.append("harness/translate_c05.py (Python ast -> Lean) for merge_files / _fixes_after_merge / commit_patch / "
                       "create_stub / init_stub_skeleton / init_stub_base with its value dictionary lean/MetadorModel/Py/MergePy.lean; "
                       "bridge theorems (Bridge/MergeFns*.lean) re-checked on every run")
    try:
        return translate_c05.write(lean)
    except translate_c05.TranslateError:
        raise  # what could be translated has been written; the bridge modules of the rest fail to build
    except Exception as e:  # noqa: BLE001
        translate_c05.write_stub(lean, "%s: %s" % (type(e).__name__, e))
        raise


def _hashes(d):
    return MU.hashes(d)


def _meta(rec):
    return [[str(u.record_uuid), u.patch_index, str(u.patch_uuid), str(u.prev_patch) if u.prev_patch else None,
             str(u.hdf5_hashsum) if u.hdf5_hashsum else None, sorted(u.ub_exts.keys())] for u in rec.ih5_meta]


def ncont_of(case):
    """number of committed containers of the source at the moment of the merge"""
    return 1 + sum(1 for o in case["ops"] if o[0] == "patch") + (1 if case.get("pre") == "live" else 0)


def squash_run(case):
    """the run (i, j) of containers (0 = oldest) denoted by case["squash"] = [a, b], or None"""
    sq = case.get("squash")
    if not sq:
        return None
    n = ncont_of(case)
    i = sq[0] % n
    j = i + sq[1] % (n - i)
    return i, j


# merge targets, relative to a source record NAME in directory SRC (MERGED = directory of the
# main merge, which already holds a record NAME)
TARGETS = [
    ["own", "="],          # the source's own record path: merge "in place"
    ["own", "=file"],      # the path of the source's base container file
    ["own", "prefix"],     # same directory, a name that is a prefix of the source name
    ["own", "ext"],        # same directory, names that extend the source name
    ["own", "ext-"],
    ["own", "patchlike"],  # NAME.p1 (not a valid record name)
    ["merged", "="],       # an existing OTHER record (the result of the first merge)
    ["fresh", "="],        # a fresh directory, same name
    ["fresh", "other"],    # a fresh directory, another name
]


def _target_name(name, how):
    return {"=": name, "=file": name + ".ih5", "prefix": name[:-1] or "x", "ext": name + "x", "ext-": name + "-1",
            "patchlike": name + ".p1", "other": "other"}[how]


def _open_source(cls, src_dir, name, mode, how, files):
    from pathlib import Path

    if how == "list":
        return cls([Path(p) for p in files], mode)
    if how == "reversed":
        return cls([Path(p) for p in reversed(files)], mode)
    return cls(Path(src_dir) / name, mode)


def _check_merged(cls, path_or_list, d0, m0, oracle, what, **kw):
    """open a merged container on its own: one container, the source's view, the source's identity"""
    try:
        merged = cls(path_or_list, "r", **kw)
    except Exception as e:  # noqa: BLE001
        oracle.append(dict(kind="merged-record-does-not-open", error="%s: %s" % (type(e).__name__, str(e)[:160]), target=what))
        return None, None
    try:
        dm = H.dump(merged)
        mm = _meta(merged)
    finally:
        merged.close()
    if len(mm) != 1:
        oracle.append(dict(kind="merged-not-single-container", n=len(mm), target=what))
    if dm != d0:
        diff = sorted(p for p in set(dm) | set(d0) if dm.get(p) != d0.get(p))[:5]
        oracle.append(dict(kind="merged-view-differs", paths=diff, merged=[dm.get(p) for p in diff], source=[d0.get(p) for p in diff], target=what))
    # same record, same patch state, chain start inherited from the OLDEST merged container
    if mm and (mm[0][0] != m0[-1][0] or mm[0][1] != m0[-1][1] or mm[0][2] != m0[-1][2] or mm[0][3] != m0[0][3] or mm[0][4] is None):
        oracle.append(dict(kind="merged-userblock-wrong", merged=mm[0], source_last=m0[-1], source_first=m0[0], target=what))
    return dm, mm


def _source_unchanged(src, src_dir, d0, m0, h0, oracle, what):
    """the source as seen through the still-open object and on disk; True iff unchanged"""
    ok = True
    try:
        d1 = H.dump(src)
        m1 = _meta(src)
    except Exception as e:  # noqa: BLE001
        oracle.append(dict(kind="source-view-changed-by-merge", error=type(e).__name__, target=what))
        return False
    h1 = _hashes(src_dir)
    if d1 != d0:
        oracle.append(dict(kind="source-view-changed-by-merge", target=what))
        ok = False
    if m1 != m0:
        oracle.append(dict(kind="source-meta-changed-by-merge", before=m0[-1], after=m1[-1], target=what))
        ok = False
    changed = sorted(k for k in h0 if h0.get(k) != h1.get(k))
    if changed:
        oracle.append(dict(kind="source-files-changed-by-merge", changed=changed, gone=[k for k in changed if k not in h1], target=what))
        ok = False
    return ok


def impl(case):
    from pathlib import Path
    from metador_core.ih5.record import IH5Record
    from metador_core.ih5.manifest import IH5MFRecord

    cls = IH5MFRecord if case["cls"] == "mf" else IH5Record
    name = case.get("name") or "rec"
    tmp = tempfile.mkdtemp(prefix="vt-c05-")
    oracle, tags, out = [], [], []
    try:
        src_dir = os.path.join(tmp, "src")
        os.makedirs(src_dir)
        rec = cls(Path(src_dir) / name, "w")
        ncont = 1
        for op in case["ops"]:
            if op[0] == "patch":
                rec.commit_patch()
                rec.create_patch()
                ncont += 1
                out.append("ok")
            else:
                out.append(H.oc(H.apply_op(rec, op)))
        # refused while there are uncommitted changes
        try:
            rec.merge_files(Path(tmp) / "early")
            oracle.append(dict(kind="merge-not-refused-while-writable"))
        except ValueError:
            pass
        if os.path.exists(os.path.join(tmp, "early.ih5")):
            oracle.append(dict(kind="refused-merge-left-file"))
        rec.commit_patch()
        files_built = [str(p) for p in rec.ih5_files]
        rec.close()
        if ncont >= 3:
            tags.append("containers>=3")
        if any(o[0] == "del" for o in case["ops"]):
            tags.append("has-delete")

        pre = case.get("pre")
        how = case.get("src_open") or "name"
        if how != "name":
            tags.append("source-opened-by-file-list")
        if pre == "discard":
            # leave an uncommitted patch on disk, reopen, discard it, then merge from that handle
            s1 = cls(Path(src_dir) / name, "r+")
            H.apply_op(s1, ["set", "/zz-uncommitted", "i:1"])
            s1.close(commit=False)
            src = cls(Path(src_dir) / name, "r+")
            src.discard_patch()
            tags.append("merge-after-discard")
        elif pre == "live":
            # a handle that stays in use after the merge: r+ (adds an empty patch), commit it
            src = _open_source(cls, src_dir, name, "r+", how, files_built)
            src.commit_patch()
            tags.append("merge-from-live-handle")
        else:
            src = _open_source(cls, src_dir, name, "r", how, files_built)
        if pre == "failed-commit":
            try:
                src.commit_patch()
                oracle.append(dict(kind="commit-on-read-only-handle-not-refused"))
            except ValueError:
                pass
            tags.append("merge-after-refused-commit")
        d0 = H.dump(src)
        m0 = _meta(src)
        h0 = _hashes(src_dir)
        files0 = [str(p) for p in src.ih5_files]
        mdir = os.path.join(tmp, "merged")
        os.makedirs(mdir)
        try:
            src.merge_files(Path(mdir) / name)
        except Exception as e:  # noqa: BLE001
            oracle.append(dict(kind="merge-of-committed-record-fails", error=type(e).__name__))
            src.close()
            return dict(out=out + [H.show_dump(d0), "wf T", "ok", "err"], oracle=oracle, tags=tags, partial=True)
        _source_unchanged(src, src_dir, d0, m0, h0, oracle, "fresh directory")

        # merge targets of every kind, from the same still-open object: whatever the target names and
        # whether or not the merge is refused, the source stays what it was; a merge that goes
        # through yields the merged record
        for ti, (where, hown) in enumerate(case.get("targets") or []):
            tname = _target_name(name, hown)
            tdir = src_dir if where == "own" else mdir if where == "merged" else os.path.join(tmp, "t%d" % ti)
            os.makedirs(tdir, exist_ok=True)
            what = "%s/%s" % (where, hown)
            before = set(os.listdir(tdir))
            is_self = where == "own" and hown in ("=", "=file")
            err = None
            try:
                src.merge_files(Path(tdir) / tname)
            except Exception as e:  # noqa: BLE001
                err = e
            tags.append("target:" + what + (":refused" if err is not None else ":merged"))
            if not _source_unchanged(src, src_dir, d0, m0, h0, oracle, what):
                # the source is damaged: nothing below makes sense any more
                try:
                    src.close()
                except Exception:  # noqa: BLE001
                    pass
                return dict(out=out + [H.show_dump(d0), "wf T", "ok", "ok"], oracle=oracle, tags=tags, partial=True)
            if err is None and not is_self and where != "merged":
                _check_merged(cls, Path(tdir) / tname, d0, m0, oracle, what)
            if where != "merged":
                for f in set(os.listdir(tdir)) - before:
                    os.remove(os.path.join(tdir, f))

        if pre == "live" and case.get("follow"):
            # keep using the same object: what it shows must be what a fresh object shows
            src.create_patch()
            for op in case["follow"]:
                if op[0] == "patch":
                    src.commit_patch()
                    src.create_patch()
                else:
                    H.apply_op(src, op)
            d_live = H.dump(src)
            src.commit_patch()
            src.close()
            fresh = cls(Path(src_dir) / name, "r")
            d_fresh = H.dump(fresh)
            fresh.close()
            if d_live != d_fresh:
                diff = sorted(p for p in set(d_live) | set(d_fresh) if d_live.get(p) != d_fresh.get(p))[:5]
                oracle.append(dict(kind="still-open-source-shows-stale-view-after-merge", paths=diff))
            # the follow-up patches are on disk now; drop them again so that the rest of the
            # scenario (follow-up on a reopened source) starts from the merged state
            for f in sorted(os.listdir(src_dir)):
                if f not in h0:
                    os.remove(os.path.join(src_dir, f))
        else:
            src.close()
        if _hashes(src_dir) != h0:
            oracle.append(dict(kind="source-files-changed-by-close-after-merge"))
        # the source opened again is the same record
        try:
            again = cls(Path(src_dir) / name, "r")
            d_again, m_again, f_again = H.dump(again), _meta(again), [str(p) for p in again.ih5_files]
            again.close()
            if d_again != d0 or m_again != m0 or f_again != files0:
                oracle.append(dict(kind="source-reopened-after-merge-differs", files=[os.path.basename(f) for f in f_again]))
        except Exception as e:  # noqa: BLE001
            oracle.append(dict(kind="source-reopened-after-merge-differs", error="%s: %s" % (type(e).__name__, str(e)[:160])))

        dm, mm = _check_merged(cls, Path(mdir) / name, d0, m0, oracle, "fresh directory")
        if dm is None:
            return dict(out=out + [H.show_dump(d0), "wf T", "ok", "ok"], oracle=oracle, tags=tags, partial=True)
        # "wf T": the hypothesis ViewReplayable of the Lean theorems must hold for every reachable record
        out += [H.show_dump(d0), "wf T", "ok", "ok", "n %d" % len(mm), H.show_dump(dm)]

        # follow-up patches created on the source apply to the merged container
        follow = case.get("follow") or []
        if follow:
            s2 = cls(Path(src_dir) / name, "r+")
            nfiles_before = len(m0)  # committed containers before the follow-up (r+ has already added one)
            fout = ["ok"]
            for op in follow:
                if op[0] == "patch":
                    s2.commit_patch()
                    s2.create_patch()
                    fout.append("ok")
                else:
                    fout.append(H.oc(H.apply_op(s2, op)))
            s2.commit_patch()
            dfull = H.dump(s2)
            newfiles = [str(p) for p in s2.ih5_files[nfiles_before:]]
            s2.close()
            # copy the follow-up patch files (and manifests) next to the merged container
            for p in newfiles:
                shutil.copy(p, mdir)
                if os.path.exists(p + "mf.json"):
                    shutil.copy(p + "mf.json", mdir)
            # ... and drop them from the source directory again (the stages below start from h0)
            for f in sorted(os.listdir(src_dir)):
                if f not in h0:
                    os.remove(os.path.join(src_dir, f))
            try:
                m2 = cls(Path(mdir) / name, "r")
                dm2 = H.dump(m2)
                # merging again (merged container + follow-up patches): still the same record state
                rdir = os.path.join(tmp, "remerged")
                os.makedirs(rdir)
                try:
                    m2.merge_files(Path(rdir) / name)
                    m3 = cls(Path(rdir) / name, "r")
                    mm2, mm3, dm3 = _meta(m2), _meta(m3), H.dump(m3)
                    m3.close()
                    if dm3 != dm2:
                        oracle.append(dict(kind="remerged-view-differs"))
                    if len(mm3) != 1 or mm3[0][:3] != mm2[-1][:3] or mm3[0][3] != mm2[0][3]:
                        oracle.append(dict(kind="merged-userblock-wrong", merged=mm3[0] if mm3 else None, source_last=mm2[-1], source_first=mm2[0], remerge=True))
                    tags.append("remerge")
                except Exception as e:  # noqa: BLE001
                    oracle.append(dict(kind="merge-of-committed-record-fails", error=type(e).__name__, remerge=True))
                m2.close()
                out += fout + [H.show_dump(dm2)]
                if dm2 != dfull:
                    diff = sorted(p for p in set(dm2) | set(dfull) if dm2.get(p) != dfull.get(p))[:5]
                    oracle.append(dict(kind="followup-patches-differ-on-merged", paths=diff))
            except Exception as e:  # noqa: BLE001
                oracle.append(dict(kind="followup-patches-rejected-on-merged", error="%s: %s" % (type(e).__name__, str(e)[:200])))
                return dict(out=out, oracle=oracle, tags=tags, partial=True)
            tags.append("follow-up")

        # a RUN of containers (file list, `allow_baseless=True` when it does not start at the base)
        # is a source like any other: merged view, identity (prev_patch of the OLDEST merged
        # container), source untouched; the patches that follow the run apply to the merged
        # container, and the merged container is accepted in place of the run inside the chain
        run = squash_run(case)
        if run is not None:
            i, j = run
            n = len(files0)
            assert n == ncont_of(case), (n, ncont_of(case))
            pre_f, run_f, post_f = files0[:i], files0[i:j + 1], files0[j + 1:]
            sq_out = ["ok", "ok"] if pre == "live" else ["ok"]  # model lines: restore (+ patch for the live handle's empty patch)
            P = lambda fs: [Path(f) for f in fs]  # noqa: E731
            what = "run %d..%d of %d" % (i, j, n)
            part = cls(P(run_f), "r", allow_baseless=True)
            d_part, m_part = H.dump(part), _meta(part)
            qdir = os.path.join(tmp, "squash")
            os.makedirs(qdir)
            try:
                sq = str(part.merge_files(Path(qdir) / name))
            except Exception as e:  # noqa: BLE001
                oracle.append(dict(kind="merge-of-committed-record-fails", error=type(e).__name__, target=what))
                part.close()
                return dict(out=out + sq_out + ["err"], oracle=oracle, tags=tags, partial=True)
            ok = _source_unchanged(part, src_dir, d_part, m_part, h0, oracle, what)
            part.close()
            _check_merged(cls, P([sq]), d_part, m_part, oracle, what, allow_baseless=True)
            tags.append("run-merged" + ("-baseless" if i > 0 else "") + ("-inner" if i > 0 and post_f else ""))
            if post_f and ok:
                tail = cls(P(run_f + post_f), "r", allow_baseless=True)
                d_tail = H.dump(tail)
                tail.close()
                try:
                    t2 = cls(P([sq] + post_f), "r", allow_baseless=True)
                    d_t2 = H.dump(t2)
                    t2.close()
                    if d_t2 != d_tail:
                        diff = sorted(p for p in set(d_t2) | set(d_tail) if d_t2.get(p) != d_tail.get(p))[:5]
                        oracle.append(dict(kind="followup-patches-differ-on-merged", paths=diff, target=what))
                except Exception as e:  # noqa: BLE001
                    oracle.append(dict(kind="followup-patches-rejected-on-merged", error="%s: %s" % (type(e).__name__, str(e)[:200]), target=what))
            try:
                inplace = cls(P(pre_f + [sq] + post_f), "r")
                d_in = H.dump(inplace)
                inplace.close()
                # what the chain shows with the merged container in place of the run is compared with
                # the model (`squash`): it is the source view whenever the run starts at the base
                out += sq_out + ["ok", H.show_dump(d_in)]
                if i == 0 and d_in != d0:
                    oracle.append(dict(kind="followup-patches-differ-on-merged", target=what, in_place=True))
            except Exception as e:  # noqa: BLE001
                oracle.append(dict(kind="merged-container-rejected-in-place-of-run", error="%s: %s" % (type(e).__name__, str(e)[:200]), target=what))
                return dict(out=out, oracle=oracle, tags=tags, partial=True)

        # refused when the set contains a stub: the stub of the source with 0..3 committed patches
        # on top, in the session that made it and re-opened from disk in every legal way
        if case["cls"] == "mf" and (case.get("stub") or case.get("stubset")):
            spec = case.get("stubset") or dict(patches=[], reopen=["name"])
            pairs = MU.stub_set_merges(tmp, files0[-1] + "mf.json", spec, oracle, tags, name=name)
            out += [w for _, w in pairs]
            tags.append("stub-refusal")
        return dict(out=out, oracle=oracle, tags=tags)
    finally:
        shutil.rmtree(tmp, ignore_errors=True)


def stub_guard_lines(case):
    """the `guard` lines matching what `MU.stub_set_merges` tries (flags known statically)"""
    if not (case["cls"] == "mf" and (case.get("stub") or case.get("stubset"))):
        return []
    spec = case.get("stubset") or dict(patches=[], reopen=["name"])
    k = len(spec.get("patches") or [])
    L = ["guard 1%s 0" % ("0" * a) for a in range(k + 1)]
    for how in spec.get("reopen") or MU.STUB_OPENINGS:
        L.append("guard 1%s 0" % ("0" * (k + 1 if how == "name-rw" else k)))
    return L


def lines(case):
    L = [H.op_line(op) for op in case["ops"]]
    L += ["dump", "wf", "save", "merge", "ncont", "dump"]
    if case.get("follow"):
        L += ["patch"] + [H.op_line(op) for op in case["follow"]] + ["dump"]
    run = squash_run(case)
    if run is not None:
        L += ["restore"]
        if case.get("pre") == "live":
            L += ["patch"]
        L += ["squash %d %d" % run, "dump"]
    L += stub_guard_lines(case)
    return L


def compare(case, ir, mo):
    out = ir.get("out") or []
    if ir.get("partial") or len(out) != len(mo):
        # the real run stopped early (an oracle hit explains why): compare the common prefix
        mo = mo[: len(out)]
    return core.default_compare(case, dict(out=out), mo)


NAMES = ["rec", "rec", "r", "rec-a", "Rec2", "a-b-c", "x1"]
EXIST = ["/a", "/b", "/a/b", "/a/a", "/c"]


def _stub_spec(rng, npatch=None):
    k = rng.randrange(0, 4) if npatch is None else npatch
    patches = [[H.rand_op(rng, EXIST, allow_copy=False) for _ in range(rng.randrange(0, 3))] for _ in range(k)]
    return dict(patches=patches, reopen=list(MU.STUB_OPENINGS))


def _history_with(rng, nops, npatch):
    """a random history with exactly `npatch` patch boundaries (npatch + 1 containers)"""
    ops = [o for o in H.rand_history(rng, nops, boundary_p=0.0)]
    for _ in range(npatch):
        ops.insert(rng.randrange(1, len(ops) + 1), ["patch"])
    return ops


def sweep_cases(rng):
    """systematic part: over short random histories with four containers, EVERY kind of merge
    target, EVERY run i..j of the chain as the merged source, and stubs with 0..3 committed
    patches re-opened in every legal way"""
    cases = []
    for cls in ("ih5", "mf"):
        for t in TARGETS:
            cases.append(dict(cls=cls, name=rng.choice(NAMES), ops=_history_with(rng, rng.randrange(3, 8), rng.randrange(1, 3)), follow=[], stub=False,
                              pre=rng.choice([None, "live", "failed-commit"]), src_open=rng.choice(["name", "list"]), targets=[t]))
        n = 4
        for i in range(n):
            for j in range(i, n):
                if (i, j) == (0, n - 1):
                    continue  # the whole record: the main merge
                # squash = [a, b] with i = a % n, j = i + b % (n - i)
                cases.append(dict(cls=cls, name=rng.choice(NAMES), ops=_history_with(rng, rng.randrange(6, 12), n - 1), follow=[], stub=False, pre=None,
                                  squash=[i, j - i]))
    for k in range(4):
        cases.append(dict(cls="mf", name=rng.choice(NAMES), ops=_history_with(rng, rng.randrange(3, 8), rng.randrange(0, 2)), follow=[], stub=True,
                          pre=None, stubset=_stub_spec(rng, k)))
    return cases


def gen_cases(ctx, sweep=True):
    rng = ctx.rng
    n = 40 if ctx.quick else 800
    cases = sweep_cases(rng) if sweep else []
    for i in range(n):
        ops = H.rand_history(rng, rng.randrange(4, 26), boundary_p=rng.choice([0.1, 0.2, 0.35]))
        follow = H.rand_history(rng, rng.randrange(1, 8), boundary_p=0.15) if rng.random() < 0.7 else []
        c = dict(cls=rng.choice(["ih5", "mf"]), ops=ops, follow=follow, stub=rng.random() < 0.3,
                 pre=rng.choice([None, None, "failed-commit", "discard", "live"]))
        c["name"] = rng.choice(NAMES)
        c["src_open"] = rng.choice(["name", "name", "list", "reversed"])
        if rng.random() < 0.5:
            c["targets"] = rng.sample(TARGETS, rng.randrange(1, 4))
        if rng.random() < 0.6:
            c["squash"] = [rng.randrange(64), rng.randrange(64)]
        if c["cls"] == "mf" and rng.random() < 0.4:
            c["stubset"] = _stub_spec(rng)
        cases.append(c)
    return cases


def run(ctx):
    ctx.rule = ("random histories (set/grp/del/sattr/dattr/copy/move over 3 colliding keys, depth<=3) with patch boundaries at random positions on real "
                "IH5Record / IH5MFRecord (record names of several shapes; source opened by name, by file list, by file list in reverse order, read-only or "
                "as a live r+ handle); merge into a fresh directory and into targets of every kind (own record path, own base file, an existing other "
                "record, prefix / extension of the own name in the own directory, an invalid name); follow-up patches; every run i..j of the chain "
                "(allow_baseless) merged and used in place of the run; stub of the source with 0..3 committed patches, merged in-session and re-opened "
                "by name / file list / reversed file list / r+; non-trivial = >=3 containers, contains delete, has follow-up patches, stub refusal, "
                "hostile target, baseless run")
    ctx.assumptions += ["h5py implements the flat tree semantics", "sha256 of files detects on-disk changes"]
    ctx.exhaustive_spaces += ["merge target kinds (9) x record class (2) on short random histories",
                              "runs i..j of a four-container chain (9 proper runs) x record class (2)",
                              "stub + k committed patches, k = 0..3, x 4 ways of re-opening + in-session"]
    cases = core.load_corpus(ID) + gen_cases(ctx)
    ctx.correspond("merge-model", MOD, cases, lines, "drv_mrg", compare=compare, timeout=120)


def signature(case, detail):
    return "%s:%s" % (ID, detail.get("kind"))


def shrink(ctx, case, detail):
    want = detail.get("kind")
    with pool.Session(MOD, "impl") as ses:
        def hit(c):
            r = ses.call(c, timeout=120)
            if "timeout" in r:
                return [dict(kind="does-not-terminate")] if want == "does-not-terminate" else []
            return [d for d in r.get("ok", {}).get("oracle", []) if d.get("kind") == want]

        def attempt(c2):
            nonlocal case
            if c2 != case and hit(c2):
                case = c2
                return True
            return False
        if hit(case):
            # drop / simplify the optional stages first
            for k in ("targets", "squash", "stubset", "src_open", "name"):
                if case.get(k) is not None:
                    attempt({a: b for a, b in case.items() if a != k})
            if case.get("stub") and not case.get("stubset"):
                attempt(dict(case, stub=False))
            if case.get("pre"):
                attempt(dict(case, pre=None))
            if len(case.get("targets") or []) > 1:
                for t in list(case["targets"]):
                    if attempt(dict(case, targets=[t])):
                        break
            if case.get("stubset"):
                sp = case["stubset"]
                for how in list(sp.get("reopen") or MU.STUB_OPENINGS):
                    if attempt(dict(case, stubset=dict(sp, reopen=[how]))):
                        break
                sp = case["stubset"]
                while len(sp.get("patches") or []) > 0 and attempt(dict(case, stubset=dict(sp, patches=sp["patches"][:-1]))):
                    sp = case["stubset"]
                sp = case["stubset"]
                attempt(dict(case, stubset=dict(sp, patches=[[] for _ in sp.get("patches") or []])))
            if case.get("follow"):
                if not attempt(dict(case, follow=[])):
                    case = dict(case, follow=core.ddmin(case["follow"], lambda f: hit(dict(case, follow=f)), max_tests=40))
            if not attempt(dict(case, ops=[])):
                case = dict(case, ops=core.ddmin(case["ops"], lambda o: hit(dict(case, ops=o)), max_tests=80))
            ds = hit(case)
            if ds:
                detail = ds[0]
    return case, detail


def search(ctx):
    for s in range(1, 3):
        sub = core.Ctx(ID, "quick", ctx.seed + 7919 * s)
        cases = gen_cases(sub)
        res = pool.run(MOD, "impl", cases, timeout=120)
        ctx.search_log.append("seed %d: %d cases" % (sub.seed, len(cases)))
        for c, r in zip(cases, res):
            if "ok" in r and r["ok"]["oracle"]:
                return shrink(ctx, c, r["ok"]["oracle"][0])
    return None


def replay(ctx, rep):
    case = rep.get("case")
    if not case:
        print(core.canon(rep)[:3000])
        return 0
    r = pool.run_one(MOD, "impl", case, timeout=300)
    print("implementation:", core.canon({k: v for k, v in r.get("ok", r).items() if k != "view"})[:3000])
    return 1 if ("ok" in r and r["ok"]["oracle"]) or "timeout" in r else 0
