"""C05 — merge materialises the overlay view and continues the patch chain.

Oracle (real code only): after a random history producing an N-container record, `merge_files`
gives a single container whose dump equals the overlay view; the merged user block identifies
the same record at the same patch state; the source is unchanged on disk (sha256 of every
file) and as observed through the still-open object (dump, ih5_meta); follow-up patches made
on the source apply to the merged container with the same result; merging is refused while
there are uncommitted changes and when the set contains a stub.
Correspondence: the Lean overlay model (`drv_ov`, C01's model) computes the merged container
from the same history (`merge` op) and its view.
"""
import hashlib
import os
import shutil
import tempfile

from .. import core, lean, pool
from . import h5util as H

ID = "C05"
MOD = "harness.props.c05"
LEAN = dict(modules=["MetadorModel.Props.C05"],
            theorems=["MetadorModel.C05." + n for n in ['merge_identity', 'merge_defined', 'merge_continues_chain', 'merge_is_base', 'next_patch_follows_merged', 'merge_view', 'merge_single', 'merge_succeeds', 'merge_idempotent_on_view',
                                                               'merge_inv', 'merge_mentions', 'merge_followups_over',
                                                               'merge_followups_same_view', 'merge_followups_fold',
                                                               'merge_same_update_partial', 'merge_same_update']]
            + ["MetadorModel.Follow." + n for n in ['invLast_transfer', 'follow_same_view', 'view_fold_over', 'invB_sound']],
            drivers=["drv_mrg"])


def _hashes(d):
    out = {}
    for fn in sorted(os.listdir(d)):
        p = os.path.join(d, fn)
        if os.path.isfile(p):
            out[fn] = hashlib.sha256(open(p, "rb").read()).hexdigest()
    return out


def _meta(rec):
    return [[str(u.record_uuid), u.patch_index, str(u.patch_uuid), str(u.prev_patch) if u.prev_patch else None,
             str(u.hdf5_hashsum) if u.hdf5_hashsum else None, sorted(u.ub_exts.keys())] for u in rec.ih5_meta]


def impl(case):
    from pathlib import Path
    from metador_core.ih5.record import IH5Record
    from metador_core.ih5.manifest import IH5MFRecord

    cls = IH5MFRecord if case["cls"] == "mf" else IH5Record
    tmp = tempfile.mkdtemp(prefix="vt-c05-")
    oracle, tags, out = [], [], []
    try:
        src_dir = os.path.join(tmp, "src")
        os.makedirs(src_dir)
        rec = cls(Path(src_dir) / "rec", "w")
        outcomes = []
        ncont = 1
        for op in case["ops"]:
            if op[0] == "patch":
                rec.commit_patch()
                rec.create_patch()
                ncont += 1
                out.append("ok")
            else:
                out.append(H.oc(H.apply_op(rec, op)))
        # refused while there are uncommitted changes
        try:
            rec.merge_files(Path(tmp) / "early")
            oracle.append(dict(kind="merge-not-refused-while-writable"))
        except ValueError:
            pass
        if os.path.exists(os.path.join(tmp, "early.ih5")):
            oracle.append(dict(kind="refused-merge-left-file"))
        rec.commit_patch()
        rec.close()
        if ncont >= 3:
            tags.append("containers>=3")
        if any(o[0] == "del" for o in case["ops"]):
            tags.append("has-delete")

        pre = case.get("pre")
        if pre == "discard":
            # leave an uncommitted patch on disk, reopen, discard it, then merge from that handle
            s1 = cls(Path(src_dir) / "rec", "r+")
            H.apply_op(s1, ["set", "/zz-uncommitted", "i:1"])
            s1.close(commit=False)
            src = cls(Path(src_dir) / "rec", "r+")
            src.discard_patch()
            tags.append("merge-after-discard")
        elif pre == "live":
            # a handle that stays in use after the merge: r+ (adds an empty patch), commit it
            src = cls(Path(src_dir) / "rec", "r+")
            src.commit_patch()
            tags.append("merge-from-live-handle")
        else:
            src = cls(Path(src_dir) / "rec", "r")
        if pre == "failed-commit":
            try:
                src.commit_patch()
                oracle.append(dict(kind="commit-on-read-only-handle-not-refused"))
            except ValueError:
                pass
            tags.append("merge-after-refused-commit")
        d0 = H.dump(src)
        m0 = _meta(src)
        h0 = _hashes(src_dir)
        mdir = os.path.join(tmp, "merged")
        os.makedirs(mdir)
        try:
            mfile = src.merge_files(Path(mdir) / "rec")
        except Exception as e:  # noqa: BLE001
            oracle.append(dict(kind="merge-of-committed-record-fails", error=type(e).__name__))
            src.close()
            return dict(out=out + [H.show_dump(d0), "wf T", "err"], oracle=oracle, tags=tags, partial=True)
        d1 = H.dump(src)
        m1 = _meta(src)
        h1 = _hashes(src_dir)
        if d1 != d0:
            oracle.append(dict(kind="source-view-changed-by-merge"))
        if m1 != m0:
            oracle.append(dict(kind="source-meta-changed-by-merge", before=m0[-1], after=m1[-1]))
        if h1 != h0:
            oracle.append(dict(kind="source-files-changed-by-merge", changed=sorted(k for k in set(h0) | set(h1) if h0.get(k) != h1.get(k))))
        if pre == "live" and case.get("follow"):
            # keep using the same object: what it shows must be what a fresh object shows
            src.create_patch()
            for op in case["follow"]:
                if op[0] == "patch":
                    src.commit_patch()
                    src.create_patch()
                else:
                    H.apply_op(src, op)
            d_live = H.dump(src)
            src.commit_patch()
            src.close()
            fresh = cls(Path(src_dir) / "rec", "r")
            d_fresh = H.dump(fresh)
            fresh.close()
            if d_live != d_fresh:
                diff = sorted(p for p in set(d_live) | set(d_fresh) if d_live.get(p) != d_fresh.get(p))[:5]
                oracle.append(dict(kind="still-open-source-shows-stale-view-after-merge", paths=diff))
            # the follow-up patches are on disk now; drop them again so that the rest of the
            # scenario (follow-up on a reopened source) starts from the merged state
            for f in sorted(os.listdir(src_dir)):
                if f not in h0:
                    os.remove(os.path.join(src_dir, f))
        else:
            src.close()
        if _hashes(src_dir) != h0:
            oracle.append(dict(kind="source-files-changed-by-close-after-merge"))

        try:
            merged = cls(Path(mdir) / "rec", "r")
        except Exception as e:  # noqa: BLE001
            oracle.append(dict(kind="merged-record-does-not-open", error=type(e).__name__))
            return dict(out=out + [H.show_dump(d0), "wf T", "ok"], oracle=oracle, tags=tags, partial=True)
        dm = H.dump(merged)
        mm = _meta(merged)
        if len(mm) != 1:
            oracle.append(dict(kind="merged-not-single-container", n=len(mm)))
        if dm != d0:
            diff = sorted(p for p in set(dm) | set(d0) if dm.get(p) != d0.get(p))[:5]
            oracle.append(dict(kind="merged-view-differs", paths=diff, merged=[dm.get(p) for p in diff], source=[d0.get(p) for p in diff]))
        # same record, same patch state, chain start inherited
        if mm and (mm[0][0] != m0[-1][0] or mm[0][1] != m0[-1][1] or mm[0][2] != m0[-1][2] or mm[0][3] != m0[0][3] or mm[0][4] is None):
            oracle.append(dict(kind="merged-userblock-wrong", merged=mm[0], source_last=m0[-1], source_first=m0[0]))
        merged.close()
        # "wf T": the hypothesis ViewReplayable of the Lean theorems must hold for every reachable record
        out += [H.show_dump(d0), "wf T", "ok", "n %d" % len(mm), H.show_dump(dm)]

        # follow-up patches created on the source apply to the merged container
        follow = case.get("follow") or []
        if follow:
            s2 = cls(Path(src_dir) / "rec", "r+")
            nfiles_before = len(m0)  # committed containers before the follow-up (r+ has already added one)
            fout = ["ok"]
            for op in follow:
                if op[0] == "patch":
                    s2.commit_patch()
                    s2.create_patch()
                    fout.append("ok")
                else:
                    fout.append(H.oc(H.apply_op(s2, op)))
            s2.commit_patch()
            dfull = H.dump(s2)
            newfiles = [str(p) for p in s2.ih5_files[nfiles_before:]]
            s2.close()
            # copy the follow-up patch files (and manifests) next to the merged container
            for p in newfiles:
                shutil.copy(p, mdir)
                if os.path.exists(p + "mf.json"):
                    shutil.copy(p + "mf.json", mdir)
            try:
                m2 = cls(Path(mdir) / "rec", "r")
                dm2 = H.dump(m2)
                # merging again (merged container + follow-up patches): still the same record state
                rdir = os.path.join(tmp, "remerged")
                os.makedirs(rdir)
                try:
                    m2.merge_files(Path(rdir) / "rec")
                    m3 = cls(Path(rdir) / "rec", "r")
                    mm2, mm3, dm3 = _meta(m2), _meta(m3), H.dump(m3)
                    m3.close()
                    if dm3 != dm2:
                        oracle.append(dict(kind="remerged-view-differs"))
                    if len(mm3) != 1 or mm3[0][:3] != mm2[-1][:3] or mm3[0][3] != mm2[0][3]:
                        oracle.append(dict(kind="merged-userblock-wrong", merged=mm3[0] if mm3 else None, source_last=mm2[-1], source_first=mm2[0], remerge=True))
                    tags.append("remerge")
                except Exception as e:  # noqa: BLE001
                    oracle.append(dict(kind="merge-of-committed-record-fails", error=type(e).__name__, remerge=True))
                m2.close()
                out += fout + [H.show_dump(dm2)]
                if dm2 != dfull:
                    diff = sorted(p for p in set(dm2) | set(dfull) if dm2.get(p) != dfull.get(p))[:5]
                    oracle.append(dict(kind="followup-patches-differ-on-merged", paths=diff))
            except Exception as e:  # noqa: BLE001
                oracle.append(dict(kind="followup-patches-rejected-on-merged", error="%s: %s" % (type(e).__name__, str(e)[:200])))
            tags.append("follow-up")

        # refused when the set contains a stub
        if case["cls"] == "mf" and case.get("stub"):
            last = sorted(f for f in os.listdir(src_dir) if f.endswith(".ih5"))
            src3 = cls(Path(src_dir) / "rec", "r")
            mfpath = str(src3.ih5_files[-1]) + "mf.json"
            src3.close()
            sdir = os.path.join(tmp, "stub")
            os.makedirs(sdir)
            stub = IH5MFRecord.create_stub(Path(sdir) / "rec", Path(mfpath))
            try:
                stub.merge_files(Path(tmp) / "stubmerged")
                oracle.append(dict(kind="merge-of-stub-not-refused"))
            except ValueError:
                pass
            stub.close()
            tags.append("stub-refusal")
        return dict(out=out, oracle=oracle, tags=tags)
    finally:
        shutil.rmtree(tmp, ignore_errors=True)


def lines(case):
    L = [H.op_line(op) for op in case["ops"]]
    L += ["dump", "wf", "merge", "ncont", "dump"]
    if case.get("follow"):
        L += ["patch"] + [H.op_line(op) for op in case["follow"]] + ["dump"]
    return L


def compare(case, ir, mo):
    out = ir.get("out") or []
    if ir.get("partial") or len(out) != len(mo):
        # the real run stopped early (an oracle hit explains why): compare the common prefix
        mo = mo[: len(out)]
    return core.default_compare(case, dict(out=out), mo)


def gen_cases(ctx):
    rng = ctx.rng
    n = 40 if ctx.quick else 800
    cases = []
    for i in range(n):
        ops = H.rand_history(rng, rng.randrange(4, 26), boundary_p=rng.choice([0.1, 0.2, 0.35]))
        follow = H.rand_history(rng, rng.randrange(1, 8), boundary_p=0.15) if rng.random() < 0.7 else []
        cases.append(dict(cls=rng.choice(["ih5", "mf"]), ops=ops, follow=follow, stub=rng.random() < 0.3,
                          pre=rng.choice([None, None, "failed-commit", "discard", "live"])))
    return cases


def run(ctx):
    ctx.rule = ("random histories (set/grp/del/sattr/dattr/copy/move over 3 colliding keys, depth<=3) with patch boundaries at random positions on real "
                "IH5Record / IH5MFRecord; merge; follow-up patches; non-trivial = >=3 containers, contains delete, has follow-up patches, stub refusal")
    ctx.assumptions += ["h5py implements the flat tree semantics", "sha256 of files detects on-disk changes"]
    cases = core.load_corpus(ID) + gen_cases(ctx)
    ctx.correspond("merge-model", MOD, cases, lines, "drv_mrg", compare=compare, timeout=120)


def signature(case, detail):
    return "%s:%s" % (ID, detail.get("kind"))


def shrink(ctx, case, detail):
    want = detail.get("kind")
    with pool.Session(MOD, "impl") as ses:
        def hit(c):
            r = ses.call(c, timeout=120)
            if "timeout" in r:
                return [dict(kind="does-not-terminate")] if want == "does-not-terminate" else []
            return [d for d in r.get("ok", {}).get("oracle", []) if d.get("kind") == want]
        if hit(case):
            if case.get("follow"):
                if hit(dict(case, follow=[])):
                    case = dict(case, follow=[])
                else:
                    case = dict(case, follow=core.ddmin(case["follow"], lambda f: hit(dict(case, follow=f)), max_tests=40))
            case = dict(case, ops=core.ddmin(case["ops"], lambda o: hit(dict(case, ops=o)), max_tests=80))
            ds = hit(case)
            if ds:
                detail = ds[0]
    return case, detail


def search(ctx):
    for s in range(1, 3):
        sub = core.Ctx(ID, "quick", ctx.seed + 7919 * s)
        cases = gen_cases(sub)
        res = pool.run(MOD, "impl", cases, timeout=120)
        ctx.search_log.append("seed %d: %d cases" % (sub.seed, len(cases)))
        for c, r in zip(cases, res):
            if "ok" in r and r["ok"]["oracle"]:
                return shrink(ctx, c, r["ok"]["oracle"][0])
    return None


def replay(ctx, rep):
    case = rep.get("case")
    if not case:
        print(core.canon(rep)[:3000])
        return 0
    r = pool.run_one(MOD, "impl", case, timeout=300)
    print("implementation:", core.canon({k: v for k, v in r.get("ok", r).items() if k != "view"})[:3000])
    return 1 if ("ok" in r and r["ok"]["oracle"]) or "timeout" in r else 0
