"""C15 — Node restrictions (read_only / local_only / skel_only) cannot be escaped by navigation.

Lean: Model/Acl.lean (wrapper = (path, flags, remembered local parents); navigation steps and
operation classes generic over a guard table), Proofs/Acl.lean, Props/C15.lean; translated on
every run: Gen/AclTable.lean (which methods wrap results with the inherited flags, which flag
every operation checks before touching `__wrapped__`, `restrict`, `parent`, attribute-manager
whitelist) + Bridge/AclTable.lean (`TableOk Gen.aclTable` by `decide`).

Correspondence (driver `drv_acl`): every navigation chain (explicitly enumerated from the fixed
container below) from every start node x flag combination on both drivers: node / flags /
number of remembered local parents after every step, error class of a failing step, and the
ACL verdict (refused / passed) of every operation of the protocol on the node reached.
Oracle (real code only): flags never shrink along a chain; from a read_only node every
mutating operation raises and the raw dump stays unchanged; a skel_only node never returns
dataset contents / attribute values / metadata objects; a local_only node never reaches
anything above the node it was declared on (every node a chain passes through is compared with
the local root, `.parent` is repeated beyond the point where it should be refused); `restrict`
only adds. Attribute manager: every public method of the raw manager (dir()) is tried through
`attrs` of every read_only / skel_only node reached (`am_sweep`): no attribute value of the
fixture may come back under skel_only, the raw attributes may not change under read_only.
"""
import os

from .. import core, lean
from .. import translate as tr

ID = "C15"
MOD = "harness.props.c15"
T = "MetadorModel.C15."
B = "MetadorModel.Bridge.AclTable."
LEAN = dict(
    modules=["MetadorModel.Props.C15", "MetadorModel.Bridge.AclTable"],
    theorems=[T + n for n in [
        "step_monotone", "flags_monotone", "ro_refuses", "ro_refuses_after_nav", "skel_hides", "skel_hides_after_nav",
        "local_confined", "local_upward_refused", "restrict_only_adds", "attr_manager_restricted",
        "legacy_parent_drops_flags", "legacy_dataset_parent_escapes", "current_table_ok"]]
    + [B + n for n in ["table_ok", "table_covers_protocol"]],
    drivers=["drv_acl"],
)


def translate(ctx):
    gen = os.path.join(lean.LEAN, "MetadorModel", "Gen")
    a = lean.write_if_changed(os.path.join(gen, "AclTable.lean"), tr.gen_acl_table())
    return "Gen/AclTable.lean %s" % ("rewritten" if a else "unchanged")


def hx(s):
    return s.encode().hex() if s else "-"


# ----------------------------------------------------------------------------- fixture
KIND = {"/": "g", "/g": "g", "/g/d": "d", "/g/h": "g", "/g/h/e": "d", "/top": "d"}
CHILDREN = {"/": ["g", "top"], "/g": ["d", "h"], "/g/h": ["e"]}
META_AT = {"/", "/g", "/g/d", "/g/h/e"}
ATTR_AT = {"/g": "ga", "/g/d": "da", "/top": "ta"}
ATTR_VAL = {"ga": 710001, "da": 710002, "ta": 710003}  # recognisable attribute values
SHAPE = {"/g/d": [3], "/g/h/e": [], "/top": []}
FLAGSETS = ["-", "r", "l", "s", "rl", "rs", "ls", "rls"]
FLAGNAME = {"r": "read_only", "l": "local_only", "s": "skel_only"}


def join(base, rel):
    return (base.rstrip("/") + "/" + rel) if rel else base


def descendants(p):
    out = []
    for c in CHILDREN.get(p, []):
        q = join(p, c)
        out.append(c)
        out += [c + "/" + d for d in descendants(q)]
    return out


def dirname(p):
    if p == "/":
        return "/"
    d = p.rsplit("/", 1)[0]
    return d or "/"


# ----------------------------------------------------------------------------- chain enumeration
def steps_at(path, full):
    """Applicable navigation steps at a node with this (expected) path -> [(step, next path)]."""
    out = []
    restricts = ["r", "l", "s", "-"]
    if KIND[path] == "d":
        out.append((["p"], dirname(path)))
        out += [(["r", f], path) for f in restricts]
        if path in META_AT:
            out.append((["c", "query", ""], path))
        return out
    desc = descendants(path)
    kids = CHILDREN.get(path, [])
    deep = [d for d in desc if "/" in d]

    def pick(l, n):
        return l if full else l[:n]
    for rel in pick(desc, 1) + ([] if full else deep[:1]):
        out.append((["c", "getitem", rel], join(path, rel)))
    for rel in pick(desc[::-1], 1):
        out.append((["c", "get", rel], join(path, rel)))
    for prim in ("items", "values", "keys", "iter"):
        for rel in pick(kids if prim in ("items", "keys") else kids[::-1], 1):
            out.append((["c", prim, rel], join(path, rel)))
    for rel in pick(deep + [d for d in desc if "/" not in d], 1):
        out.append((["c", "visititems", rel], join(path, rel)))
    for rel in pick(deep[::-1] + [d for d in desc if "/" not in d], 1):
        out.append((["c", "visit", rel], join(path, rel)))  # names from visit(), then lookup
    q = [d for d in desc if join(path, d) in META_AT]
    for rel in pick(q[::-1], 1):
        out.append((["c", "query", rel], join(path, rel)))
    if path in META_AT:
        out.append((["c", "query", ""], path))
    for rel in pick([d for d in desc if KIND[join(path, d)] == "g"], 1):
        out.append((["c", "require_group", rel], join(path, rel)))
    for rel in pick([d for d in desc if KIND[join(path, d)] == "d"], 1):
        out.append((["c", "require_dataset", rel], join(path, rel)))
    for a in pick(["/g", "/", "/g/h/e"], 1):
        out.append((["a", "getitem", a], a))
    for a in pick(["/g/d", "/g"], 1) if full else []:
        out.append((["a", "get", a], a))
    out.append((["p"], dirname(path)))
    out += [(["r", f], path) for f in restricts]
    return out


PROBE = [["p"]] * 3  # further `.parent` calls after the one that is expected to be refused


def enum_chains(start, depth, full, flags="-"):
    """all chains of length 1..depth (explicit lists of steps) with the expected final path.
    The generator keeps a rough expectation of where a step leads (node, local_only flag,
    remembered parents) only to propose applicable steps; what really happens is decided by the
    implementation and by the model. Where the generator expects `.parent` to be refused (local
    root reached) the chain goes on with more `.parent` calls: if the implementation does not
    refuse there, the climb is followed up to the top."""
    res = []

    def rec(path, loc, lps, chain, d):
        if chain:
            res.append((list(chain), path))
        if d == 0:
            return
        for st, nxt in steps_at(path, full):
            loc2, lps2 = loc, lps
            if st[0] == "p":
                if loc:
                    if not lps:
                        chain.append(st)
                        res.append((list(chain) + PROBE, nxt))  # expected to be refused
                        chain.pop()
                        continue
                    nxt, lps2 = lps[0], lps[1:]
            elif st[0] == "a":
                if loc:
                    chain.append(st)
                    res.append((list(chain), nxt))  # expected to be refused
                    chain.pop()
                    continue
                lps2 = ()
            elif st[0] == "r":
                if "l" in st[1]:
                    loc2, lps2 = True, ()
            elif st[2] != "":
                lps2 = ((path,) + lps) if loc else ()
            chain.append(st)
            rec(nxt, loc2, lps2, chain, d - 1)
            chain.pop()
    rec(start, "l" in flags, (), [], depth)
    return res


GROUP_OPS = ["__setitem__", "__delitem__", "create_group", "require_group", "create_dataset", "require_dataset", "move", "copy",
             "abs:getitem", "abs:get", "abs:in"]
DATASET_OPS = ["dataset.__setitem__", "dataset.__getitem__"]
NODE_OPS = ["attrs.__setitem__", "attrs.__delitem__", "attrs.__getitem__", "am:get", "am:values", "am:items", "am:keys",
            "meta.__setitem__", "meta.__delitem__", "meta.get", "meta.__getitem__", "meta.values", "meta.items", "file"]
H5_ATTR_OPS = ["am:pop", "am:popitem", "am:clear", "am:update", "am:setdefault", "am:create", "am:modify", "am:get_id"]
AM_VALUE = {"am:pop", "am:popitem", "am:setdefault"}  # mutating methods that also hand out a value
MUTATING = {"__setitem__", "__delitem__", "create_group", "require_group", "create_dataset", "require_dataset", "move", "copy",
            "dataset.__setitem__", "attrs.__setitem__", "attrs.__delitem__", "meta.__setitem__", "meta.__delitem__",
            "am:pop", "am:popitem", "am:clear", "am:update", "am:setdefault", "am:create", "am:modify"}
READING = {"dataset.__getitem__", "attrs.__getitem__", "am:get", "am:values", "am:items", "meta.get", "meta.__getitem__", "meta.values", "meta.items"}
UPWARD = {"file", "abs:getitem", "abs:get", "abs:in"}


def ops_for(kind, drv):
    ops = (GROUP_OPS if kind == "g" else DATASET_OPS) + NODE_OPS
    if drv == "h5":
        ops = ops + H5_ATTR_OPS
    return ops


# ----------------------------------------------------------------------------- real code
_meta = {}


def _bib():
    if "bib" not in _meta:
        from metador_core.plugins import schemas
        BibMeta = schemas.get("core.bib", (0, 1, 0))
        Person = BibMeta.Fields.author.schemas.Person
        _meta["bib"] = BibMeta(name="D1", abstract="txt", dateCreated="2023-01-23", author=[Person(name="Jane Doe")], creator=Person(name="Jane Doe"))
        DirMeta = schemas.get("core.dir", (0, 1, 0))
        _meta["dir"] = DirMeta.parse_obj(_meta["bib"].dict())
    return _meta


class Fixture:
    def __init__(self, drv, tmp):
        self.drv, self.tmp, self.n = drv, tmp, 0
        self.mc = None
        self.build()

    def build(self):
        import numpy as np
        from metador_core.container import MetadorContainer
        from metador_core.ih5.container import IH5Record
        self.close()
        self.n += 1
        if self.drv == "h5":
            mc = MetadorContainer(os.path.join(self.tmp, "c%d.h5" % self.n), "w")
        else:
            mc = MetadorContainer(os.path.join(self.tmp, "rec%d" % self.n), "w", driver=IH5Record)
        mc["g/d"] = np.array([1, 2, 3], dtype="int64")
        mc["g/h/e"] = 5
        mc["top"] = 7
        for p, k in sorted(ATTR_AT.items()):
            mc[p].attrs[k] = ATTR_VAL[k]
        m = _bib()
        for p in sorted(META_AT):
            mc[p].meta["core.bib"] = m["bib"]
        if self.drv == "ih5":
            mc.__wrapped__.commit_patch()
            mc.__wrapped__.create_patch()
        self.mc = mc
        self.base = self.dump()

    def dump(self):
        from .c08 import dump
        return dump(self.mc.__wrapped__)

    def close(self):
        if self.mc is not None:
            try:
                self.mc.close()
            except Exception:
                pass
            self.mc = None


def flags_of(n):
    from metador_core.container.interface import NodeAcl
    a = n.acl
    s = ("r" if a[NodeAcl.read_only] else "") + ("l" if a[NodeAcl.local_only] else "") + ("s" if a[NodeAcl.skel_only] else "")
    return s or "-"


def lp_chain(n):
    out = []
    lp = getattr(n, "_self_local_parent", None)
    while lp is not None and len(out) < 50:
        out.append((lp.name, flags_of(lp)))
        lp = getattr(lp, "_self_local_parent", None)
    return out


def err_class(e):
    from metador_core.container.wrappers import UnsupportedOperationError
    if isinstance(e, UnsupportedOperationError):
        return "u"
    if isinstance(e, ValueError):
        return "v"
    return "o"


def do_step(n, st):
    k = st[0]
    if k == "p":
        return n.parent
    if k == "r":
        if st[1] == "-":
            return n.restrict(read_only=False, local_only=False, skel_only=False)
        return n.restrict(**{FLAGNAME[c]: True for c in st[1]})
    prim, arg = st[1], st[2]
    if k == "a":
        if prim == "getitem":
            return n[arg]
        r = n.get(arg)
        if r is None:
            raise KeyError(arg)
        return r
    if prim == "getitem":
        return n[arg]
    if prim == "get":
        r = n.get(arg)
        if r is None:
            raise KeyError(arg)
        return r
    if prim == "items":
        return dict(n.items())[arg]
    if prim == "values":
        return [v for v in n.values() if v.name.split("/")[-1] == arg][0]
    if prim == "keys":
        return n[[k_ for k_ in n.keys() if k_ == arg][0]]
    if prim == "iter":
        return n[[k_ for k_ in iter(n) if k_ == arg][0]]
    if prim == "visititems":
        found = {}
        n.visititems(lambda name, node: found.__setitem__(name, node))
        return found[arg]
    if prim == "visit":
        names = []
        n.visit(names.append)
        return n[[x for x in names if x == arg][0]]
    if prim == "query":
        want = join(n.name, arg)
        return [x for x in n.metador.query("core.bib") if x.name == want][0]
    if prim in ("require_group", "require_dataset") and join(n.name, arg) not in KIND and "r" not in flags_of(n):
        raise KeyError(arg)  # navigation only: never let require_* create something
    if prim == "require_group":
        return n.require_group(arg)
    if prim == "require_dataset":
        return n.require_dataset(arg, shape=tuple(SHAPE[join(n.name, arg)]), dtype="int64")
    raise RuntimeError("unknown step %r" % (st,))


def do_op(n, op, drv):
    """Perform one operation of the protocol on node n. Returns the value it yields."""
    kids = CHILDREN.get(n.name, [])
    kid = kids[0] if kids else "nonexistent"
    m = _bib()
    ak = ATTR_AT.get(n.name, "ga")
    if op == "__setitem__":
        n["zz_new"] = 1
    elif op == "__delitem__":
        del n[kid]
    elif op == "create_group":
        n.create_group("zz_g")
    elif op == "require_group":
        n.require_group("zz_g2")
    elif op == "create_dataset":
        n.create_dataset("zz_d", data=1)
    elif op == "require_dataset":
        n.require_dataset("zz_d2", shape=(1,), dtype="int64")
    elif op == "move":
        n.move(kid, "zz_m")
    elif op == "copy":
        n.copy(kid, "zz_c")
    elif op == "abs:getitem":
        return n["/"]
    elif op == "abs:get":
        return n.get("/g")
    elif op == "abs:in":
        return ("/g" in n) or True
    elif op == "dataset.__setitem__":
        n[...] = 9
    elif op == "dataset.__getitem__":
        return n[()]
    elif op == "attrs.__setitem__":
        n.attrs["zz_k"] = 1
    elif op == "attrs.__delitem__":
        del n.attrs[ak]
    elif op == "attrs.__getitem__":
        return n.attrs[ak]
    elif op == "am:get":
        return n.attrs.get(ak)
    elif op == "am:values":
        return list(n.attrs.values())
    elif op == "am:items":
        return list(n.attrs.items())
    elif op == "am:keys":
        list(n.attrs.keys())
        return None
    elif op == "am:pop":
        return n.attrs.pop(ak)
    elif op == "am:popitem":
        return n.attrs.popitem()
    elif op == "am:clear":
        n.attrs.clear()
    elif op == "am:update":
        n.attrs.update({"zz_u": 1})
    elif op == "am:setdefault":
        return n.attrs.setdefault("zz_s", 1)
    elif op == "am:create":
        n.attrs.create("zz_c", 1)
    elif op == "am:modify":
        n.attrs.modify(ak, 5)
    elif op == "am:get_id":
        n.attrs.get_id(ak)
        return None
    elif op == "meta.__setitem__":
        n.meta["core.dir"] = m["dir"]
    elif op == "meta.__delitem__":
        del n.meta["core.bib"]
    elif op == "meta.get":
        return n.meta.get("core.bib")
    elif op == "meta.__getitem__":
        return n.meta["core.bib"]
    elif op == "meta.values":
        return list(n.meta.values())
    elif op == "meta.items":
        return list(n.meta.items())
    elif op == "file":
        return n.file
    else:
        raise RuntimeError("unknown op " + op)
    return None


def _nonempty(v):
    if v is None:
        return False
    try:
        return len(v) > 0
    except TypeError:
        return True


def has_attr_value(v, depth=0):
    """does v contain (part of) one of the attribute values of the fixture?"""
    if v is None or isinstance(v, (str, bytes)) or depth > 4:
        return False
    try:
        if any(bool(v == x) for x in ATTR_VAL.values()):
            return True
    except Exception:
        pass
    if hasattr(v, "__iter__"):
        try:
            it = list(v.values()) if hasattr(v, "values") and hasattr(v, "keys") else list(v)
        except Exception:
            return False
        return any(has_attr_value(x, depth + 1) for x in it[:50])
    return False


AM_ARGS = [("key",), ("key", 99), (), ({"zz_u": 1},), ("zz_n", 1), ("key", 5)]


def raw_attrs(n):
    a = n.__wrapped__.attrs
    return sorted((k, repr(a[k])) for k in a.keys())


def am_sweep(n, fl, ctxd, oracle, tags):
    """Every public method the underlying attribute manager offers (dir()), with several argument
    shapes, through `n.attrs` of a node that is read_only and/or skel_only: a call that returns
    (part of) an attribute value on a skel_only node, or that changes the attributes of a
    read_only node, violates the property; anything else (refused, not applicable, harmless) is
    fine. Returns True when the raw attributes were changed (fixture has to be rebuilt)."""
    from metador_core.container.wrappers import UnsupportedOperationError
    ak = ATTR_AT.get(n.name, "ga")
    names = sorted(x for x in dir(n.__wrapped__.attrs) if not x.startswith("_"))
    changed = False
    for m in names:
        for args in AM_ARGS:
            args = tuple(ak if a == "key" else a for a in args)
            before = raw_attrs(n)
            try:
                v = getattr(n.attrs, m)(*args)
                got = has_attr_value(v)
                res = "passed"
            except UnsupportedOperationError:
                got, res = False, "refused"
            except Exception:
                got, res = False, "n/a"
            tags.add("am-sweep:%s:%s" % (m, res))
            if got and "s" in fl:
                oracle.append(dict(ctxd, kind="skel-read", op="am:" + m, args=repr(args), node=n.name, acl=fl))
            if raw_attrs(n) != before:
                changed = True
                if "r" in fl:
                    oracle.append(dict(ctxd, kind="ro-mutation-accepted", op="am:" + m, args=repr(args), node=n.name, acl=fl))
                # put the attributes back so that the next call sees them again
                a = n.__wrapped__.attrs
                for k in list(a.keys()):
                    del a[k]
                if n.name in ATTR_AT:
                    a[ATTR_AT[n.name]] = ATTR_VAL[ATTR_AT[n.name]]
    return changed


def below(name, root):
    return name == root or root == "/" or name.startswith(root + "/")


def impl(case):
    import shutil
    import tempfile
    tmp = tempfile.mkdtemp(prefix="c15_")
    fx = None
    drv = case["drv"]
    out = ["ok"] * (len(KIND) - 1) + ["ok"]
    oracle, tags = [], set()
    seen = set()
    swept = set()
    try:
        fx = Fixture(drv, tmp)
        for chain, expect_kind in case["chains"]:
            mc = fx.mc
            n = mc[case["start"]]
            f0 = case["flags"]
            if f0 != "-":
                n.restrict(**{FLAGNAME[c]: True for c in f0})
            prev = flags_of(n)
            root = case["start"] if "l" in f0 else None
            toks = []
            ok = True
            for i, st in enumerate(chain):
                try:
                    n2 = do_step(n, st)
                except Exception as e:
                    toks.append("err:" + err_class(e))
                    ok = False
                    break
                if not hasattr(n2, "acl") or not hasattr(n2, "restrict"):
                    # a navigation primitive handed out an object that is not a wrapper at all
                    oracle.append(dict(kind="raw-node-returned", chain=chain[: i + 1], start=case["start"], flags=f0, drv=drv, got=type(n2).__name__, before=prev))
                    toks.append("raw")
                    ok = False
                    break
                fl = flags_of(n2)
                toks.append("%s|%s|%d" % (hx(n2.name), fl, len(lp_chain(n2))))
                # oracle: flags never shrink; restrict only adds
                if not set(prev.replace("-", "")) <= set(fl):
                    oracle.append(dict(kind="flag-lost", chain=chain[: i + 1], start=case["start"], flags=f0, drv=drv, before=prev, after=fl, node=n2.name))
                if st[0] == "r" and not set(st[1].replace("-", "")) <= set(fl):
                    oracle.append(dict(kind="restrict-not-applied", chain=chain[: i + 1], start=case["start"], flags=f0, drv=drv))
                if st[0] == "r" and "l" in st[1]:
                    root = n2.name
                if root is not None and not below(n2.name, root):
                    oracle.append(dict(kind="local-escape", chain=chain[: i + 1], start=case["start"], flags=f0, drv=drv, reached=n2.name, root=root))
                prev = fl
                n = n2
            out.append(" ".join(toks) if toks else "-")
            if not ok:
                out.append("none")
                tags.add("chain-err:" + toks[-1][4:])
                if len(oracle) > 20:
                    break
                continue
            tags.add("len%d" % len(chain))
            for st in chain:
                tags.add("step:" + (st[1] if st[0] in ("c", "a") else st[0]) + ("-abs" if st[0] == "a" else ""))
            key = (n.name, prev, tuple(lp_chain(n)))
            if key in seen:
                out.append("*")
                continue
            seen.add(key)
            kind = "d" if hasattr(n, "ndim") else "g"
            if kind != expect_kind:
                out.append("*")
                continue
            letters = []
            dirty = False
            for op in ops_for(kind, drv):
                # mutating operations are only tried where they have to be refused: on read_only
                # nodes, and the attribute-manager methods on skel_only nodes as well (there the
                # wrapper admits nothing but `keys`)
                if op in MUTATING and "r" not in prev and not (op.startswith("am:") and "s" in prev):
                    letters.append("p")
                    continue
                try:
                    v = do_op(n, op, drv)
                    res = "P"
                    if op in MUTATING:
                        if "r" in prev:
                            oracle.append(dict(kind="ro-mutation-accepted", op=op, chain=chain, start=case["start"], flags=f0, drv=drv, node=n.name, acl=prev))
                        dirty = True
                    if op in READING and "s" in prev and _nonempty(v):
                        oracle.append(dict(kind="skel-read", op=op, chain=chain, start=case["start"], flags=f0, drv=drv, node=n.name, acl=prev))
                    if op in AM_VALUE and "s" in prev and has_attr_value(v):
                        oracle.append(dict(kind="skel-read", op=op, chain=chain, start=case["start"], flags=f0, drv=drv, node=n.name, acl=prev))
                    if op in UPWARD and "l" in prev:
                        oracle.append(dict(kind="local-escape", op=op, chain=chain, start=case["start"], flags=f0, drv=drv, node=n.name, acl=prev))
                except Exception as e:
                    c = err_class(e)
                    res = "R" if c == "u" else ("V" if c == "v" and op.startswith("abs:") else "P")
                letters.append(res)
            out.append("".join(letters))
            tags.add("ops:" + kind + ":" + prev)
            if ("r" in prev or "s" in prev) and (n.name, prev) not in swept:
                swept.add((n.name, prev))
                if am_sweep(n, prev, dict(chain=chain, start=case["start"], flags=f0, drv=drv), oracle, tags):
                    dirty = True
            if "r" in prev:
                if fx.dump() != fx.base:
                    if not dirty:
                        oracle.append(dict(kind="ro-raw-changed", chain=chain, start=case["start"], flags=f0, drv=drv, node=n.name, acl=prev))
                    dirty = True
            if dirty:
                fx.build()
            if len(oracle) > 20:
                break
        return dict(out=out, oracle=oracle[:8], tags=sorted(tags))
    finally:
        if fx is not None:
            fx.close()
        shutil.rmtree(tmp, ignore_errors=True)


# ----------------------------------------------------------------------------- model lines
def step_tok(st):
    if st[0] == "p":
        return "p"
    if st[0] == "r":
        return "r:" + st[1]
    # `visit` hands out names only; the node comes from the lookup that follows
    return "%s:%s:%s" % (st[0], {"visit": "getitem"}.get(st[1], st[1]), hx(st[2]))


def lines(case):
    L = []
    for p, k in sorted(KIND.items()):
        if p != "/":
            L.append("node %s %s" % (hx(p), k))
    L.append("start %s %s" % (hx(case["start"]), case["flags"]))
    for chain, kind in case["chains"]:
        L.append("chain " + " ".join(step_tok(s) for s in chain))
        L.append("ops " + " ".join(ops_for(kind, case["drv"])))
    return L


def compare(case, ir, mo):
    a = ir["out"]
    if len(a) != len(mo):
        return "length %d vs %d" % (len(a), len(mo))
    for i, (x, y) in enumerate(zip(a, mo)):
        if x == "*" or x == y:
            continue
        if len(x) == len(y) and all(c == d or c == "p" for c, d in zip(x, y)) and "|" not in x and not x.startswith("err"):
            continue
        return "line %d: impl=%r model=%r" % (i, x, y)
    return None


# ----------------------------------------------------------------------------- generators
STARTS = ["/", "/g", "/g/h", "/g/d"]


def rand_chains(rng, start, flags, n, lo, hi):
    """random long chains (lengths lo..hi), steps proposed like in enum_chains"""
    out = []
    for _ in range(n):
        path, loc, lps = start, "l" in flags, ()
        chain = []
        for _ in range(rng.randrange(lo, hi + 1)):
            st, nxt = rng.choice(steps_at(path, True))
            chain.append(st)
            if st[0] == "p":
                if loc:
                    if not lps:
                        chain += PROBE[:rng.randrange(0, len(PROBE) + 1)]
                        break
                    nxt, lps = lps[0], lps[1:]
            elif st[0] == "a":
                if loc:
                    break
                lps = ()
            elif st[0] == "r":
                if "l" in st[1]:
                    loc, lps = True, ()
            elif st[2] != "":
                lps = ((path,) + lps) if loc else ()
            path = nxt
        out.append([chain, KIND[path]])
    return out


def climb_chains(start, flags, two):
    """local root (the start node when it is local_only, otherwise made so by a `restrict` step),
    one or two navigation steps downwards with EVERY argument of every primitive (multi-segment
    paths, visitor arguments, query results included), then `.parent` as often as there are
    nodes between the node reached and the top of the container, plus two."""
    out = []
    pre = [] if "l" in flags else [["r", "l"]]
    if KIND[start] != "g":
        return out
    for s1, p1 in steps_at(start, True):
        if s1[0] != "c" or s1[2] == "":
            continue
        up = [["p"]] * (p1.count("/") + 2)
        out.append([pre + [s1] + up, "g"])
        if not two or KIND[p1] != "g":
            continue
        for s2, p2 in steps_at(p1, True):
            if s2[0] == "c" and s2[2] != "":
                out.append([pre + [s1, s2] + [["p"]] * (p2.count("/") + 2), "g"])
    return out


def gen_cases(ctx):
    cases = []
    for drv, two in (("h5", True), ("ih5", not ctx.quick)):
        for start in STARTS:
            for flags in FLAGSETS:
                ch = climb_chains(start, flags, two)
                per = 500 if drv == "h5" else 120
                for i in range(0, len(ch), per):
                    cases.append(dict(kind="chains", drv=drv, start=start, flags=flags, chains=ch[i:i + per], depth=9, full=True, group="climb"))
        ctx.exhaustive_spaces.append("driver %s: every local root (4 start nodes x 8 flag sets, local_only set by the start flags or by a restrict step) x every %s downward navigation step(s) with every argument (multi-segment paths, visitor arguments, query results) x `.parent` repeated past the top of the container" % (drv, "one or two" if two else "single"))
    for drv, n in (("h5", 60 if ctx.quick else 1500), ("ih5", 6 if ctx.quick else 150)):
        for start in STARTS:
            for flags in FLAGSETS:
                ch = rand_chains(ctx.rng, start, flags, n, 4, 7)
                per = 500 if drv == "h5" else 120
                for i in range(0, len(ch), per):
                    cases.append(dict(kind="chains", drv=drv, start=start, flags=flags, chains=ch[i:i + per], depth=7, full=True, group="random"))
    plan = []
    if ctx.quick:
        plan = [("h5", 3, False), ("h5", 2, True), ("ih5", 2, False)]
    else:
        plan = [("h5", 4, False), ("h5", 3, True), ("ih5", 3, False), ("ih5", 2, True)]
    for drv, depth, full in plan:
        for start in STARTS:
            for flags in FLAGSETS:
                chains = [[c, KIND[p]] for c, p in enum_chains(start, depth, full, flags)]
                per = 500 if drv == "h5" else 120
                for i in range(0, len(chains), per):
                    cases.append(dict(kind="chains", drv=drv, start=start, flags=flags, chains=chains[i:i + per], depth=depth, full=full))
        ctx.exhaustive_spaces.append("all navigation chains of length <= %d over %s arguments of every primitive x 4 start nodes x 8 flag sets, driver %s; every operation of the protocol on every distinct wrapper state reached" % (depth, "all" if full else "representative", drv))
    return cases


def run(ctx):
    ctx.rule = ("cases: explicit navigation chains ([], get, items/values/keys/iteration + lookup, visititems, visit + lookup, parent, metador.query results, require_group/"
                "require_dataset, absolute lookups, restrict with every single flag and with all-False) from 4 start nodes x 8 flag sets on a fixed container "
                "(root, /g{d,h{e}}, /top; metadata at /, /g, /g/d, /g/h/e; attributes) on h5py.File and IH5Record (second patch open); after every chain every "
                "operation of the group/dataset/attribute/metadata protocol on the node reached (once per distinct wrapper state). Where `.parent` is expected to be "
                "refused (local root) the chain continues with three more `.parent` calls; a 'climb' family takes every local root x every one or two downward steps "
                "with every argument (multi-segment paths, visitor arguments, query results) x `.parent` repeated past the top. On every read_only / skel_only node "
                "reached, every public method of the underlying attribute manager (dir()) is called through `attrs` with six argument shapes (oracle only: value "
                "handed out under skel_only, attributes changed under read_only). Non-trivial = tagged: step kinds, chain lengths, error classes, op batches per "
                "node kind x flag set, attribute-manager method x outcome.")
    ctx.trusted.append("harness/translate.py: ast extraction of the ACL table (wrapping of results, _guard_acl calls before __wrapped__, restrict, parent, attribute whitelist); TableOk re-checked on every run")
    ctx.assumptions += [
        "a wrapper object is determined by (node, flags, chain of remembered local parents); operations on two wrappers with equal state behave alike (used to run the operation batch once per state)",
        "Python exception semantics: a raising guard prevents the raw operation",
    ]
    cases = core.load_corpus(ID) + gen_cases(ctx)
    ctx.correspond("acl-chains", MOD, cases, lines, "drv_acl", compare=compare, timeout=300)
    n = sum(len(c["chains"]) for c in cases)
    ctx.dist["chains"] = n
    ctx.steps += n


def signature(case, detail):
    k = detail.get("kind") if isinstance(detail, dict) else str(detail)[:40]
    return "%s:%s" % (ID, k)


def shrink(ctx, case, detail):
    from .. import pool
    want = detail.get("kind") if isinstance(detail, dict) else None
    chain = detail.get("chain") if isinstance(detail, dict) else None
    if not chain:
        return case, detail
    kind = "g"
    for c, k in case.get("chains", []):
        if c == chain:
            kind = k

    def run1(ch, flags=None):
        c2 = dict(case, chains=[[ch, kind]] + ([[ch, "d" if kind == "g" else "g"]]))
        if flags is not None:
            c2["flags"] = flags
        r = pool.run_one(MOD, "impl", c2, timeout=120)
        if "ok" in r:
            ds = [d for d in r["ok"]["oracle"] if d.get("kind") == want]
            if ds:
                return c2, ds[0]
        return None
    best = run1(chain)
    if not best:
        return case, detail
    cur = list(chain)
    flags = case["flags"]
    changed = True
    while changed:
        changed = False
        # drop steps of the chain
        for i in range(len(cur)):
            if len(cur) <= 1:
                break
            cand = cur[:i] + cur[i + 1:]
            r = run1(cand, flags)
            if r:
                cur, best, changed = cand, r, True
                break
        if changed:
            continue
        # drop flags of the start node
        for f in flags.replace("-", ""):
            cand = flags.replace(f, "") or "-"
            r = run1(cur, cand)
            if r:
                flags, best, changed = cand, r, True
                break
    c2, d = best
    return dict(c2, chains=[c2["chains"][0]]), d


def search(ctx):
    from .. import pool
    # 1. other seeds of the quick generators on both drivers, 2. the thorough enumeration on h5
    rounds = [("quick", ctx.seed + 1 + i, None) for i in range(2)] + [("thorough", ctx.seed, "h5")]
    for tier, seed, only in rounds:
        sub = core.Ctx(ID, tier, seed)
        cases = [c for c in gen_cases(sub) if only is None or c["drv"] == only]
        res = pool.run(MOD, "impl", cases, timeout=300)
        ctx.search_log.append("%s generators, seed %d%s: %d cases, oracle only" % (tier, seed, " on " + only if only else "", len(cases)))
        for c, r in zip(cases, res):
            if "ok" in r and r["ok"]["oracle"]:
                return shrink(ctx, c, r["ok"]["oracle"][0])
    return None


def replay(ctx, rep):
    from .. import pool
    case = rep.get("case")
    if not case:
        print(core.canon(rep)[:3000])
        return 0
    r = pool.run_one(MOD, "impl", case, timeout=300)
    print("implementation:", core.canon(r)[:3000])
    try:
        print("model:", lean.run_driver("drv_acl", [lines(case)]))
    except lean.InfraError as e:
        print("model: not available (%s)" % e)
    return 1 if ("ok" in r and r["ok"]["oracle"]) else 0
