"""C11 — A crash while patching never damages what was committed.

Lean: Model/Crash.lean (create/commit unfolded into file-system steps, torn user-block write
`new.take k ++ old.drop k`; `openW`: what a writable open does after a crash), Model/UBlock.lean (concrete user-block parser), Model/Chain.lean
(`validate`), Proofs/Crash*.lean, Props/C11.lean.

Real code, three observation channels (none needs a hook in /repo):

1. snapshots: random patching histories (create_patch, writes, commit_patch, discard_patch, close +
   reopen) on real records of both classes; the directory is copied after every API call *and*
   around the file-system steps inside create/commit (before/after `IH5UserBlock.save`, at
   `hashsum_file`, before/after `IH5Manifest.save` — wrapped from the harness). Every snapshot is
   opened as "committed files only" and as "all files", each in BOTH forms the constructor takes: the explicit
   file list, and the RECORD NAME (what a restarted process does; the committed containers are linked into a
   directory of their own for it) — the state shown is compared with the state recorded at the last commit.
   Long chains (profile "long": >= 11 committed containers, i.e. patch indices with two digits, tiny payloads,
   restarts all along the chain, varied record names) are part of every tier; there a sample of the snapshots is
   analysed, each in one of the two forms.
   Crash + recovery (cases with `v >= 2`): the close/reopen step either closes without commit or
   continues in a *crash image* (copy of the directory taken while the record is open); the record
   is then opened again in EVERY writable mode (`r+`, `a`) and in every form the constructor takes
   (record name, explicit file list, file list in any order), so an interrupted patch is recovered,
   completed, committed and patched further, with all snapshots checked as before. In between, a
   writable open of a STRICT PREFIX of the file list is attempted (legal call; the next-patch name is
   taken, so the real code refuses it) and the directory is checked afterwards.
2. torn writes: for every `save` of a history (creation and commit) the first 1024 bytes before and
   after are recorded and `after[:k] + before[k:]` is built for EVERY k in [0, 1024]; each is fed to
   the real `IH5UserBlock.load` and to the model (`tornall`): classification old/new/error must
   agree; each distinct torn block is put into a copy of the file set and opened with the real code.
3. thorough only: a writer subprocess is killed with SIGKILL at a random instant; the directory is
   checked afterwards against the writer's journal.

Oracle (real code only): a committed file changes (sha256); the committed files alone do not open or
do not show the last committed state (file list or record name); the complete set opens with every container
committed but is not a state that was written (dump / user block differ from the committed or the
about-to-be-committed state), or (by name) shows the committed state with the newest container of the set silently
left out (neither "interrupted patch recognisable as uncommitted" nor "the fully committed new state").
Correspondence: ok/err + patch order of both openings of every snapshot vs. the model `openFiles`;
what every writable open does (re-opens the interrupted newest container / creates a patch / refuses
because the name of the next patch is taken / fails) vs. the model `Crash.openW`;
run-length classification of all 1025 torn blocks of every save vs. the model `loadUB ∘ torn`.
"""
import hashlib
import os
import random

from .. import core, lean, pool
from . import chn_common as cc

ID = "C11"
MOD = "harness.props.c11"
T = "MetadorModel.C11."
B = "MetadorModel.Bridge.PatchSteps."
BM = "MetadorModel.Bridge."
LEAN = dict(
    modules=["MetadorModel.Props.C11",
             # translated tie (harness/translate_c11.py -> Gen/PatchSteps.lean): one module per method, so that a broken
             # obligation names the method; PatchStepsModel / PatchStepsCrash import nothing generated
             BM + "PatchStepsModel", BM + "PatchStepsCrash", BM + "PatchSteps", BM + "PatchStepsCreate",
             BM + "PatchStepsDiscard", BM + "PatchStepsCommit", BM + "PatchStepsClose", BM + "PatchStepsSave"],
    theorems=[T + n for n in [
        "crash_frame", "crash_committed_opens", "torn_create_classified", "torn_classified", "reach_newfile",
        "crash_trichotomy", "uncommitted_recognisable", "committed_state_verified",
        "recover_reopens", "reopen_only_uncommitted", "create_only_fresh", "prefix_open_refused"]] + [B + n for n in [
        # the step sequences (hand-written closed forms) are the record model (C02/C03's `createPatch`, ...)
        "createPatchW_res", "commitPlainW_res", "commitMFW_res", "discardW_res", "closeW_res", "onDisk_of_inv",
        # the regenerated methods are the step sequences / the record model
        "gen_constants", "gen_manifest_ext", "gen_manifest_filepath", "gen_has_writable", "gen_expect_open", "gen_mode", "gen_expect_not_ro",
        "gen_ublock_last", "gen_set_ublock_last",
        "gen_ub_create_some", "gen_ub_create_none", "gen_new_container", "gen_create_patch", "gen_create_patch_model",
        "gen_delete_latest_container", "gen_discard_patch", "gen_discard_patch_model",
        "gen_commit_patch", "gen_commit_patch_model", "gen_manifest", "gen_mf_commit_patch", "gen_mf_commit_patch_model",
        "gen_dispatch_commit_patch", "gen_close_loop", "gen_close", "gen_close_model",
        # IH5UserBlock.save at byte level
        "Bytes.gen_constants", "Bytes.gen_save", "Bytes.gen_save_writes", "Bytes.gen_save_prefix"]] + [
        # every crash state of the step sequences is a `Crash.Reach` state
        BM + "PatchCrash." + n for n in [
            "CrashOf.of_prefix", "session_crash_reach", "recover_crash_reach", "discard_crash_reach",
            "steps_session_crash", "createPatchW_trace", "commitPlainW_trace"]],
    drivers=["drv_chn"],
)


def translate(ctx):
    """regenerate Gen/PatchSteps.lean from the current source: `_new_container`, `create_patch`, `discard_patch`,
    `commit_patch` (both classes), `close`, the guards, `IH5UserBlock.create` / `save`, `_manifest_filepath`"""
    from .. import translate_c11
    try:
        # a method that cannot be translated is left out of the generated file (the others stay), then TranslateError
        # is raised: only the bridge modules about that method fail to build
        return translate_c11.write(lean)
    except translate_c11.TranslateError:
        raise
    except Exception as e:  # noqa: BLE001
        # leave no text of an earlier run (possibly of another tree) behind
        translate_c11.write_stub(lean, "%s: %s" % (type(e).__name__, e))
        raise


def _runs(s):
    out = []
    for ch in s:
        if out and out[-1][0] == ch:
            out[-1][1] += 1
        else:
            out.append([ch, 1])
    return "runs " + " ".join("%s*%d" % (c, n) for c, n in out)


# ----------------------------------------------------------------------------- real code: history with snapshots
class _Run:
    def __init__(self, case):
        self.case = case
        self.cls = cc.classes()[case["cls"]]
        self.mf = case["cls"] == "mf"
        self.rng = random.Random(case["seed"])
        self.out, self.oracle, self.tags, self.sel = [], [], set(), []
        self.ml = cc.ModelLines()
        self.committed = []  # [(basename, sha256 of file, sha256 of manifest or None)]
        self.committed_dump = None
        self.pending_dump = None
        self.in_commit = False
        self.nsnap = 0
        self.level = case.get("torn", "sample")  # record-level opening of torn blocks: sample | all | none
        self.rec = None
        self.label = ""
        self.nsaves = 0
        self.aborted = None
        self.busy = False  # inside a snapshot analysis (the hooks must stay quiet)
        self.v = case.get("v", 1)  # op alphabet: 1 = as in the first corpus, 2 = + crash images / recovery modes / prefix opens
        self.rng2 = random.Random(case["seed"] ^ 0x5EED)  # choices of the v2 ops (the v1 stream stays as it was)
        self.ops = []  # compact trace of the history (goes into every oracle hit)
        self.ndirs = 0
        self.last_wopen = None
        self.rng3 = random.Random(case["seed"] ^ 0xB1A5)  # sampling of the by-name openings of torn states
        self.step = 0  # number of the history step that is being executed (oracle hits carry it: shrink target)
        self.name = case.get("name", "rec")  # record name (what the containers are found by when a record is opened by name)
        self.byname = case.get("byname", True)  # also open every crash state BY RECORD NAME (False: file lists only)
        self.thin = case.get("thin", False)  # long chains: a sample of the snapshots, each opened in ONE of the two forms
        self.nskipped = 0

    # -- directory helpers
    def files_now(self):
        return sorted(f for f in os.listdir(self.d))

    def snap(self, label):
        """copy the directory (what a crash at this point would leave) and analyse it"""
        import shutil

        if self.busy:
            return
        if self.thin and len(self.ih5_now()) >= 6 and self.rng3.random() >= 0.45:
            # long chains: the cost of a snapshot grows with the chain; beyond 5 containers a random 45 % are analysed
            self.nskipped += 1
            return
        self.busy = True
        self.nsnap += 1
        sd = os.path.join(self.root, "s%d" % self.nsnap)
        os.makedirs(sd)
        try:
            for f in self.files_now():
                shutil.copyfile(os.path.join(self.d, f), os.path.join(sd, f))
            self.analyse(sd, label)
        finally:
            self.busy = False
            shutil.rmtree(sd, ignore_errors=True)

    def hit(self, kind, **kw):
        self.oracle.append(dict(kind=kind, cls=self.case["cls"], step=self.step, history=" ".join(self.ops), **kw))

    def ih5_now(self):
        return sorted((f for f in os.listdir(self.d) if f.endswith(".ih5")), key=lambda n: (len(n), n))

    # -- crash / recovery (v2)
    def crash_or_close(self, r):
        """End the current process' use of the record without committing: either a close without commit,
        or the process dies (the directory as it is while the record is open = crash image; the history
        continues in the image). Returns nothing; self.d is the directory to continue in."""
        import shutil

        rng = self.rng2
        if rng.random() < 0.5:
            # what HDF5 has buffered is arbitrary at a crash; flushed here, so that the interrupted patch
            # is one that can be recovered (unflushed images are what every snap() already looks at)
            for f in r._files:
                if f.mode == "r+":
                    f.flush()
            self.ndirs += 1
            d2 = os.path.join(self.root, "img%d" % self.ndirs)
            os.makedirs(d2)
            for f in self.files_now():
                shutil.copyfile(os.path.join(self.d, f), os.path.join(d2, f))
            r.close(commit=False)
            self.d = d2
            self.ops.append("crash")
            self.tags.add("crash-image")
        else:
            r.close(commit=False)
            self.ops.append("close")

    def wopen(self, arg, files, mode):
        """`cls(arg, mode)` with a writable mode on the containers `files` (names in self.d), next to the
        model's `openW`: does it re-open the interrupted newest container, create a patch, or refuse?"""
        import gc

        from metador_core.ih5.record import IH5UserBlock

        paths = [os.path.join(self.d, n) for n in files]
        taken = False
        try:
            newest = max(IH5UserBlock.load(p).patch_index for p in paths)
            taken = os.path.exists(os.path.join(self.d, "%s.p%d.ih5" % (self.name, newest + 1)))  # _next_patch_filepath
        except Exception:  # noqa: BLE001  (a block that does not load: the model answers err whatever `taken` is)
            pass
        self.ml.cfg(self.mf)
        for p in paths:
            self.ml.file(p, p + "mf.json")
        self.ml.lines.append("wopen %s" % ("T" if taken else "F"))
        self.sel.append(len(self.ml.lines) - 1)
        slot = len(self.out)
        self.out.append(None)  # (snapshots taken inside the call add their own observations after this one)
        # openings of snapshots that failed may still hold HDF5 handles (hard links of these very files)
        gc.collect()
        _close_leaked()
        try:
            q = self.cls(arg, mode)
        except Exception as e:
            # mode "x" on a name that is taken: FileExistsError (HDF5: "file exists" when it has the file open itself)
            refused = isinstance(e, FileExistsError) or (isinstance(e, OSError) and "file exists" in str(e).lower())
            self.out[slot] = self.last_wopen = "w refuse" if refused else "err"
            raise
        n = len(q.ih5_files)
        self.out[slot] = ("w reopen" if n == len(files) and q._has_writable else "w create" if n == len(files) + 1 and q._has_writable
                          else "w other:%d:%d" % (n - len(files), q._has_writable))
        self.last_wopen = self.out[slot]
        self.tags.add("wopen:" + self.out[slot][2:])
        return q

    def prefix_open(self):
        """A writable open of a strict prefix of the file list. Whatever the code does with it (the pinned
        code refuses: the name of the next patch is taken), the snapshot oracle looks at the directory."""
        import gc
        from pathlib import Path

        rng = self.rng2
        files = self.ih5_now()
        if len(files) < 2:
            return
        k = rng.randrange(1, len(files))
        mode = rng.choice(["r+", "a"])
        paths = [Path(self.d) / n for n in files[:k]]
        if rng.random() < 0.3:
            rng.shuffle(paths)
        self.label = "prefix-open"
        self.ops.append("prefix-open(%d/%d,%s)" % (k, len(files), mode))
        q = None
        try:
            q = self.wopen(paths, [os.path.basename(str(p)) for p in paths], mode)
        except Exception as e:  # noqa: BLE001
            self.tags.add("prefix-open:%s" % ("refused" if self.last_wopen == "w refuse" else "failed:" + type(e).__name__))
            del e
            gc.collect()
            _close_leaked()
        if q is not None:
            self.tags.add("prefix-open:accepted")
            try:
                cc.rand_writes(q, rng, 2)
                for f in q._files:
                    if f.mode == "r+":
                        f.flush()
            except Exception:  # noqa: BLE001
                pass
        self.snap("prefix-open")
        if q is not None:
            try:
                q.close(commit=False)  # (a commit here would be a commit the bookkeeping below knows nothing about)
            except Exception:  # noqa: BLE001
                _close_leaked()
            self.snap("prefix-open/closed")
            # a second line of patches now exists in the directory: the bookkeeping of this history ends here
            raise _Stop("writable open of a strict prefix of the file list was accepted")

    def reopen(self):
        """Open the record in self.d again, writable: every mode, every form of the constructor argument."""
        from pathlib import Path

        rng = self.rng2
        files = self.ih5_now()
        mode = rng.choice(["r+", "a"])
        # (v >= 3: a restarted process knows the record by its name; that form is the usual one)
        form = rng.choice(["name", "list", "shuffled"] if self.v < 3 else ["name", "name", "name", "list", "shuffled"])
        unc = False
        try:
            from metador_core.ih5.record import IH5UserBlock

            unc = IH5UserBlock.load(os.path.join(self.d, files[-1])).hdf5_hashsum is None
        except Exception:  # noqa: BLE001
            pass
        self.label = "%s:%s" % ("recover" if unc else "reopen", mode)
        self.ops.append("%s(%s)" % (self.label, form))
        self.tags.add("%s:%s" % (self.label, form))
        if form == "name":
            return self.wopen(os.path.join(self.d, self.name), files, mode)
        paths = [Path(self.d) / n for n in files]
        if form == "shuffled":
            rng.shuffle(paths)
        return self.wopen(paths, [p.name for p in paths], mode)

    def open_set(self, sd, names, label, what, by_name=False, si=None):
        """open the containers `names` of snapshot dir sd with the real code and the model.
        by_name: sd holds exactly these containers and the record is opened by its NAME (what a process
        does after a restart: the containers are found by `find_files`); the observation is compared with
        the model's answer for the file list (the line of the preceding open_set of the same containers)."""
        paths = [os.path.join(sd, n) for n in names]
        if by_name:
            from pathlib import Path

            if si is None:  # (no file-list opening of these containers precedes: describe them for the model here)
                self.ml.cfg(self.mf)
                for p in paths:
                    self.ml.file(p, p + "mf.json")
                self.ml.open()
                si = len(self.ml.lines) - 1
            self.sel.append(si)
            try:
                rec, res, ek = self.cls(Path(sd) / self.name, "r"), "ok", ""
            except Exception as e:  # noqa: BLE001  (every exception is "opening failed")
                rec, res, ek = None, "err", cc.err_kind(e)
            what += "-by-name"
        else:
            self.ml.cfg(self.mf)
            for p in paths:
                self.ml.file(p, p + "mf.json")
            self.ml.open()
            self.sel.append(len(self.ml.lines) - 1)
            rec, res, ek = cc.open_real(self.cls, paths)
        info = dict(res=res, kind=ek, si=self.sel[-1])
        if rec is not None:
            try:
                if by_name:
                    got = [os.path.basename(str(p)) for p in rec.ih5_files]
                    info["files"] = got
                    self.out.append(" ".join(["ok"] + [str(names.index(g)) if g in names else "?" for g in got]))
                else:
                    self.out.append(cc.order_line(rec, paths))
                meta = rec.ih5_meta
                info["hashes"] = [m.hdf5_hashsum is not None for m in meta]
                info["last_ub"] = meta[-1].json()
                try:
                    info["dump"] = cc.dump(rec)
                except Exception as e:  # noqa: BLE001  (a half-written uncommitted payload may not be readable)
                    info["dump"] = "!unreadable:%s" % type(e).__name__
            finally:
                rec.close()
        else:
            self.out.append("err")
            _close_leaked()
        self.tags.add("%s:%s:%s" % (what, label.split("#")[0], res))
        return info

    def analyse(self, sd, label, expect_new_ub=None, torn=None):
        """the three clauses of the property on one (possibly synthesised) crash state"""
        present = sorted(f for f in os.listdir(sd) if f.endswith(".ih5"))
        # A. committed files byte-identical
        for name, h, mh in self.committed:
            p = os.path.join(sd, name)
            if not os.path.isfile(p):
                self.hit("committed-file-missing", at=label, file=name, torn=torn)
                continue
            if cc.sha(open(p, "rb").read()) != h:
                self.hit("committed-file-changed", at=label, file=name, torn=torn)
            if mh is not None:
                q = p + "mf.json"
                if not os.path.isfile(q) or cc.sha(open(q, "rb").read()) != mh:
                    self.hit("committed-manifest-changed", at=label, file=name, torn=torn)
        cnames = [c[0] for c in self.committed]
        order = lambda n: (len(n), n)  # noqa: E731
        # every opening in both forms the constructor takes: the file list, and the record name
        forms = (False, True) if (self.byname and (torn is None or self.rng3.random() < 0.25)) else (False,)
        if self.thin and self.byname and torn is None and len(present) >= 6:
            forms = (True,) if self.rng3.random() < 0.6 else (False,)
        # B. committed files on their own open and show the last committed state
        si = None
        for by_name in (forms if cnames and torn is None else ()):
            via = dict(opened_by="record name") if by_name else {}
            cdir = sd
            if by_name:
                # "on their own": a directory with the committed containers (and their manifests) and nothing else
                cdir = os.path.join(sd, "own")
                os.makedirs(cdir)
                for n in cnames:
                    for f in (n, n + "mf.json"):
                        if os.path.isfile(os.path.join(sd, f)):
                            os.link(os.path.join(sd, f), os.path.join(cdir, f))
            info = self.open_set(cdir, sorted(cnames, key=order), label, "committed", by_name=by_name, si=si if len(forms) == 2 else None)
            if by_name and len(cnames) >= 11:
                self.tags.add("committed-by-name:chain>=11:" + info["res"])
            si = info["si"]
            if info["res"] != "ok":
                self.hit("committed-set-does-not-open", at=label, error=info["kind"], **via)
            elif info["dump"] != self.committed_dump:
                self.hit("committed-set-shows-other-state", at=label, **via, **({"opened": info["files"], "committed": cnames} if by_name else {}))
            if by_name:
                import shutil

                shutil.rmtree(cdir, ignore_errors=True)
        # C. the complete set: fails | uncommitted newest recognisable | fully committed new state
        for by_name in (forms if present else ()):
            via = dict(opened_by="record name", opened=None) if by_name else {}
            info = self.open_set(sd, sorted(present, key=order), label, "all", by_name=by_name, si=si if by_name and len(forms) == 2 else None)
            si = info["si"]
            if by_name:
                via["opened"] = info.get("files")
                if len(present) >= 11:
                    self.tags.add("all-by-name:chain>=11:" + info["res"])
            if info["res"] == "ok":
                if not info["hashes"][-1]:
                    self.tags.add("all:opens-with-uncommitted-newest")
                    if not all(info["hashes"][:-1]):
                        self.hit("inner-container-without-hash-accepted", at=label, torn=torn, **via)
                else:
                    same_as_committed = sorted(present) == sorted(cnames)
                    if same_as_committed:
                        okstate = info["dump"] == self.committed_dump
                    else:
                        okstate = (self.in_commit and self.pending_dump is not None and info["dump"] == self.pending_dump
                                   and len(present) == len(cnames) + 1)
                        if okstate and expect_new_ub is not None and info["last_ub"] != expect_new_ub:
                            okstate = False
                        if okstate:
                            self.tags.add("all:opens-with-new-committed-state")
                    if not okstate:
                        # (by name only) the last committed state, but the newest container of the set was silently left out:
                        # neither "interrupted patch recognisable as uncommitted" nor "the fully committed new state"
                        ignored = by_name and info["dump"] == self.committed_dump and info.get("files") == sorted(cnames, key=order)
                        self.hit("opens-cleanly-ignoring-newest-container" if ignored else "opens-cleanly-with-unwritten-state",
                                 at=label, torn=torn, present=present, committed=cnames, **via)
            elif sorted(present) == sorted(cnames) and torn is None:
                self.hit("committed-set-does-not-open", at=label, error=info["kind"], **via)

    # -- torn writes of one save()
    def torn_event(self, path, before, after, label):
        """before/after: first 1024 bytes of the container around IH5UserBlock.save."""
        import shutil

        from metador_core.ih5.record import IH5UserBlock

        n = after.find(b"\0")
        data = after[: n + 1]
        assert n > 0 and after[n + 1:] == before[n + 1:]
        tmp = os.path.join(self.root, "tornblk")

        def load(b):
            with open(tmp, "wb") as f:
                f.write(b)
            try:
                return IH5UserBlock.load(tmp)
            except Exception:  # noqa: BLE001
                return None

        old_ub, new_ub = load(before), load(after)
        if new_ub is None:
            self.hit("written-block-does-not-load", at=label)
        cls_str = []
        cache = {}
        for k in range(cc.UB + 1):
            b = after[:k] + before[k:]
            if b not in cache:
                u = load(b)
                cache[b] = "e" if u is None else "o" if (old_ub is not None and u == old_ub) else "n" if (new_ub is not None and u == new_ub) else "x"
            cls_str.append(cache[b])
        self.out.append(_runs(cls_str))
        self.ml.lines.append("tornall %s %s %d" % (before.hex(), data.hex(), cc.UB))
        self.sel.append(len(self.ml.lines) - 1)
        self.tags.add("torn:%s:%s" % (label.split("#")[0], "".join(sorted(set(cls_str)))))
        # record level: every distinct torn block inside a copy of the file set
        if self.level == "none":
            return
        blocks = list(cache)
        if self.level == "sample":
            # all blocks around the region where old and new text interleave, a sample elsewhere
            common = next((i for i in range(cc.UB) if before[i] != after[i]), cc.UB)
            keep = []
            for b in blocks:
                k = next((i for i in range(cc.UB) if b[i] != before[i]), None)  # first byte that already is new
                cut = max((i for i in range(cc.UB) if b[i] != before[i]), default=0)
                if cut <= common + 40 or cut >= n - 3 or self.rng.random() < 0.06:
                    keep.append(b)
            blocks = keep
        name = os.path.basename(path)
        payload = open(path, "rb").read()[cc.UB:]
        td = os.path.join(self.root, "torn")
        new_json = new_ub.json() if new_ub is not None else None
        for b in blocks:
            os.makedirs(td)
            try:
                for f in self.files_now():
                    if f != name:
                        os.link(os.path.join(self.d, f), os.path.join(td, f))
                with open(os.path.join(td, name), "wb") as f:
                    f.write(b + payload)
                cut = max((i for i in range(cc.UB) if b[i] != before[i]), default=-1) + 1
                self.analyse(td, label + "#torn", expect_new_ub=new_json, torn=cut)
            finally:
                shutil.rmtree(td, ignore_errors=True)

    # -- the history
    def run(self):
        import shutil
        import tempfile

        import metador_core.ih5.manifest as Mf
        import metador_core.ih5.record as R

        self.root = tempfile.mkdtemp(prefix="c11-", dir=_scratch(self.case))
        self.d = os.path.join(self.root, "dir")
        os.makedirs(self.d)
        base = os.path.join(self.d, self.name)
        orig_save, orig_hash, orig_mfsave = R.IH5UserBlock.save, R.hashsum_file, Mf.IH5Manifest.save
        me = self

        def save_hook(ub, filename):
            filename = str(filename)
            if me.busy:
                return orig_save(ub, filename)
            me.nsaves += 1
            with open(filename, "rb") as f:
                before = f.read(cc.UB)
            me.snap(me.label + "/pre-save")
            orig_save(ub, filename)
            with open(filename, "rb") as f:
                after = f.read(cc.UB)
            me.busy = True
            try:
                me.torn_event(filename, before, after, me.label)
            finally:
                me.busy = False
            me.snap(me.label + "/post-save")

        def hash_hook(filename, skip_bytes=0):
            if me.in_commit and not me.busy:
                me.snap(me.label + "/closed-before-hash")
            return orig_hash(filename, skip_bytes=skip_bytes)

        def mfsave_hook(mf, path):
            if me.busy:
                return orig_mfsave(mf, path)
            me.snap(me.label + "/pre-manifest")
            # a torn manifest write: some prefix of the manifest
            data = bytes(mf)
            with open(path, "wb") as f:
                f.write(data[: me.rng.randrange(0, len(data))])
            me.snap(me.label + "/torn-manifest")
            os.unlink(path)
            orig_mfsave(mf, path)

        R.IH5UserBlock.save = save_hook
        R.hashsum_file = hash_hook
        Mf.IH5Manifest.save = mfsave_hook
        rng = self.rng
        try:
            try:
                self.label = "create-base"
                self.ops.append("create-base")
                r = self.cls(base, "w")
                self.snap("create-base")
                steps = self.case.get("steps", 14)
                # cumulative op thresholds while a container is writable: write, commit, discard; reopen below .9
                tw, tc, td, tp, tr = PROFILES[self.case.get("profile", "base")]
                i = 0
                while i < steps:
                    i += 1
                    self.step = i
                    writable = r._has_writable
                    nfiles = len(r.ih5_files)
                    x = rng.random()
                    if writable and x < tw:
                        self.label = "write"
                        cc.rand_writes(r, rng, rng.randrange(1, 4))
                        if rng.random() < 0.3:
                            for f in r._files:
                                if f.mode == "r+":
                                    f.flush()
                    elif writable and x < tc:
                        self.label = "commit"
                        self.pending_dump = cc.dump(r)
                        self.in_commit = True
                        r.commit_patch()
                        self.in_commit = False
                        name = os.path.basename(str(r.ih5_files[-1]))
                        p = os.path.join(self.d, name)
                        mh = cc.sha(open(p + "mf.json", "rb").read()) if (self.mf and os.path.isfile(p + "mf.json")) else None
                        self.committed.append((name, cc.sha(open(p, "rb").read()), mh))
                        self.committed_dump = cc.dump(r)
                        if self.committed_dump != self.pending_dump:
                            self.hit("commit-changes-view", at="commit")
                        self.pending_dump = None
                    elif writable and x < td and nfiles > 1:
                        self.label = "discard"
                        r.discard_patch()
                    elif not writable and x < tp:
                        self.label = "create-patch"
                        r.create_patch()
                    elif x < tr and self.v < 2:
                        self.label = "close-reopen"
                        r.close(commit=False)
                        self.snap("closed")
                        r = self.cls(base, "r+")
                    elif x < tr:
                        self.label = "closed"
                        self.crash_or_close(r)
                        self.snap("closed")
                        if self.rng2.random() < 0.6:
                            self.prefix_open()
                        r = self.reopen()
                    else:
                        self.label = "write"
                        if writable:
                            cc.rand_writes(r, rng, 1)
                    if self.label in ("write", "commit", "discard", "create-patch", "close-reopen"):
                        self.ops.append(self.label)
                    self.snap(self.label)
                self.step = steps + 1
                r.close(commit=False)
                self.snap("final-close")
            except _Stop as e:
                self.aborted = "stopped at %s: %s" % (self.label, e)
                self.tags.add("history-stopped")
            except Exception as e:  # noqa: BLE001
                # the real code refused a legal call (typically the consequence of a violation that the
                # snapshot oracle has already recorded); stop this history, keep what was observed
                self.aborted = "%s at %s: %s" % (type(e).__name__, self.label, str(e)[-80:])
                self.tags.add("history-aborted")
        finally:
            R.IH5UserBlock.save, R.hashsum_file, Mf.IH5Manifest.save = orig_save, orig_hash, orig_mfsave
            _close_leaked()
            shutil.rmtree(self.root, ignore_errors=True)
        self.tags.add("cls=" + self.case["cls"])
        if len(self.committed) >= 2:
            self.tags.add("committed>=2")
        if len(self.committed) >= 11:
            self.tags.add("committed>=11")  # (patch indices with two digits)
        return dict(out=self.out, mlines=self.ml.lines, sel=self.sel, oracle=self.oracle, tags=sorted(self.tags),
                    diag={"snapshots": self.nsnap, "snapshots-not-analysed": self.nskipped, "saves": self.nsaves, "aborted-histories": 1 if self.aborted else 0}, aborted=self.aborted)


class _Stop(Exception):
    pass


def _scratch(case):
    """where the directories of a case live: a memory-backed file system when there is one (creating / truncating a file
    on the disk-backed temp dir costs ~2 ms here, and a history makes tens of thousands of them), the default temp dir
    for every 16th short history so that both kinds of directory enumeration order stay covered"""
    d = "/dev/shm"
    if (case.get("profile") == "long" or case.get("seed", 0) % 16 != 0) and os.path.isdir(d) and os.access(d, os.W_OK | os.X_OK):
        return d
    return None


# cumulative thresholds of the history ops: (write, commit, discard | create-patch when nothing is writable | close/crash+reopen)
PROFILES = {
    "base": (0.35, 0.65, 0.75, 0.7, 0.9),
    "recover": (0.22, 0.50, 0.56, 0.55, 0.93),  # crash / recovery / prefix opens about every third step
    # long patch chains with tiny payloads: mostly create-patch / one write / commit, every third new patch made by a
    # restarted process (close or crash image, then a writable open), ~3 steps per committed patch
    "long": (0.40, 0.93, 0.94, 0.62, 0.97),
}


def _close_leaked():
    import h5py

    try:
        for fid in h5py.h5f.get_obj_ids(types=h5py.h5f.OBJ_FILE):
            try:
                fid.close()
            except Exception:  # noqa: BLE001
                pass
    except Exception:  # noqa: BLE001
        pass


# ----------------------------------------------------------------------------- SIGKILL
WRITER = r'''
import sys, os, json, random
sys.path.insert(0, %(verif)r)
import harness.envshim
from harness.props import chn_common as cc
cls = cc.classes()[%(cls)r]
rng = random.Random(%(seed)d)
base = %(base)r
j = open(%(journal)r, "a")
def log(**kw):
    j.write(json.dumps(kw) + "\n"); j.flush()   # reaches the kernel: survives SIGKILL
r = cls(base, "w")
log(ev="ready")
n = 0
while True:
    cc.rand_writes(r, rng, rng.randrange(1, 4))
    name = os.path.basename(str(r.ih5_files[-1]))
    log(ev="committing", file=name, dump=cc.dump(r))
    r.commit_patch()
    log(ev="committed", file=name, sha=cc.sha(open(os.path.join(os.path.dirname(base), name), "rb").read()))
    n += 1
    if n %% 6 == 5:
        r.close(commit=False)
        r = cls(base, rng.choice(["r+", "a"]))
    else:
        r.create_patch()
    if n > 200:
        break
'''


def impl_kill(case):
    """start the writer, kill it with SIGKILL after a random delay, check the directory"""
    import json
    import shutil
    import signal
    import subprocess
    import sys
    import tempfile
    import time

    clsname = case["cls"]
    cls = cc.classes()[clsname]
    rng = random.Random(case["seed"])
    root = tempfile.mkdtemp(prefix="c11k-")
    oracle, tags = [], set()
    out, sel = [], []
    ml = cc.ModelLines()
    try:
        d = os.path.join(root, "dir")
        os.makedirs(d)
        journal = os.path.join(root, "journal")
        src = WRITER % dict(verif=core.VERIF, cls=clsname, seed=case["seed"], base=os.path.join(d, "rec"), journal=journal)
        env = dict(os.environ)
        p = subprocess.Popen([sys.executable, "-c", src], env=env, stdout=subprocess.DEVNULL, stderr=subprocess.DEVNULL)
        t0 = time.time()
        while time.time() - t0 < 60:
            if os.path.isfile(journal) and os.path.getsize(journal) > 0:
                break
            if p.poll() is not None:
                break
            time.sleep(0.005)
        time.sleep(case["delay"])
        p.send_signal(signal.SIGKILL)
        p.wait()
        evs = [json.loads(l) for l in open(journal)] if os.path.isfile(journal) else []
        committed = [(e["file"], e["sha"]) for e in evs if e["ev"] == "committed"]
        pend = [e for e in evs if e["ev"] == "committing"]
        last_dump = None
        # the dump logged before a commit is the state that commit writes
        dumps = {e["file"]: e["dump"] for e in pend}
        present = sorted((f for f in os.listdir(d) if f.endswith(".ih5")), key=lambda n: (len(n), n))
        cnames = [c[0] for c in committed]
        tags.add("kill:committed=%d" % min(len(cnames), 3))
        for name, h in committed:
            q = os.path.join(d, name)
            if not os.path.isfile(q) or cc.sha(open(q, "rb").read()) != h:
                oracle.append(dict(kind="committed-file-changed", at="sigkill", file=name, cls=clsname))

        def open_set(names, name_dir=None):
            """name_dir: a directory that holds exactly these containers; the record is opened there by its name"""
            paths = [os.path.join(d, n) for n in names]
            if name_dir is None:
                ml.cfg(clsname == "mf")
                for q in paths:
                    ml.file(q, q + "mf.json")
                ml.open()
                sel.append(len(ml.lines) - 1)
                rec, res, ek = cc.open_real(cls, paths)
            else:
                sel.append(sel[-1])  # (the model's answer for the file list, opened just before)
                try:
                    rec, res, ek = cls(os.path.join(name_dir, "rec"), "r"), "ok", ""
                except Exception as e:  # noqa: BLE001
                    rec, res, ek = None, "err", cc.err_kind(e)
            info = dict(res=res, kind=ek)
            if rec is not None:
                if name_dir is None:
                    out.append(cc.order_line(rec, paths))
                else:
                    got = [os.path.basename(str(q)) for q in rec.ih5_files]
                    out.append(" ".join(["ok"] + [str(names.index(g)) if g in names else "?" for g in got]))
                meta = rec.ih5_meta
                info["hashes"] = [m.hdf5_hashsum is not None for m in meta]
                try:
                    info["dump"] = cc.dump(rec)
                except Exception as e:  # noqa: BLE001
                    info["dump"] = "!unreadable"
                rec.close()
            else:
                out.append("err")
                _close_leaked()
            return info

        own = os.path.join(root, "own")  # the committed containers (and their manifests) on their own
        os.makedirs(own)
        for n in cnames:
            for f in (n, n + "mf.json"):
                if os.path.isfile(os.path.join(d, f)):
                    os.link(os.path.join(d, f), os.path.join(own, f))
        for nd in ((None, own) if cnames else ()):
            via = dict(opened_by="record name") if nd else {}
            info = open_set(cnames, nd)
            if info["res"] != "ok":
                oracle.append(dict(kind="committed-set-does-not-open", at="sigkill", error=info["kind"], cls=clsname, **via))
            elif info["dump"] != dumps.get(cnames[-1]):
                oracle.append(dict(kind="committed-set-shows-other-state", at="sigkill", cls=clsname, ncommitted=len(cnames), **via))
        if len(cnames) >= 11:
            tags.add("kill:committed>=11")
        for nd in ((None, d) if present else ()):
            via = dict(opened_by="record name") if nd else {}
            info = open_set(present, nd)
            tags.add("kill:all:" + info["res"])
            if info["res"] == "ok":
                if not info["hashes"][-1]:
                    tags.add("kill:opens-with-uncommitted-newest")
                else:
                    # every container committed: must be the state logged for the newest container
                    if info["dump"] != dumps.get(present[-1]) or len(present) > len(cnames) + 1:
                        oracle.append(dict(kind="opens-cleanly-with-unwritten-state", at="sigkill", present=present, committed=cnames, cls=clsname, **via))
                    if len(present) == len(cnames) + 1:
                        tags.add("kill:commit-completed-before-journal")
            extra = [f for f in present if f not in cnames]
            tags.add("kill:extra=%d" % len(extra))
    finally:
        shutil.rmtree(root, ignore_errors=True)
    return dict(out=out, mlines=ml.lines, sel=sel, oracle=oracle, tags=sorted(tags), diag={"kills": 1})


def impl(case):
    if case["kind"] == "kill":
        return impl_kill(case)
    return _Run(case).run()


# ----------------------------------------------------------------------------- comparison / generators
def compare(case, ir, mo):
    for i, (a, si) in enumerate(zip(ir["out"], ir["sel"])):
        m = mo[si]
        mm = m if m.startswith(("ok", "runs", "w ")) else "err"
        if a != mm:
            return "observation %d: impl=%r model=%r" % (i, a, m)
    return None


NAMES = ["rec", "r", "R-2", "x-p1", "0", "p1", "rec-", "ih5"]  # record names (letters, digits, '-')


def gen_cases(ctx):
    rng = ctx.rng
    cases = []
    nh = 36 if ctx.quick else 400
    for i in range(nh):
        cases.append(dict(kind="snap", cls=["ih5", "mf"][i % 2], seed=rng.randrange(1 << 30), steps=rng.randrange(8, 18),
                          torn="sample" if ctx.quick else ("all" if i % 4 == 0 else "sample"),
                          v=2, profile="recover" if i % 3 == 2 else "base"))
        if i % 4 == 3:
            cases[-1]["name"] = NAMES[cases[-1]["seed"] % len(NAMES)]
    # long patch chains (>= 11 committed containers: patch indices with two digits), tiny payloads; with restarts (close or
    # crash image, then a writable open, mostly by record name) all along the chain
    rl = random.Random(rng.randrange(1 << 30))  # (own stream: the histories above stay what they were)
    for i in range(6 if ctx.quick else 48):
        cases.append(dict(kind="snap", cls=["ih5", "mf"][i % 2], seed=rl.randrange(1 << 30), steps=rl.randrange(40, 52),
                          torn="none" if (ctx.quick or i % 4) else "sample", v=3, profile="long", thin=True,
                          name=NAMES[rl.randrange(len(NAMES))] if i % 3 == 2 else "rec"))
    if not ctx.quick:
        for i in range(240):
            cases.append(dict(kind="kill", cls=["ih5", "mf"][i % 2], seed=rng.randrange(1 << 30), delay=rng.random() ** 2 * 0.6))
    return cases


def run(ctx):
    ctx.rule = ("(snap) random patching history on a real record; directory copied after every API call and around the file-system steps "
                "inside create/commit; every copy opened as 'committed files only' and 'all files', by file list and by record name (committed "
                "containers in a directory of their own), state compared with the one recorded at the last commit; long chains (>= 11 committed "
                "containers, tiny payloads, restarts along the chain) in every tier; close/reopen steps close without commit or continue "
                "in a crash image, then re-open in every writable mode ('r+', 'a') and constructor form (name, file list, shuffled list), with "
                "writable opens of a strict prefix of the file list in between (what the open does is compared with the model openW). "
                "(torn) every save(): all 1025 cuts "
                "after[:k]+before[k:] classified by the real IH5UserBlock.load and by the model; distinct torn blocks opened inside the file set. "
                "(kill, thorough) writer subprocess killed with SIGKILL after a random delay (up to ~30 commits), directory opened by list and by name. Non-trivial = tagged by API call x view x outcome, "
                "torn classification alphabet, kill outcome.")
    ctx.assumptions += [
        "an in-place write that is interrupted leaves a prefix of the new bytes followed by the old bytes (torn k old new = new.take k ++ old.drop k)",
        "a write to one file does not alter another file; open(..., 'x') fails on existing names",
        "what HDF5 leaves in an uncommitted payload when interrupted is arbitrary (the theorems quantify over all payloads)",
        "SHA-256 of the payload is what commit stores (H); no collision assumption is needed for C11",
        "histories live below /dev/shm (tmpfs) when it is writable, every 16th short history below the default temp dir; SIGKILL runs always below the default temp dir",
    ]
    ctx.exhaustive_spaces.append("every cut k in [0,1024] of every user-block write of every generated history (block level, real parser vs model)")
    # (the corpus first, then the long chains: the most expensive cases, started first so that the workers finish together)
    cases = core.load_corpus(ID) + sorted(gen_cases(ctx), key=lambda c: c.get("profile") != "long")
    snap = [c for c in cases if c["kind"] != "kill"]
    kill = [c for c in cases if c["kind"] == "kill"]
    cc.correspond2(ctx, "crash-states", MOD, snap, compare=compare, timeout=900 if not ctx.quick else 150)
    if kill:
        cc.correspond2(ctx, "sigkill", MOD, kill, compare=compare, timeout=300)
    ctx.steps = sum(g.get("steps", 0) for g in ctx.groups.values())


def signature(case, detail):
    if isinstance(detail, dict):
        parts = str(detail.get("at", "")).split("#")[0].split("/")
        # file-system step inside the call for the classic ops; the call itself for prefix opens / recoveries
        at = parts[0] if parts[0].startswith(("prefix-open", "recover", "reopen")) else parts[-1]
        return "%s:%s:%s" % (ID, detail.get("kind"), at)
    return "%s:%s" % (ID, str(detail)[:40])


def shrink(ctx, case, detail):
    if case.get("kind") != "snap" or not isinstance(detail, dict):
        return case, detail
    want = detail.get("kind")

    def first(cands):
        """the first candidate on which the oracle reports a hit of the wanted kind"""
        res = pool.run(MOD, "impl", cands, timeout=300, workers=min(4, len(cands)))
        for c, r in zip(cands, res):
            if "ok" in r:
                ds = [d for d in r["ok"]["oracle"] if d.get("kind") == want]
                if ds:
                    return c, ds[0]
        return None

    n = case.get("steps", 14)
    st = detail.get("step")
    cands = []
    if isinstance(st, int) and 0 <= st <= n:
        # the history is a function of the seed (and of `torn`, which draws from the same stream):
        # cutting it after the step of the hit keeps the hit
        cands.append(dict(case, steps=st))
        got = first(cands)
        if got:
            return got
    got = first([dict(case, steps=k) for k in range(1, n)])
    return got or (case, detail)


def search(ctx):
    for s in range(1, 3):
        sub = core.Ctx(ID, "quick", ctx.seed + 7919 * s)
        cases = [dict(c, torn="all") for c in gen_cases(sub)]
        res = pool.run(MOD, "impl", cases, timeout=600)
        ctx.search_log.append("seed %d: %d histories, all torn blocks opened at record level, oracle only" % (sub.seed, len(cases)))
        for c, r in zip(cases, res):
            if "ok" in r and r["ok"]["oracle"]:
                return shrink(ctx, c, r["ok"]["oracle"][0])
    return None


def replay(ctx, rep):
    case = rep.get("case")
    if not case:
        print(core.canon(rep)[:3000])
        return 0
    r = pool.run_one(MOD, "impl", case, timeout=900)
    if "ok" not in r:
        print("implementation:", core.canon(r)[:2000])
        return 2
    ir = r["ok"]
    mo = lean.run_driver("drv_chn", [ir["mlines"]])[0]
    print("observations: %d, first disagreement: %s" % (len(ir["out"]), compare(case, ir, mo)))
    print("oracle:", core.canon(ir["oracle"])[:3000])
    return 1 if ir["oracle"] else 0
