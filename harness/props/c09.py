"""C09 — containers behave identically on plain HDF5 and on IH5 records.

Property: the same sequence of container operations applied through the plain-HDF5 driver and
through the IH5 driver succeeds or fails at the same steps and leaves the same user-visible
data, attributes, metadata objects and query results — regardless of where IH5 patch
boundaries or reopen points fall.

A case is ONE base history (no boundary ops) plus K *variants* of it:

    dict(base=[op...], obs=[[item...] per base op], final=[item...], insts=[...],
         variants=[dict(driver="h5"|"ih5"|"mf", ins=[[pos, "patch"|"reopen"], ...]), ...])

`ins` lists the boundary ops inserted before base op `pos` (`pos = len(base)`: after the last
op), in order. Variant 0 is always the plain `h5py.File` without insertions (the reference).
Base ops are those of `ctr_common` (grp, ds, mset, mdel, mseq, del, copy, move) plus attribute
ops on user nodes through the wrapper (`sattr path key val`, `dattr path key`) and the read-only
probes `has path` (`path in group`) and `get path` (`group.get(path)`: none / group / dataset).

Paths in base ops are always absolute (the model is path-based). HOW an op is issued on the real
code is described by the optional parallel list `call` (one entry per base op, `None` = on the
container root with absolute paths, the only shape upstream's tests use):

    dict(at=<group path>,            the op is called on the wrapper `mc[at]` ("/": the container)
         rel=[bool per path of the op],  the path is passed RELATIVE to `at` (only if it lies below)
         how="require" | "create_dataset" | "get",   create_group -> require_group; `g[p] = v` ->
                                     create_dataset(p, data=v) / require_dataset; node lookup
                                     `g[p]` -> `g.get(p)` (attribute / metadata ops, probes)
         dst="group")                copy: destination given as GROUP OBJECT (name inferred)

i.e. every data operation in the combinations root / non-root wrapper x absolute / relative source
and destination. If `at` is not an existing group when the op is due, the op is issued on the root
(same decision in every variant, it depends on the user-visible state only). For the model all
shapes are the same op on the resolved absolute path (`require_*`: driver lines `rgrp`/`rds` =
"the existing node, else create").

A second family of cases (`family="attribute-history"`, `gen_attr_case`): on a small tree the SAME
(node, attribute name) is set, overwritten, deleted and deleted-when-missing again and again (the node
now and then deleted + re-created, moved or copied), with one variant per single container boundary
position (every position of the history), one with a boundary after every op and random subsets
(thorough: all pairs of positions as well) - e.g. attribute created in an older container, overwritten
and deleted within one later container.

A third family (`family="relocate-history"`, `gen_relocate_case`): container-level copy (with / without metadata) and move between
the NEWEST container and the past. The history has MARKS; older material (datasets, groups, metadata, attributes; partly deleted
or replaced again) lies before a mark, each round starts with a mark right before new material is created, and the copies / moves
take mostly such a fresh node as SOURCE and a name with a PAST as DESTINATION: a node that exists only before the mark (must be
REFUSED as on h5py.File), a name deleted / vacated before or after the mark, the name of a replaced node, a name below either, a
name taken by another fresh node. The variants put their boundaries at the marks: all of them (patch; patch + reopen), a single one
(everything older in one container, the source in the next), random subsets and kinds.

Values: dataset values are plain strings (token `t<n>`) or TYPED values (`TYPED`: numpy scalars / small arrays whose
stored bytes lie around the byte 0x7f of the IH5 deletion marker - int8 / uint8 126, 127, 128, the 1-character byte strings
~ DEL \x80, booleans, wider integers / strings / opaque values that contain the byte; the marker np.void(b"\x7f") itself is
excluded: C17), given as `g[p] = <numpy scalar>`, `create_dataset(p, data=<numpy scalar>)` or `create_dataset(p, data=<python
value>, dtype=...)`; attribute values are those of `ctr_common.ATTR_VALS` plus the typed ones. Half of the container
histories get typed values (`add_typed_datasets`, `type_values`), half get TRANSIENTS (`add_transients`): the first object of
an otherwise unused schema attached and removed again, a child created and deleted again, within one or two ops.

Oracle (needs no model): every variant is run on the REAL code (MetadorContainer over
h5py.File / IH5Record / IH5MFRecord) in one worker; after every base op and at the end the
user-visible observation made through the public container API — ok/err outcome (exception
classes reduced to succeed/fail), data + attributes of every user node, attached metadata objects
as canonical JSON, get/query answers for the probe items of the step — must equal the
reference's. An inserted boundary op that raises is a difference as well. The observation includes values WITH their
type (numpy dtype), the sizes the dict-like interface reports (`len()` of every group - through the wrapper and of the
driver's group object `mc.__wrapped__[p]` -, of every attribute manager and of every `node.meta`) and the container-level
listings `mc.metador.schemas` / `.schemas.packages` (keys, len) with a container-wide `query` per listed schema.

Correspondence: every variant is also compared, step by step, with the Lean container model
(`drv_ctr`: status, canonical raw dump with uuids renamed by first appearance, get/query
observations), and the model outputs of all variants must agree at the base steps (the model
ignores `.patch`; `.reopen` only rebuilds caches) — the executable counterpart of
`boundaries_unobservable` / `reopen_unobservable_of_coherent` / `container_refines`.
"""
import json
import os
import shutil
import tempfile

from .. import core, lean
from . import ctr_common as C

ID = "C09"
MOD = "harness.props.c09"
T = "MetadorModel.C09."
LEAN = dict(
    # Props.C09 depends on the container model only; Props.C09Coherent discharges the coherence
    # hypothesis of part (b) with the C06 invariant (imports Proofs/ContainerCoherent.lean).
    modules=["MetadorModel.Props.C09", "MetadorModel.Props.C09Coherent"],
    theorems=[T + n for n in (
        "boundaries_unobservable",
        "reopen_unobservable_upto",
        "reopen_unobservable_of_coherent",
        "reopen_unobservable_of_coherent_on",
        "reopen_unobservable",
        "boundaries_and_reopens_unobservable",
        "literal_coherence_fails",
        "driver_refinement",
        "container_refines",
        "container_refines_queries",
        "container_refines_any_boundaries",
    )] + ["MetadorModel.Container.obsEq_congruent"],
    drivers=["drv_ctr"],
)

ATTR_OPS = ("sattr", "dattr")
PROBE_OPS = ("has", "get")
NOMODEL_OPS = ATTR_OPS + PROBE_OPS  # lock-step only (pass-through of the driver; not part of the container model)
SHAPED_OPS = ("grp", "ds", "del", "copy", "move", "mset", "mdel", "mseq") + NOMODEL_OPS
BOUNDARY = ("patch", "reopen")
# F33 (repaired in /repo by 8070d27, recorded in known_findings.json; the probe is always on): `group.get(path)` with a path that leads THROUGH A DATASET
# (`mc["/b/a"] = "x"; mc.get("/b/a/c")`) returns the default (None) on h5py.File, but raises ValueError("Cannot
# access path inside a value") on IH5Record / IH5MFRecord (`IH5InnerNode._node_seq`, overlay.py:324-326;
# `IH5InnerNode.get` only converts KeyError). Until it is settled such probes are answered "skipped" (decided on
# the user-visible state, the same in every variant), so that the check does not depend on whether a seed
# happens to generate one. True: probe them (corpus/C09/22-get-path-through-dataset.json is the witness;
# signature C09:outcome-differs:ih5:get).
PROBE_GET_THROUGH_DATASET = True
# F34 (third-party behaviour of HDF5 2.0.0 / h5py 3.16 `H5Ocopy`, avoided by the container since cbb3564 — raw copies
# are issued on the container root with absolute names; recorded in known_findings.json; always probed now):
# `group.copy(src, "/abs/dst")` called on a NON-ROOT group G with an ABSOLUTE destination is refused by h5py.File
# with "destination object already exists" when the unrelated node `G.name + "/abs/dst"` exists or that name leads
# through a dataset (the existence pre-check resolves the absolute name against G; the copy itself would go to
# /abs/dst); IH5 and the model accept. MetadorGroup.copy always passes the metadata directory of a dataset
# destination as absolute name to the raw copy on the same wrapper, so relative destinations are affected too.
# `mc["/a/d"] = 1; mc["/b/x"] = 2; mc["/a"].copy("/b", "/d")`. Until it is settled such a copy is issued on the
# root instead (decided on the user-visible state). True: issue it as generated (witness
# corpus/C09/23-h5py-copy-absolute-destination-on-subgroup.json; signature C09:outcome-differs:ih5:copy:accepted).
PROBE_H5_COPY_ABS_DEST_COLLISION = True
# F32 (repaired in /repo by aac4151, recorded in known_findings.json; always probed now):
# `MetadorGroup.copy(src, <group object>)` builds the destination path as `dest.name + "/" + name` (wrappers.py:486),
# i.e. "//name" when the destination group is the ROOT (`mc.copy(mc["/b"], mc["/"], name="q")`, `mc.copy("/b/x", mc)`).
# h5py tolerates the doubled slash; on IH5 the raw copy is made (node /q appears) and then `self["//q"]` raises
# KeyError: the call fails after its effect, copied metadata is not registered. Until it is settled the group-object
# form is not used for the root (the path form is used instead). True: use it (witness
# corpus/C09/24-copy-into-root-group-object.json; signature C09:outcome-differs:ih5:copy:refused:dest-group-object).
PROBE_COPY_INTO_ROOT_GROUP_OBJECT = True
IH5 = ("ih5", "mf")

# Typed values of datasets and attributes: numpy scalars whose stored representation is ONE or TWO bytes around the byte
# 0x7f of the IH5 deletion marker np.void(b"\x7f") (int8 / uint8 126, 127, 128; the 1-character byte strings ~, DEL, \x80;
# booleans; the marker's byte inside wider values), plus opaque values next to the marker. The marker itself is excluded
# (IH5 refuses it by design: C17). A token is `<K>.<dtype>.<value>`: N = integer / boolean numpy scalar, S = np.bytes_
# (fixed-length string S<n>), V = np.void, A = 1-d array. As dataset value (`["ds", path, token]`) the model sees the token
# as the opaque content of the dataset; as attribute value (`["sattr", path, key, token]`) it is lock-step only.
TYPED_NEAR = ["N.int8.127", "N.uint8.127", "S.7f", "N.int8.126", "N.uint8.126", "N.uint8.128", "N.int8.-128", "S.7e", "S.80"]
TYPED_MORE = ["N.bool.1", "N.bool.0", "N.uint8.255", "N.int16.127", "N.uint16.32639", "N.int64.127", "S.7f7f", "S.417f", "V.7e", "V.80",
              "V.7f7f", "V.007f", "A.uint8.127", "A.int8.127,127"]
TYPED = TYPED_NEAR + TYPED_MORE
DS_HOWS = ("create_dataset", "create_dataset_dtype", "require")  # besides the plain `g[p] = v`


def is_typed(tok):
    return isinstance(tok, str) and len(tok) > 2 and tok[1] == "." and tok[0] in "NSVA"


def typed_value(tok):
    """the numpy value a token stands for"""
    import numpy as np

    k, _, r = tok.partition(".")
    if k == "S":
        return np.bytes_(bytes.fromhex(r))
    if k == "V":
        return np.void(bytes.fromhex(r))
    dt, _, v = r.partition(".")
    if k == "A":
        return np.array([int(x) for x in v.split(",")], dtype=dt)
    return np.dtype(dt).type(int(v))


def typed_plain(tok):
    """(python value, dtype) for `create_dataset(name, data=<python value>, dtype=<dtype>)`; None: no such form"""
    k, _, r = tok.partition(".")
    if k == "S":
        b = bytes.fromhex(r)
        return b, "S%d" % len(b)
    if k == "N":
        dt, _, v = r.partition(".")
        return (bool(int(v)) if dt == "bool" else int(v)), dt
    return None


def enc9(v):
    """canonical string of a value read from a dataset / attribute, WITH its type (the type of a stored value is
    user-visible data); numpy scalars come out as their token"""
    import numpy as np

    if isinstance(v, np.void):
        return "V." + v.tobytes().hex()
    if isinstance(v, np.bytes_):
        return "S." + bytes(v).hex()
    if isinstance(v, (np.bool_, np.integer)):
        return "N.%s.%d" % (v.dtype.name, int(v))
    if isinstance(v, np.ndarray) and v.dtype.kind in "iub":
        return "A.%s.%s%s" % (v.dtype.name, ",".join(str(int(x)) for x in v.reshape(-1)), "" if v.ndim == 1 else ":" + "x".join(map(str, v.shape)))
    from .h5util import enc_val

    return enc_val(v)


def dec9(s):
    """value to store for a tagged string of `ctr_common.ATTR_VALS` or a typed token"""
    if is_typed(s):
        return typed_value(s)
    from .h5util import dec_val

    return dec_val(s)


# --------------------------------------------------------------------------- case structure
def expand(case, var):
    """[(op, base index | None)] of a variant: base ops with the inserted boundary ops."""
    base = case["base"]
    by_pos = {}
    for pos, kind in var.get("ins", []):
        by_pos.setdefault(min(max(int(pos), 0), len(base)), []).append([kind])
    seq = []
    for i, op in enumerate(base):
        for b in by_pos.get(i, []):
            seq.append((b, None))
        seq.append((op, i))
    for b in by_pos.get(len(base), []):
        seq.append((b, None))
    return seq


def var_name(var):
    kinds = [k for _, k in var.get("ins", [])]
    return "%s[%dp,%dr]" % (var["driver"], kinds.count("patch"), kinds.count("reopen"))


def op_paths(op):
    if op[0] in ("copy", "move"):
        return [op[1], op[2]]
    return [op[1]] if len(op) > 1 else []


def related(a, b):
    """two paths lie on one branch (one is a prefix of the other)"""
    a, b = a.rstrip("/"), b.rstrip("/")
    return a == b or a.startswith(b + "/") or b.startswith(a + "/") or a == "" or b == ""


def dependent(op1, op2):
    return any(related(p, q) for p in op_paths(op1) for q in op_paths(op2))


def call_of(case, bi):
    cl = case.get("call")
    return cl[bi] if cl and bi is not None and bi < len(cl) else None


def below(p, q):
    """p lies strictly below the group path q"""
    return p != q and (q == "/" or p.startswith(q.rstrip("/") + "/"))


def call_arg(path, at, rel):
    """the path argument as it is passed to a method of the wrapper of `at`"""
    if rel and below(path, at):
        return path[len(at.rstrip("/")) + 1:]
    return path


def call_name(op, call):
    """short description of a call shape (tags / replay)"""
    if not call:
        return "root:abs"
    rel = list(call.get("rel") or [])
    ps = op_paths(op)[:2]
    at = call.get("at", "/")
    parts = ["root" if at == "/" else "nonroot"]
    for i, p in enumerate(ps):
        parts.append("rel" if i < len(rel) and rel[i] and below(p, at) else "abs")
    for k in ("how", "dst"):
        if call.get(k):
            parts.append(str(call[k]))
    return ":".join(parts)


# --------------------------------------------------------------------------- real code
def _canon_json(obj):
    return json.dumps(json.loads(obj.json()), sort_keys=True, separators=(",", ":"))


def _coarse(st):
    """succeed / fail only (exception classes differ legitimately between drivers); results of
    `get` on a kept handle (some/none) are user-visible data and stay."""
    return "+".join("err" if x.startswith("err") else x for x in st.split("+"))


def _coarse_obs(x):
    k, _, v = x.partition("=")
    return k + "=err" if v.startswith("err") else x


class _Run9(C._Run):
    """One variant on the real code."""

    def __init__(self, case, var, tmp):
        super().__init__(dict(driver=var["driver"], ops=[], insts=case["insts"]), tmp)
        self.c9 = case
        self.var = var
        self.seq = expand(case, var)
        self.out = []       # lines comparable with the model driver (4 per non-attribute op)
        self.steps = []     # user-visible observation after every base op
        self.final = None
        self.failed_boundary = None
        # bookkeeping for non-triviality tags (IH5 only): container index in which things were made
        self.cont = 0
        self.born = {"/": 0}
        self.deleted_in = {}
        self.attr_born = {}
        self.meta_born = {}
        self.copied = {}
        self.dead_born = {}  # path named by a successful delete / move -> container in which the node had been made

    # ------------------------------------------------------------------ user-visible view (public API only)
    def user_view(self, queries=True):
        mc = self.mc
        raw = self.raw()

        def tryf(f):
            try:
                return f()
            except Exception as e:  # noqa: BLE001
                return "err:" + type(e).__name__

        def attrs(n):
            try:
                a = n.attrs
                ks = sorted(a.keys())
                return {k: enc9(a[k]) for k in ks}, [tryf(lambda: len(a)), tryf(lambda: [k for k in ks if k not in a])]
            except Exception as e:  # noqa: BLE001
                return {"!": "err:" + type(e).__name__}, None

        def meta(n):
            try:
                m = n.meta
                return {name: _canon_json(m.get(name)) for name in sorted(m.keys())}, tryf(lambda: len(m))
            except Exception as e:  # noqa: BLE001
                return {"!": "err:" + type(e).__name__}, None

        root = mc["/"]
        data = {"/": "g"}
        at, md, lens = {}, {}, {}

        # sizes as the dict-like interface reports them: len() of the attribute manager and of the metadata
        # interface of every node, len() of every group (through the wrapper and of the driver's own group object)
        def node_view(p, node):
            at[p], la = attrs(node)
            md[p], lm = meta(node)
            lens[p] = dict(attrs=la, meta=lm)

        node_view("/", root)

        def visit(name, node):
            p = "/" + name.strip("/")
            if hasattr(node, "keys"):
                data[p] = "g"
            else:
                try:
                    data[p] = "d:" + enc9(node[()])
                except Exception as e:  # noqa: BLE001
                    data[p] = "d:err:" + type(e).__name__
            node_view(p, node)

        mc.visititems(visit)
        listing = {}
        for p, k in data.items():
            if k == "g":
                try:
                    g = mc[p]
                    ks = sorted(g.keys())
                    listing[p] = ks
                    lens[p].update(group=len(g), driver=tryf(lambda: len(raw[p])),
                                   listed_not_in=tryf(lambda: [x for x in ks if x not in g]))  # keys() and `in` agree: []
                except Exception as e:  # noqa: BLE001
                    listing[p] = "err:" + type(e).__name__
        return dict(data=data, attrs=at, meta=md, listing=listing, lens=lens, toc=self.toc_view(queries))

    def toc_view(self, queries=True):
        """container-level listings of the public `mc.metador` interface: schemas in use, the packages providing
        them, their sizes, and for every listed schema the nodes a container-wide query for it returns"""
        def tryf(f):
            try:
                return f()
            except Exception as e:  # noqa: BLE001
                return "err:" + type(e).__name__

        S = self.mc.metador.schemas
        o = {}
        o["schemas"] = tryf(lambda: sorted(C.ep(r.name, r.version) for r in S.keys()))
        o["schemas-len"] = tryf(lambda: len(S))
        o["packages"] = tryf(lambda: sorted("%s:%s" % (C.ep(str(k[0]), k[1]), ",".join(sorted(C.ep(r.name, r.version) for r in v.plugins.get("schema", []))))
                                            for k, v in S.packages.items()))
        o["packages-len"] = tryf(lambda: len(S.packages))
        if queries and isinstance(o["schemas"], list):
            refs = tryf(lambda: sorted(S.keys(), key=lambda r: (r.name, tuple(r.version))))
            if isinstance(refs, list):
                o["query"] = {C.ep(r.name, r.version): tryf(lambda r=r: sorted(n.name for n in self.mc.metador.query(r.name, tuple(r.version)))) for r in refs}
        return o

    def raw_entries(self):
        """as `ctr_common._Run.raw_entries`; values that are no strings are remembered as their typed token"""
        out = []
        self.typed = {}

        def v(name, node):
            p = "/" + name
            if self.is_ds(node):
                val = node[()]
                if not isinstance(val, (bytes, str)) or hasattr(val, "dtype"):
                    self.typed[p] = enc9(val)
                if hasattr(val, "tobytes") and not isinstance(val, (bytes, str)):
                    val = val.tobytes()
                if isinstance(val, str):
                    val = val.encode()
                out.append((p, "d", bytes(val)))
            else:
                out.append((p, "g", None))

        self.raw().visititems(v)
        out.sort(key=lambda e: e[0].split("/"))
        return out

    def dump(self, entries):
        res = super().dump(entries)
        typed = getattr(self, "typed", {})
        return [[p, "d:" + typed[p]] if c.startswith("d:") and p in typed else [p, c] for p, c in res]

    def light_objs(self, entries):
        objs = {}
        for p, k, v in entries:
            segs = p.split("/")[1:]
            if segs[0] == "metador_container" or k != "d" or len(segs) < 2:
                continue
            if segs[-2].startswith("metador_meta_") and "=" in segs[-1]:
                e, u = segs[-1].split("=", 1)
                objs[p] = (e, u)
        return objs

    def user_obs(self, items, obs, att):
        """get/query answers as compared between variants: failures as `err`; `get` through a
        parent schema when SEVERAL child-schema instances are attached returns an unspecified one
        of them (iteration order of a `set`, documented as unspecified; it changes with the
        insertion history, e.g. after reopen) — the answer is replaced by the candidate set
        (that the object returned is one of them is checked by `run_obs`)."""
        out = []
        for (kind, n, name, ver), x in zip(items, obs):
            if kind == "g" and x.startswith("g=obj:"):
                cands = [(e, u, op) for e, u, op in att.get(n, []) if self.spec_match(e, name, ver)]
                exact = [c for c in cands if self.ref_of(c[0])[0] == name]
                if not exact and len(cands) > 1:
                    ids = sorted("%s@%s" % (e, self.by_bytes.get(bytes(self.raw()[op][()]), "?")) for e, u, op in cands)
                    x = "g=any-of:" + "/".join(ids)
                    self.tags.add("get-parent-view-ambiguous")
            out.append(_coarse_obs(x))
        return out

    # ------------------------------------------------------------------ ops in a call shape
    def wrapper(self, call):
        """(group wrapper the op is called on, its path); the root when `at` is no group now"""
        at = call.get("at") or "/"
        if at == "/":
            return self.mc, "/"
        try:
            g = self.mc[at]
        except Exception:  # noqa: BLE001
            g = None
        if g is None or not hasattr(g, "keys"):
            self.tags.add("call-shape-fallback-to-root")
            return self.mc, "/"
        return g, at

    def h5_copy_clash(self, at, dest, dest_is_absolute):
        """an ABSOLUTE name that the raw copy on the wrapper of `at` receives (the destination if passed absolute;
        the metadata directory of a dataset destination, always absolute), read as a name RELATIVE to `at`, exists
        or leads through a dataset"""
        par, leaf = dest.rsplit("/", 1)
        raw = self.raw()
        for x in ([dest] if dest_is_absolute else []) + [par + "/metador_meta_" + leaf]:
            if at + x == dest or below(at + x, dest):
                return True  # leads into the copy that is being made
            segs = (at + x).split("/")[1:]
            for i in range(1, len(segs) + 1):
                try:
                    n = raw.get("/" + "/".join(segs[:i]))
                except Exception:  # noqa: BLE001
                    return True
                if n is None:
                    break
                if i == len(segs) or not hasattr(n, "keys"):
                    return True
        return False

    def through_dataset(self, path):
        """a proper prefix of `path` is a dataset now"""
        segs = path.split("/")[1:]
        for i in range(1, len(segs)):
            try:
                n = self.mc.get("/" + "/".join(segs[:i]))
            except Exception:  # noqa: BLE001
                return False
            if n is None:
                return False
            if not hasattr(n, "keys"):
                return True
        return False

    def do_op(self, op, k):
        bi = self.seq[k][1] if k < len(self.seq) else None
        call = call_of(self.c9, bi)
        o = op[0]
        if o not in SHAPED_OPS or (not call and o not in PROBE_OPS + ("ds", "sattr")):
            return super().do_op(op, k)
        call = call or {}
        g, at = self.wrapper(call)
        rel = list(call.get("rel") or [])
        how = call.get("how")

        def A(i, p):
            return call_arg(p, at, i < len(rel) and rel[i])

        self.tags.add("call:%s:%s" % (o, call_name(op, dict(call, at=at))))
        T = C._tree
        if o == "grp":
            name = A(0, op[1])
            return T(self.status(lambda: (g.require_group if how == "require" else g.create_group)(name)))
        if o == "ds":
            name = A(0, op[1])
            if is_typed(op[2]):
                val, pl = typed_value(op[2]), typed_plain(op[2])
                self.tags.add("typed-dataset-value")
                if op[2] in TYPED_NEAR[:3]:
                    self.tags.add("dataset-value-stored-as-the-single-byte-0x7f")
                if how == "create_dataset":
                    return T(self.status(lambda: g.create_dataset(name, data=val)))
                if how == "create_dataset_dtype" and pl:
                    self.tags.add("typed-dataset-value-via-create_dataset-dtype")
                    return T(self.status(lambda: g.create_dataset(name, data=pl[0], dtype=pl[1])))
                if how == "require" and pl:
                    return T(self.status(lambda: g.require_dataset(name, shape=(), dtype=pl[1], data=pl[0])))
                return T(self.status(lambda: g.__setitem__(name, val)))
            if how in ("create_dataset", "create_dataset_dtype"):
                return T(self.status(lambda: g.create_dataset(name, data=op[2])))
            if how == "require":
                return T(self.status(lambda: g.require_dataset(name, shape=(), dtype=self.h5py.string_dtype(), data=op[2])))
            return T(self.status(lambda: g.__setitem__(name, op[2])))
        if o == "del":
            return T(self.status(lambda: g.__delitem__(A(0, op[1]))))
        if o == "move":
            return T(self.status(lambda: g.move(A(0, op[1]), A(1, op[2]))))
        if o == "copy":
            kw = {"without_meta": True} if op[3] else {}
            src, dst = A(0, op[1]), A(1, op[2])

            if at != "/" and not PROBE_H5_COPY_ABS_DEST_COLLISION and self.h5_copy_clash(at, op[2], dst.startswith("/")):
                self.tags.add("h5py-copy-absolute-destination-collision-avoided")
                g, src, dst = self.mc, op[1], op[2]

            def do_copy():
                s_ = g[src] if len(op) > 4 and op[4] else src
                d_ = dst
                if call.get("dst") == "group":  # destination as group object, name inferred from the source
                    par, leaf = op[2].rsplit("/", 1)
                    if leaf == op[1].rsplit("/", 1)[1] and (par or PROBE_COPY_INTO_ROOT_GROUP_OBJECT):
                        try:
                            pg = self.mc[par or "/"]
                        except Exception:  # noqa: BLE001
                            pg = None
                        if pg is not None and hasattr(pg, "keys"):
                            d_ = pg
                            self.tags.add("call:copy:dest-group-object")
                g.copy(s_, d_, **kw)

            return T(self.status(do_copy))

        def lookup(p):
            name = A(0, p)
            if how == "get":
                n = g.get(name)
                if n is None:
                    raise KeyError(name)
                return n
            return g[name]

        if o in ("mset", "mdel", "mseq"):
            try:
                node = lookup(op[1])
            except Exception:  # noqa: BLE001
                return "err"
            m = node.meta
            subs = op[2] if o == "mseq" else [["set"] + op[2:]] if o == "mset" else [["del", op[2]]]
            return "+".join(self.meta_sub(m, node, s_, k) for s_ in subs)
        if o == "sattr":
            if is_typed(op[3]):
                self.tags.add("typed-attribute-value")
                if op[3] in TYPED_NEAR[:3]:
                    self.tags.add("attribute-value-stored-as-the-single-byte-0x7f")
            return T(self.status(lambda: lookup(op[1]).attrs.__setitem__(op[2], dec9(op[3]))))
        if o == "dattr":
            return T(self.status(lambda: lookup(op[1]).attrs.__delitem__(op[2])))
        if o == "has":
            try:
                return "ok:in=%s" % ("T" if A(0, op[1]) in g else "F")
            except Exception as e:  # noqa: BLE001
                return "err:" + type(e).__name__
        if o == "get":
            if not PROBE_GET_THROUGH_DATASET and self.through_dataset(op[1]):
                self.tags.add("get-path-through-dataset-skipped")
                return "ok:get=skipped"
            try:
                n = g.get(A(0, op[1]))
                return "ok:get=%s" % ("none" if n is None else "g" if hasattr(n, "keys") else "d")
            except Exception as e:  # noqa: BLE001
                return "err:" + type(e).__name__
        raise ValueError("unknown op %r" % (op,))

    # ------------------------------------------------------------------ tags
    def born_of(self, p):
        while True:
            if p in self.born:
                return self.born[p]
            if p in ("", "/"):
                return 0
            p = p.rsplit("/", 1)[0] or "/"

    def forget_under(self, p):
        for d in (self.born, self.copied):
            for q in [q for q in d if q == p or q.startswith(p.rstrip("/") + "/")]:
                d.pop(q, None)
        for d in (self.attr_born, self.meta_born):
            for q in [q for q in d if q[0] == p or q[0].startswith(p.rstrip("/") + "/")]:
                d.pop(q, None)

    def note_tags(self, k, op, bi, st, prev, att_before):
        T = self.tags.add
        ih5 = self.var["driver"] in IH5
        if bi is None:
            if op[0] == "reopen":
                if prev is not None and prev[1] is not None and prev[2] != "ok" and "err" in prev[2]:
                    T("reopen-after-failed-op")
                if prev is not None and prev[0][0] == "patch":
                    T("reopen-directly-after-patch")
                if att_before:
                    T("reopen-with-metadata")
            if op[0] == "patch" and ih5:
                if att_before:
                    T("patch-boundary-with-metadata")
                nxt = self.seq[k + 1] if k + 1 < len(self.seq) else None
                if prev is not None and prev[1] is not None and nxt is not None and nxt[1] is not None and dependent(prev[0], nxt[0]):
                    T("boundary-between-dependent-ops")
                    if prev[0][0] in ("grp", "ds") and nxt[0][0] in ("mset", "mseq"):
                        T("boundary-between-create-and-attach")
                    if prev[0][0] == "copy" and nxt[0][0] == "move":
                        T("boundary-between-copy-and-move")
            if ih5:
                self.cont += 1
            return
        ok = st == "ok" or st.startswith("ok")
        o = op[0]
        if not ih5:
            return
        c = self.cont
        if o in ("copy", "move") and c > 0 and self.born_of(op[1]) == c:
            # the source was made in the newest container; what is the history of the destination name?
            dst = op[2]
            seen = self.steps[-1]["data"] if self.steps else {"/": "g"}
            res = o if ok else "refused-" + o
            if dst in seen and not ok and self.born_of(dst) < c:
                T("refused-%s-of-node-of-newest-container-onto-node-of-older-container" % o)
            elif dst in seen and not ok:
                T("refused-%s-of-node-of-newest-container-onto-node-of-newest-container" % o)
            elif dst not in seen and dst in self.deleted_in and self.dead_born.get(dst, c) < c:
                T("%s-of-node-of-newest-container-onto-name-of-older-node-deleted-%s" % (res, "in-older-container" if self.deleted_in[dst] < c else "in-newest-container"))
            elif dst not in seen and any(below(dst, q) and self.dead_born.get(q, c) < c for q in self.deleted_in):
                T("%s-of-node-of-newest-container-below-name-of-deleted-older-node" % res)
        if o in ("grp", "ds") and st == "ok" and (call_of(self.c9, bi) or {}).get("how") == "require" and op[1] in self.born:
            T("require-of-existing-node")
        elif o in ("grp", "ds") and st == "ok":
            p = op[1]
            if p in self.deleted_in and self.deleted_in[p] < c:
                T("delete-then-recreate-across-boundary")
            self.born[p] = c
        elif o == "del" and st == "ok":
            p = op[1]
            if c > 0 and self.born_of(p) == c and self.born_of(p.rsplit("/", 1)[0] or "/") == c and p.count("/") > 1:
                T("child-created-and-deleted-within-one-later-container-group-from-it-too")
            if self.born_of(p) < c:
                T("delete-of-node-from-older-container")
                if any(h == p or h.startswith(p.rstrip("/") + "/") for h in att_before):
                    T("delete-with-metadata-across-boundary")
            self.dead_born[p] = self.born_of(p)
            self.forget_under(p)
            self.deleted_in[p] = c
        elif o in ("copy", "move") and st == "ok":
            src, dst = op[1], op[2]
            sub = [h for h in att_before if h == src or h.startswith(src.rstrip("/") + "/")]
            if self.born_of(src) < c:
                T(o + "-across-boundary")
                if sub:
                    T(o + "-of-subtree-with-metadata-across-boundary")
                if any(q[0] == src or q[0].startswith(src.rstrip("/") + "/") for q in self.attr_born):
                    T(o + "-of-node-with-attributes-across-boundary")
            if o == "move":
                if src in self.copied and self.copied[src] < c:
                    T("move-of-copy-across-boundary")
                self.dead_born[src] = self.born_of(src)
                self.forget_under(src)
                self.deleted_in[src] = c
            self.born[dst] = c
            if o == "copy":
                self.copied[dst] = c
        elif o == "mset" and st == "ok":
            if self.born_of(op[1]) < c:
                T("metadata-attached-to-node-of-older-container")
            self.meta_born[(op[1], op[2])] = c
        elif o == "mdel" and st == "ok":
            b = self.meta_born.pop((op[1], op[2]), None)
            if (b is not None and b < c) or (b is None and self.born_of(op[1]) < c):
                T("metadata-deleted-across-boundary")
            if b is not None and b == c and c > 0:
                T("metadata-attached-and-removed-within-one-later-container")
                if not any(q[1] == op[2] for q in self.meta_born):
                    T("last-object-of-schema-attached-and-removed-within-one-later-container")
        elif o == "sattr" and st == "ok":
            key = (op[1], op[2])
            if key in self.attr_born and self.attr_born[key] < c:
                T("attribute-overwritten-across-boundary")
            elif self.born_of(op[1]) < c:
                T("attribute-set-on-node-of-older-container")
            self.attr_born[key] = c
        elif o == "dattr" and st == "ok":
            b = self.attr_born.pop((op[1], op[2]), None)
            if b is not None and b < c:
                T("attribute-deleted-across-boundary")
        del ok

    # ------------------------------------------------------------------ main loop
    def run(self):
        case = self.c9
        obs_items = case.get("obs") or [[] for _ in case["base"]]
        prev = None
        att = {}
        for k, (op, bi) in enumerate(self.seq):
            if bi is None:
                try:
                    st = self.do_op(op, k)
                except Exception as e:  # noqa: BLE001  (a boundary op that fails IS a difference)
                    self.failed_boundary = dict(at=k, op=op, before_base_op=self.next_base(k), error=type(e).__name__, message=str(e)[:200])
                    return
            else:
                st = self.do_op(op, k)
            self.note_tags(k, op, bi, st, prev, att)
            entries = self.raw_entries()
            objs = self.light_objs(entries)
            att = self.attached(objs)
            raw_items = obs_items[bi] if bi is not None else []
            items = [(kk, n, name, tuple(ver) if ver else None) for kk, n, name, ver in raw_items]
            obs = self.run_obs(items, att, entries, k)
            if op[0] not in NOMODEL_OPS:
                self.out += [st, json.dumps(self.dump(entries), separators=(",", ":")), "{}", "|".join(obs)]
            if bi is not None:
                v = self.user_view(queries=op[0] in ("mset", "mdel", "mseq", "copy", "move", "del"))
                v["status"] = _coarse(st)
                v["obs"] = self.user_obs(items, obs, att)
                self.steps.append(v)
                self.tags.add("op:%s:%s" % (op[0], "ok" if st.startswith("ok") else "err"))
            prev = (op, bi, st)
        # final state: user view + a larger probe set
        entries = self.raw_entries()
        att = self.attached(self.light_objs(entries))
        items = [(kk, n, name, tuple(ver) if ver else None) for kk, n, name, ver in case.get("final") or []]
        v = self.user_view()
        v["status"] = "-"
        v["obs"] = self.user_obs(items, self.run_obs(items, att, entries, len(self.seq)), att)
        self.final = v

    def next_base(self, k):
        for op, bi in self.seq[k:]:
            if bi is not None:
                return bi
        return len(self.c9["base"])


def _first_diff(a, b):
    """(kind, detail) of the first difference between two user-visible observations"""
    if a["status"] != b["status"]:
        return "outcome-differs", dict(reference=a["status"], got=b["status"])
    for field, kind in (("data", "data-differs"), ("listing", "data-differs"), ("attrs", "attributes-differ"), ("meta", "metadata-objects-differ"),
                        ("lens", "sizes-differ"), ("toc", "toc-listings-differ")):
        if a.get(field) != b.get(field):
            x, y = a[field], b[field]
            ks = sorted(k for k in set(x) | set(y) if x.get(k) != y.get(k))[:3]
            return kind, dict(field=field, reference={k: x.get(k) for k in ks}, got={k: y.get(k) for k in ks})
    if a["obs"] != b["obs"]:
        j = [i for i, (u, v) in enumerate(zip(a["obs"], b["obs"])) if u != v]
        j = j[0] if j else min(len(a["obs"]), len(b["obs"]))
        return "query-results-differ", dict(index=j, reference=a["obs"][j:j + 1], got=b["obs"][j:j + 1])
    return None


def lockstep(case, runs):
    """Compare every variant with the reference (variant 0). One hit per variant at most."""
    hits = []
    ref = runs[0]
    if ref.failed_boundary:
        return [dict(prop=ID, kind="boundary-op-failed", variant=0, driver=ref.var["driver"], **ref.failed_boundary)]
    for vi, r in enumerate(runs[1:], 1):
        H = dict(prop=ID, variant=vi, driver=r.var["driver"], ins=r.var.get("ins", []))
        n = len(r.steps)
        d = None
        for i in range(n):
            d = _first_diff(ref.steps[i], r.steps[i])
            if d:
                hits.append(dict(H, kind=d[0], step=i, op=case["base"][i], call=call_name(case["base"][i], call_of(case, i)), **d[1]))
                break
        if d:
            continue
        if r.failed_boundary:
            hits.append(dict(H, kind="boundary-op-failed", **r.failed_boundary))
            continue
        d = _first_diff(ref.final, r.final)
        if d:
            hits.append(dict(H, kind="final-" + d[0], step=len(case["base"]), op=["end"], **d[1]))
    return hits


def impl(case):
    tmp = tempfile.mkdtemp(prefix="vt-c09-")
    runs = []
    try:
        for vi, var in enumerate(case["variants"]):
            d = os.path.join(tmp, "v%d" % vi)
            os.mkdir(d)
            r = _Run9(case, var, d)
            runs.append(r)
            try:
                r.run()
            finally:
                try:
                    r.mc.close()
                except Exception:  # noqa: BLE001
                    pass
        oracle = lockstep(case, runs)
        out, tags = [], set()
        for r in runs:
            out.append("ok")  # answers the `init` line
            out += r.out
            tags |= r.tags
            kinds = [k for _, k in r.var.get("ins", [])]
            if r.var["driver"] in IH5:
                tags.add("driver:" + r.var["driver"])
                if not kinds:
                    tags.add("ih5-without-boundaries")
                if kinds.count("patch") >= len(case["base"]) >= 2:
                    tags.add("patch-after-every-op")
                if r.cont >= 3:
                    tags.add("ih5-4-or-more-containers")
            elif "reopen" in kinds:
                tags.add("h5-with-reopen-points")
        return dict(out=out, oracle=oracle, tags=sorted(tags), nvar=len(runs))
    finally:
        shutil.rmtree(tmp, ignore_errors=True)


env_info = C.env_info


# --------------------------------------------------------------------------- generator
def gen_variants(rng, base, quick=True):
    n = len(base)

    def rand_ins(p_patch, p_reopen, combo=0.25):
        ins = []
        for pos in range(n + 1):
            r = rng.random()
            if r < p_patch:
                ins.append([pos, "patch"])
                if rng.random() < combo:
                    ins.append([pos, "reopen"])  # reopen directly after a patch boundary
            elif r < p_patch + p_reopen:
                ins.append([pos, "reopen"])
        return ins

    def targeted():
        ins = []
        for i in range(n - 1):
            if dependent(base[i], base[i + 1]) and rng.random() < 0.8:
                ins.append([i + 1, "patch"])
                if rng.random() < 0.25:
                    ins.append([i + 1, "reopen"])
        # boundary somewhere between a node's creation and a later op on it
        for j in range(2, n):
            prior = [i for i in range(j - 1) if dependent(base[i], base[j])]
            if prior and rng.random() < 0.3:
                ins.append([rng.randrange(prior[-1] + 1, j + 1), rng.choice(["patch", "patch", "reopen"])])
        ins.sort(key=lambda x: x[0])
        return ins

    every = [[pos, "patch"] for pos in range(1, n + 1)]
    every_reopen = [[pos, "reopen"] for pos in range(1, n + 1)]
    V = [dict(driver="h5", ins=[])]
    pool_ = [
        dict(driver="ih5", ins=[]),
        dict(driver="ih5", ins=every),
        dict(driver="ih5", ins=rand_ins(0.3, 0.15)),
        dict(driver="ih5", ins=targeted()),
        dict(driver="mf", ins=rand_ins(0.25, 0.12)),
        dict(driver="h5", ins=rand_ins(0.0, 0.3)),
        dict(driver="ih5", ins=every_reopen if rng.random() < 0.5 else rand_ins(0.15, 0.35)),
        dict(driver="mf", ins=every if rng.random() < 0.3 else targeted()),
    ]
    if quick:
        # reference + 4: random and targeted placements always; the fixed ones in rotation
        pick = [pool_[2], pool_[3], pool_[4], rng.choice([pool_[0], pool_[1], pool_[5], pool_[6]])]
    else:
        pick = pool_[:5] + rng.sample(pool_[5:], 2)
    return V + pick


def _ancestors(p):
    """proper ancestor group paths of an absolute path, root first"""
    segs = p.split("/")[1:-1] if p != "/" else []
    return ["/"] + ["/" + "/".join(segs[:i]) for i in range(1, len(segs) + 1)]


class _Groups:
    """paths that are probably groups at this point of a base history (static approximation, only
    used to choose the wrapper an op is called on; `_Run9.wrapper` falls back to the root)"""

    def __init__(self):
        self.g = ["/"]
        self.seen = []

    def add(self, p):
        if p not in self.g:
            self.g.append(p)

    def drop(self, p):
        self.g = [q for q in self.g if q == "/" or not (q == p or below(q, p))]

    def note(self, op):
        o = op[0]
        for p in op_paths(op)[:2]:
            if p not in self.seen:
                self.seen.append(p)
        if o == "grp":
            for q in _ancestors(op[1]) + [op[1]]:
                self.add(q)
        elif o == "ds":
            for q in _ancestors(op[1]):
                self.add(q)
        elif o in ("copy", "move"):
            src, dst = op[1], op[2]
            sub = [q for q in self.g if q == src or below(q, src)] if src != "/" else []
            if o == "move":
                self.drop(src)
            for q in _ancestors(dst):
                self.add(q)
            for q in sub:
                self.add(dst + q[len(src):])
        elif o == "del":
            self.drop(op[1])


def pick_call(rng, G, op, p_shape=0.6):
    """a call shape for `op`: wrapper (root / non-root) x absolute / relative per path x method"""
    o = op[0]
    if rng.random() >= p_shape:
        return None
    ps = op_paths(op)[:2]
    rel = [rng.random() < 0.55 for _ in ps]
    cands = [g for g in G.g if all(below(p, g) for p, r in zip(ps, rel) if r)]
    if o in ("del", "move"):  # never on a wrapper of a node that the op itself removes (stale handle: not a path-level op)
        cands = [g for g in cands if g == "/" or not (g == op[1] or below(g, op[1]))]
    nonroot = [g for g in cands if g != "/"]
    at = rng.choice(nonroot) if nonroot and rng.random() < 0.8 else "/"
    call = dict(at=at, rel=[bool(r and below(p, at)) for p, r in zip(ps, rel)])
    r = rng.random()
    if o == "grp" and r < 0.3:
        call["how"] = "require"
    elif o == "ds" and r < 0.5:
        call["how"] = "require" if r < 0.25 else "create_dataset"
    elif o in ("mset", "mdel", "mseq", "sattr", "dattr") and r < 0.4:
        call["how"] = "get"
    return call


def shape_history(rng, base, obs, p_shape=0.6, p_probe=0.16):
    """(base, obs, call): the history with a call shape per op and read-only probes (`has` / `get`)
    sprinkled in; a few copies get their destination as group object (leaf name of the source)"""
    G = _Groups()
    B, O, Cl = [], [], []
    for i, op in enumerate(base):
        op = list(op)
        call = pick_call(rng, G, op, p_shape) if op[0] in SHAPED_OPS else None
        if op[0] == "copy" and op[1] != "/" and rng.random() < 0.15:
            dst = (op[2].rsplit("/", 1)[0] or "") + "/" + op[1].rsplit("/", 1)[1]
            if dst != op[1]:
                op[2] = dst
                call = dict(call or dict(at="/", rel=[False, False]), dst="group")
                call["rel"] = [bool(r and below(p, call["at"])) for p, r in zip(op[1:3], call["rel"])]
        B.append(op)
        O.append(obs[i] if i < len(obs) else [])
        Cl.append(call)
        G.note(op)
        if rng.random() < p_probe:
            r = rng.random()
            ps = op_paths(op)[:2]
            if r < 0.5 and ps:
                p = rng.choice(ps)
            elif r < 0.75 and G.seen:
                p = rng.choice(G.seen)
            elif r < 0.9 and ps:
                p = rng.choice(ps).rstrip("/") + "/" + rng.choice(C.NAMES)
            else:
                p = "/zz"
            pr = [rng.choice(PROBE_OPS), p]
            B.append(pr)
            O.append([])
            Cl.append(pick_call(rng, G, pr, 0.8))
    return B, O, Cl


def pick_typed(rng, p_near=0.65):
    return rng.choice(TYPED_NEAR) if rng.random() < p_near else rng.choice(TYPED_MORE)


def add_typed_datasets(rng, base, obs):
    """a few more datasets with typed values at random positions of the history, under the root or under a path that an
    earlier op names (names v0, v1 ...: no op of the history refers to them, but copy / move / delete of the group above
    carries them along)"""
    k = 0
    for _ in range(rng.choice([1, 2, 2, 3])):
        pos = rng.randrange(0, len(base) + 1)
        par = [""] + [p for op in base[:pos] if op[0] in ("grp", "copy", "move") for p in op_paths(op)[-1:] if p != "/"]
        base.insert(pos, ["ds", rng.choice(par) + "/v%d" % k, pick_typed(rng)])
        obs.insert(pos, [])
        k += 1


def add_transients(rng, base, obs, insts):
    """things that come and go again within one or two ops, at a random position of the history (so that, in the variants,
    a container boundary or reopen point lies before them but not between them): the FIRST object of a schema that no other
    op of the history uses is attached and removed again; a child (in a new or an existing group) is created and deleted"""
    for j in range(rng.choice([1, 1, 2])):
        pos = rng.randrange(min(1, len(base)), len(base) + 1)
        made = [p for op in base[:pos] if op[0] in ("grp", "ds", "copy", "move") for p in op_paths(op)[-1:] if p != "/"]
        grps = [p for op in base[:pos] if op[0] == "grp" for p in op_paths(op) if p != "/"]
        if rng.random() < 0.55:
            used = set(op[2] for op in base if op[0] in ("mset", "mdel")) | set(x[1] for op in base if op[0] == "mseq" for x in op[2])
            free = [n for n in C.ATTACHABLE if n not in used] or C.ATTACHABLE
            name = rng.choice(free)
            node = rng.choice(made) if made and rng.random() < 0.8 else "/"
            k = len(insts)
            insts.append([name, None, C.make_instance_dict(name, k)])
            new = [["mset", node, name, None, k], ["mdel", node, name]]
        else:
            g = rng.choice(grps) if grps and rng.random() < 0.7 else ""
            r = rng.random()
            if r < 0.5:
                new = [["grp", "%s/w%d" % (g, j)], ["ds", "%s/w%d/x" % (g, j), "t"], ["del", "%s/w%d/x" % (g, j)]]
            elif r < 0.8 and g:
                new = [["ds", "%s/w%d" % (g, j), "t"], ["del", "%s/w%d" % (g, j)]]
            else:
                new = [["grp", "%s/w%d/y" % (g, j)], ["del", "%s/w%d/y" % (g, j)]]
        gap = rng.random() < 0.25
        for i, op in enumerate(new):
            at = min(pos + i + (1 if gap and i == len(new) - 1 else 0), len(base))
            base.insert(at, op)
            obs.insert(at, [])


def type_values(rng, case, p_ds=0.5, p_attr=0.5):
    """typed values for datasets and attributes of a shaped history: numpy scalars given as `g[p] = v` /
    `create_dataset(p, data=v)` / `create_dataset(p, data=<python value>, dtype=...)`. `require_dataset` is not used in
    such a history (the model's `rds` is "an existing dataset, else create": only right when shape and dtype fit)."""
    base = case["base"]
    call = case.get("call") or [None] * len(base)
    for i, op in enumerate(base):
        cl = call[i]
        if op[0] == "ds":
            if cl and cl.get("how") == "require":
                cl["how"] = "create_dataset"
            if not is_typed(op[2]) and rng.random() < p_ds:
                op[2] = pick_typed(rng)
            if is_typed(op[2]) and rng.random() < 0.4 and typed_plain(op[2]):
                call[i] = dict(cl or dict(at="/", rel=[False]), how="create_dataset_dtype")
        elif op[0] == "sattr" and rng.random() < p_attr:
            op[3] = pick_typed(rng)
    case["call"] = call
    case["typed"] = True


def gen_case(rng, quick=True, n_ops=None, shapes=True):
    insts, obs = [], []
    sh = C.Shadow()
    n = n_ops or rng.randrange(5, 15 if quick else 30)
    base = C.gen_history(rng, n, "h5", insts, held=True, nq=3 if quick else 6, nfinal=0, obs=obs, sh=sh, boundaries=False,
                         attr_p=0.14)
    obs = obs[:len(base)]
    while len(obs) < len(base):
        obs.append([])
    if base:
        obs[-1] = C.gen_obs(rng, sh, 3 if quick else 6)  # gen_history put its final probe set here
    final = C.gen_obs(rng, sh, 16 if quick else 40)
    typed = shapes and rng.random() < 0.5
    if typed:
        add_typed_datasets(rng, base, obs)
    if shapes and rng.random() < 0.5:
        add_transients(rng, base, obs, insts)
    case = dict(base=base, obs=obs, final=final, insts=insts)
    if shapes:
        case["base"], case["obs"], case["call"] = shape_history(rng, base, obs)
    if typed:
        type_values(rng, case)
    case["variants"] = gen_variants(rng, case["base"], quick)
    return case


# attribute histories: the SAME attribute name of one node is set, overwritten and deleted again and again
def gen_attr_case(rng, quick=True):
    """A small tree, then a history that sets / overwrites / deletes (also when missing) the same
    few (node, attribute name) pairs, now and then re-creating, moving or copying the node. Variants:
    a container boundary at EVERY single position of the history (one variant each), after every
    op, and random subsets (thorough: all pairs of positions as well)."""
    G = _Groups()
    typed = rng.random() < 0.6
    vals = C.ATTR_VALS + (TYPED_NEAR * 2 + TYPED_MORE if typed else [])
    base = [["ds", "/d", pick_typed(rng) if typed and rng.random() < 0.5 else "t0"]]
    kind = {"/": "g", "/d": "d"}
    if rng.random() < 0.8:
        base.append(["grp", "/g"])
        kind["/g"] = "g"
        if rng.random() < 0.6:
            base.append(["ds", "/g/e", "t1"])
            kind["/g/e"] = "d"
    nodes = sorted(kind)
    keys = rng.sample(C.ATTR_KEYS, rng.choice([1, 1, 2]))
    focus = []
    for _ in range(rng.choice([1, 2, 2, 3])):
        f = [rng.choice(nodes), rng.choice(keys)]
        if f not in focus:
            focus.append(f)
    present = {}
    fresh = [0]
    m = rng.randrange(4, 9 if quick else 13)
    for _ in range(m):
        f = focus[0] if rng.random() < 0.65 else rng.choice(focus)
        n, k = f
        r = rng.random()
        if n != "/" and r < 0.16:
            q = rng.random()
            if q < 0.4:  # node deleted and made again: the attributes of the old incarnation are gone
                base.append(["del", n])
                base.append(["grp", n] if kind[n] == "g" else ["ds", n, "r%d" % len(base)])
                for key in [x for x in present if x[0] == n or below(x[0], n)]:
                    present.pop(key)
                for x in [x for x in kind if below(x, n)]:
                    kind.pop(x)
            else:  # node moved / copied: the attributes travel; go on at the new place
                fresh[0] += 1
                dst = "/n%d" % fresh[0]
                base.append(["move", n, dst] if q < 0.7 else ["copy", n, dst, rng.random() < 0.3, False])
                mv = base[-1][0] == "move"
                for (a, b), v in list(present.items()):
                    if a == n or below(a, n):
                        present[(dst + a[len(n):], b)] = v
                        if mv:
                            present.pop((a, b))
                for x in [x for x in kind if x == n or below(x, n)]:
                    kind[dst + x[len(n):]] = kind[x]
                    if mv:
                        kind.pop(x)
                for g in focus:
                    if g[0] == n or below(g[0], n):
                        g[0] = dst + g[0][len(n):]
            continue
        if (n, k) in present:
            if r < 0.55:
                base.append(["dattr", n, k])
                present.pop((n, k))
            else:
                v = rng.choice([x for x in vals if x != present[(n, k)]])
                base.append(["sattr", n, k, v])
                present[(n, k)] = v
        elif r < 0.72:
            v = rng.choice(vals)
            base.append(["sattr", n, k, v])
            present[(n, k)] = v
        else:
            base.append(["dattr", n, k])  # missing: refused by every driver
    call = []
    for op in base:
        call.append(pick_call(rng, G, op, 0.45))
        G.note(op)
    n = len(base)
    V = [dict(driver="h5", ins=[])]
    for pos in range(1, n):
        drv = "mf" if pos % 3 == 0 else "ih5"
        V.append(dict(driver=drv, ins=[[pos, "reopen" if rng.random() < 0.25 else "patch"]]))
    V.append(dict(driver="ih5", ins=[[pos, "patch"] for pos in range(1, n + 1)]))
    for _ in range(2):
        V.append(dict(driver=rng.choice(["ih5", "ih5", "mf"]),
                      ins=[[pos, rng.choice(["patch", "patch", "reopen"])] for pos in range(1, n) if rng.random() < 0.35]))
    if not quick and n <= 9 and rng.random() < 0.5:
        for a in range(1, n):
            for b in range(a + 1, n):
                V.append(dict(driver="ih5", ins=[[a, "patch"], [b, "patch"]]))
    return dict(base=base, obs=[[] for _ in base], final=[], insts=[], call=call, variants=V, family="attribute-history")


# relocate histories: copy / move between the newest container and the past
class _Hist9(C.Shadow):
    """`Shadow` plus the two facts about the distribution of the nodes over containers that steer `gen_relocate_case`
    (relative to the MARKS of the history = the positions where the variants put their boundaries): which paths are
    FRESH (came into being since the last mark, also implicitly as intermediate group, as member of a copied subtree
    or by re-creation after a deletion) and which have a PAST (existed at some earlier mark: still there, or deleted /
    moved away / replaced since). Only biases the generator; it never decides a verdict."""

    def __init__(self, names=None):
        super().__init__(names)
        self.fresh = set()
        self.past = set()
        self.cut = set()  # paths named by deletions / moves (where the deletion itself was recorded)

    def mark(self):
        self.past |= set(p for p in self.kind if p != "/")
        self.fresh = set()

    def can_create(self, p):
        """`p` is free and its nearest existing ancestor is a group"""
        if p in self.kind or p in ("", "/"):
            return False
        q = p
        while True:
            q = q.rsplit("/", 1)[0] or "/"
            if q in self.kind:
                return self.kind[q] == "g"

    def apply(self, op):
        before = set(self.kind)
        o = op[0]
        if o in ("grp", "ds"):
            if self.can_create(op[1]):
                self.add(op[1], "g" if o == "grp" else "d")
        elif o == "del":
            if op[1] != "/" and op[1] in self.kind:
                self.remove(op[1])
                self.cut.add(op[1])
        elif o in ("copy", "move"):
            s, d = op[1], op[2]
            if s != "/" and s in self.kind and self.can_create(d) and not below(d, s):
                self.clone(s, d, o == "move" or not op[3], move=o == "move")
                if o == "move":
                    self.cut.add(s)
        elif o == "mset":
            if op[1] in self.kind and op[4] >= 0:
                self.meta[op[1]].add(op[2])
        elif o == "mdel":
            if op[1] in self.kind:
                self.meta[op[1]].discard(op[2])
        self.fresh = set(p for p in self.fresh if p in self.kind) | set(p for p in self.kind if p not in before)

    def live_past(self):
        """present, stored in older containers only (nothing at this path was made since the last mark)"""
        return sorted(p for p in self.past if p in self.kind and p not in self.fresh)

    def dead_past(self):
        """existed at an earlier mark, absent now (deleted / moved away before or after the last mark)"""
        return sorted(p for p in self.past if p not in self.kind)

    def dead_cut(self):
        """the same, only the paths that were themselves named by the deletion / move (not those that went with an ancestor)"""
        return sorted(p for p in self.past if p not in self.kind and p in self.cut)


def gen_relocate_case(rng, quick=True):
    """Container-level copy / move between the NEWEST container and the past (family="relocate-history"). The base history has
    MARKS (positions where the variants put patch / reopen boundaries). First one to three "older containers" are filled
    (datasets and groups, also through longer paths so that intermediate groups exist only implicitly; some with metadata
    and attributes; some deleted or replaced again, before the same or before a later mark). Then rounds that each start
    with a mark RIGHT BEFORE new material is created (datasets / groups with and without metadata and attributes, siblings
    of old nodes, metadata attached to old nodes, deletions of old nodes), followed by one to three copies (with / without
    metadata) / moves whose SOURCE is mostly such a fresh node (dataset, explicit or implicit group, with metadata on or
    below it) and whose DESTINATION mostly has a past: a node that exists only before the mark (the operation must be
    REFUSED as on h5py.File, nothing may change), a name deleted / vacated earlier (before or after the mark), the name of
    a node replaced earlier, a name below either, a name taken by another fresh node; each followed now and then by an
    operation on / below the destination (also after one more mark). Every op in a random call shape (`pick_call`).
    Variants: all marks as patch boundaries (IH5Record, IH5MFRecord), as patch + reopen, ONE single mark of a round (all
    older material in one container, the source in the next), a random subset / kinds, h5py.File with reopen points."""
    h = _Hist9()
    base, obs, insts, marks, rounds = [], [], [], [], []
    nv = [0]

    def val():
        nv[0] += 1
        return "t%d" % nv[0]

    def emit(op, nobs=0):
        h.apply(op)
        base.append(op)
        obs.append(C.gen_obs(rng, h, nobs) if nobs else [])

    def mark():
        if base and (not marks or marks[-1] != len(base)):
            marks.append(len(base))
        h.mark()

    def ex():
        return [p for p in h.nodes() if p != "/"]

    def path(tries=4):
        """mostly a name that can be created now"""
        for _ in range(tries):
            p = "/" + "/".join(rng.choice(h.names) for _ in range(rng.choice([1, 2, 2, 3])))
            if h.can_create(p):
                break
        return p

    def parent(p):
        return p.rsplit("/", 1)[0] or "/"

    def attach(p):
        free = [n for n in C.ATTACHABLE if n not in h.meta.get(p, ())] or C.ATTACHABLE
        name = rng.choice(free)
        k = len(insts)
        insts.append([name, None, C.make_instance_dict(name, k)])
        emit(["mset", p, name, None, k])

    def attr(p):
        emit(["sattr", p, rng.choice(C.ATTR_KEYS), rng.choice(C.ATTR_VALS)])

    # the past
    for _ in range(rng.choice([1, 1, 2, 2] if quick else [1, 1, 2, 2, 3])):
        for _ in range(rng.randrange(2, 5)):
            r = rng.random()
            e = ex()
            if r < 0.4 or not e:
                emit(["ds", path(), val()])
            elif r < 0.5:
                emit(["grp", path()])
            elif r < 0.7:
                attach(rng.choice(e))
            elif r < 0.78:
                attr(rng.choice(e))
            elif r < 0.9:
                emit(["del", rng.choice(e)])
            else:  # replaced: deleted and made again (as the same or the other kind of node)
                p = rng.choice(e)
                emit(["del", p])
                emit(["grp", p] if rng.random() < 0.5 else ["ds", p, val()])
        mark()
    # rounds in the newest container
    for _ in range(rng.choice([1, 1, 2] if quick else [1, 2, 2, 3])):
        mark()
        rounds.append(len(base))
        for _ in range(rng.randrange(1, 4)):
            r = rng.random()
            fr, live = sorted(h.fresh), h.live_past()
            pa = live + h.dead_past()
            if r < 0.38:
                emit(["ds", path(), val()])
            elif r < 0.5:
                emit(["grp", path()])
            elif r < 0.66 and fr:
                attach(rng.choice(fr))
            elif r < 0.73 and fr:
                attr(rng.choice(fr))
            elif r < 0.82 and pa:  # a sibling of a node with a past: its parent group gets a node in the newest container
                emit(["ds", parent(rng.choice(pa)).rstrip("/") + "/" + rng.choice(h.names), val()])
            elif r < 0.88 and live:  # metadata attached in the newest container to a node of an older one
                attach(rng.choice(live))
            elif ex():  # deleted after the mark
                emit(["del", rng.choice(live or ex())])
        if not h.fresh:
            emit(["ds", path(), val()])
        for _ in range(rng.randrange(1, 4)):
            fr, e = sorted(h.fresh), ex()
            if not e:
                break
            frg = [p for p in fr if h.kind[p] == "g"]
            frm = [p for p in fr if any(h.meta.get(q) for q in h.under(p))]
            r = rng.random()
            if not fr or r < 0.15:
                src = rng.choice(e)
            elif frm and r < 0.5:
                src = rng.choice(frm)
            elif frg and r < 0.7:
                src = rng.choice(frg)
            else:
                src = rng.choice(fr)
            live, dead, cut = h.live_past(), h.dead_past(), h.dead_cut()
            r = rng.random()
            if r < 0.28 and live:
                dst = rng.choice(live)  # taken by a node of an older container: refused
            elif r < 0.62 and dead:
                dst = rng.choice(cut) if cut and rng.random() < 0.7 else rng.choice(dead)
            elif r < 0.77 and live + dead:
                dst = rng.choice(live + dead) + "/" + rng.choice(h.names)
            elif r < 0.85 and fr:
                dst = rng.choice(fr)  # taken by a node of the newest container: refused
            else:
                dst = path()
            if dst == src or below(dst, src):
                continue
            q = parent(dst)
            if q != "/" and h.kind.get(q) == "g" and q not in h.fresh and rng.random() < 0.35:
                # the destination's parent gets a node in the newest container first (a new sibling or an attribute)
                if rng.random() < 0.5:
                    emit(["ds", q + "/" + rng.choice([n for n in h.names if q + "/" + n != dst] or h.names), val()])
                else:
                    attr(q)
            if rng.random() < 0.55:
                emit(["move", src, dst], nobs=3)
            else:
                emit(["copy", src, dst, rng.random() < 0.35, rng.random() < 0.15], nobs=3)
            if rng.random() < 0.5:
                if rng.random() < 0.3:
                    mark()
                r = rng.random()
                if r < 0.2:
                    emit(["ds", dst + "/" + rng.choice(h.names), val()])
                elif r < 0.35:
                    attr(dst)
                elif r < 0.5:
                    emit(["del", dst], nobs=2)
                elif r < 0.65 and dst in h.kind:
                    attach(dst)
                elif r < 0.75:
                    emit(["ds", dst, val()])
                else:
                    emit([rng.choice(PROBE_OPS), dst if rng.random() < 0.6 else dst + "/" + rng.choice(h.names)])
        if rng.random() < 0.5:
            mark()
    if base:
        obs[-1] = obs[-1] + C.gen_obs(rng, h, 3)
    final = C.gen_obs(rng, h, 12 if quick else 30)
    G = _Groups()
    call = []
    for op in base:
        call.append(pick_call(rng, G, op, 0.5))
        G.note(op)
    marks = [m for m in marks if 0 < m <= len(base)]
    rounds = [m for m in rounds if m in marks]
    allp = [[m, "patch"] for m in marks]
    V = [dict(driver="h5", ins=[]),
         dict(driver="ih5", ins=allp),
         dict(driver="mf", ins=[x for m in marks for x in ([[m, "patch"], [m, "reopen"]] if rng.random() < 0.3 else [[m, "patch"]])])]
    singles = [dict(driver=rng.choice(["ih5", "ih5", "mf"]), ins=[[m, rng.choice(["patch", "patch", "reopen"])]]) for m in rounds]
    rng.shuffle(singles)
    more = [dict(driver="ih5", ins=[x for m in marks for x in ([m, "patch"], [m, "reopen"])]),
            dict(driver=rng.choice(["ih5", "mf"]), ins=[[m, rng.choice(["patch", "reopen"])] for m in marks if rng.random() < 0.7]),
            dict(driver="h5", ins=[[m, "reopen"] for m in marks])]
    if quick:
        V += singles[:1] + [rng.choice(singles[1:] + more)]
    else:
        V += singles + more
    return dict(base=base, obs=obs, final=final, insts=insts, call=call, variants=V, family="relocate-history")


# --------------------------------------------------------------------------- model lines
def model_line(op, call):
    """every call shape is the same model op on the resolved absolute path; `require_*` is the
    driver-level composition "the existing node of that kind, else create" (`rgrp` / `rds`)"""
    if call and call.get("how") == "require" and op[0] in ("grp", "ds"):
        return "r" + C.op_line(op)
    return C.op_line(op)


def lines(case):
    L = list(C.env_lines(C.get_envinfo()))
    obs = case.get("obs") or [[] for _ in case["base"]]
    for var in case["variants"]:
        L.append("init")
        for op, bi in expand(case, var):
            if op[0] in NOMODEL_OPS:
                continue  # attributes of user nodes / read-only probes are not part of the container model (plain pass-through)
            items = obs[bi] if bi is not None else []
            L.append(model_line(op, call_of(case, bi)))
            L.append("dump")
            L.append("caches " + C.UNKNOWN)
            L.append("obs " + (",".join("%s:%s:%s:%s" % (k, n, name, C.vstr(ver)) for k, n, name, ver in items) or "-"))
    return L


def _obs_equiv(u, v):
    if u.startswith("q=") and v.startswith("q=") and not u.startswith("q=err") and not v.startswith("q=err") and u != "q=nonode":
        return sorted(x for x in u[2:].split(",") if x) == sorted(x for x in v[2:].split(",") if x)
    if u.startswith("g=obj:") and v.startswith("g=obj:"):
        si, sm = set(u[6:].split("/")), set(v[6:].split("/"))
        return bool(si) and si <= sm
    return u == v


def compare(case, ir, mo):
    """impl vs model for every variant (status, raw dump up to uuid renaming, get/query answers),
    then model vs model across the variants at the base steps."""
    a = ir.get("out")
    k = len(C.env_lines(C.get_envinfo()))
    mo = mo[k:]
    if len(a) != len(mo):
        return "length %d vs %d" % (len(a), len(mo))
    pos = 0
    model_steps = []  # per variant: [(status, normalised dump, obs list)] at base steps
    for vi, var in enumerate(case["variants"]):
        if a[pos] != mo[pos]:
            return "variant %d: init line impl=%r model=%r" % (vi, a[pos], mo[pos])
        pos += 1
        ci, cm = C.Canon(), C.Canon()
        ms = []
        for op, bi in expand(case, var):
            if op[0] in NOMODEL_OPS:
                if bi is not None:
                    ms.append(None)
                continue
            where = "variant %d (%s) op %s%s" % (vi, var_name(var), op, "" if bi is None else " (base step %d)" % bi)
            if a[pos] != mo[pos]:
                return "%s: status impl=%r model=%r" % (where, a[pos], mo[pos])
            try:
                di, dm = C.norm_dump(json.loads(a[pos + 1]), ci), C.norm_dump(json.loads(mo[pos + 1]), cm)
            except Exception as e:  # noqa: BLE001
                raise lean.InfraError("cannot parse driver output: %r\n%s" % (e, mo[pos + 1][:300]))
            if di != dm:
                x = [e for e in di if e not in dm][:3]
                y = [e for e in dm if e not in di][:3]
                return "%s: raw tree differs; only impl: %s; only model: %s" % (where, x, y)
            xi = a[pos + 3].split("|") if a[pos + 3] else []
            xm = mo[pos + 3].split("|") if mo[pos + 3] else []
            if len(xi) != len(xm):
                return "%s: %d vs %d observations" % (where, len(xi), len(xm))
            for j, (u, v) in enumerate(zip(xi, xm)):
                if not _obs_equiv(u, v):
                    return "%s: observation %d impl=%r model=%r" % (where, j, u, v)
            if bi is not None:
                ms.append((mo[pos], dm, xm))
            pos += 4
        model_steps.append(ms)
    if pos != len(a):
        return "surplus lines %d vs %d" % (pos, len(a))
    ref = model_steps[0]
    for vi, ms in enumerate(model_steps[1:], 1):
        for i, (x, y) in enumerate(zip(ref, ms)):
            if x is None or y is None:
                continue
            if x[0] != y[0] or x[1] != y[1] or len(x[2]) != len(y[2]) or not all(
                    (sorted(u[2:].split(",")) == sorted(v[2:].split(",")) if u.startswith("q=") else
                     set(u[6:].split("/")) == set(v[6:].split("/")) if u.startswith("g=obj:") and v.startswith("g=obj:") else u == v)
                    for u, v in zip(x[2], y[2])):
                return "MODEL differs between variant 0 and variant %d (%s) at base step %d %s" % (vi, var_name(case["variants"][vi]), i, case["base"][i])
    return None


# --------------------------------------------------------------------------- run
N_CASES = {"quick": 36, "thorough": 280}
N_ATTR = {"quick": 9, "thorough": 36}
N_RELOC = {"quick": 8, "thorough": 60}


def run(ctx):
    ctx.rule = ("cases: one random BASE container history (create group/dataset, set/delete attributes of user nodes incl. the root, attach/"
                "delete metadata incl. refused requests, ops on one kept node.meta handle, delete node, copy with/without metadata incl. into "
                "the own subtree, move; read-only probes `path in group` / `group.get(path)`; no boundary ops). Every op is issued in a random "
                "CALL SHAPE: on the container root or on a NON-ROOT group wrapper, each path (source and destination) absolute or RELATIVE to "
                "that group, create_group|require_group, g[p]=v|create_dataset|require_dataset, node lookup g[p]|g.get(p), copy destination "
                "as path or as group object (for the model the same op on the resolved absolute path). Second family ATTRIBUTE HISTORIES: on a "
                "small tree the same (node, attribute name) is set, overwritten, deleted and deleted-when-missing repeatedly (node now and then "
                "deleted+re-created, moved, copied), with one variant per single boundary position (every position), after every op, random "
                "subsets (thorough: all pairs). Third family RELOCATE HISTORIES: older material (datasets, groups - also implicit ones -, metadata, "
                "attributes, partly deleted / replaced again), then rounds that start with a MARK right before new material is made and copy "
                "(with / without metadata) / move mostly such a fresh node onto a name with a past: a node that exists only before the mark "
                "(refused on every driver), a name deleted / vacated before or after the mark, a replaced node's name, a name below either, "
                "a name taken by another fresh node; follow-up op on / below the destination; variants = patch / reopen boundaries at all "
                "marks, at one single mark, at random subsets. All over installed schemas and the harness-registered vt.* family, executed in K variants "
                "on the REAL code: variant 0 = h5py.File; others = IH5Record / IH5MFRecord / h5py.File with commit_patch+create_patch "
                "boundaries and close/reopen points inserted at random positions, at none, after every op, directly one after the other, and "
                "targeted between dependent ops (create|attach, copy|move, delete|re-create). VALUES of datasets / attributes: strings, ints, "
                "arrays, opaque bytes and TYPED numpy scalars stored as one or two bytes around 0x7f (int8/uint8 126,127,128, S1 ~ DEL \\x80, bool, "
                "wider values containing the byte; not the deletion marker itself), given as numpy scalar or via create_dataset(data=, dtype=). "
                "TRANSIENTS: first object of an unused schema attached and removed, child created and deleted, within one or two ops (a boundary "
                "before, none between). Oracle: after EVERY base op and at the end the "
                "user-visible observation through the public API (ok/err, data with dtype, attributes, metadata objects as canonical JSON, "
                "listings, len() of every group / attribute manager / node.meta, mc.metador.schemas and .packages listings with a container-wide "
                "query per listed schema, sampled get/query answers) of every variant equals the reference's. Correspondence: every variant vs the Lean container "
                "model drv_ctr (status, raw dump up to uuid renaming, get/query answers) and model output equal across variants. "
                "Non-trivial = tagged (boundary between dependent ops, reopen after failed op, copy/move of subtree with metadata or "
                "attributes across a boundary, delete-then-recreate across a boundary, attribute overwritten/deleted across a boundary ...).")
    ctx.assumptions += [
        "h5py.File implements the flat tree semantics of the model's raw primitives (it is the reference side of the lock-step)",
        "uuid1() is fresh; uuids are compared up to renaming by first appearance (per variant)",
        "exception classes of tree-level failures differ legitimately between drivers: outcomes are compared as succeed/fail",
        "attributes of user nodes and the read-only probes `in` / `get` are a pass-through of the driver (not part of the container "
        "model; lock-step only)",
        "a call on a non-root group wrapper / with relative paths is the same model op on the resolved absolute path (the model is "
        "path-based); `require_group` / `require_dataset` (scalar string, matching shape and dtype) are the driver-level composition "
        "'existing node of that kind: nothing changes, else create_*' (drv_ctr lines rgrp / rds); an op is never issued on a wrapper of "
        "a node that the op itself deletes or moves (stale object handle, not a path-level operation)",
        "typed dataset values are opaque content for the model (the token); histories with typed values do not use `require_dataset` "
        "(h5py refuses an existing dataset whose dtype / shape does not fit the request; IH5 used to return it unchecked - F36, "
        "repaired in /repo; the container model has no dtype notion, so the histories still only require with matching shape and dtype)",
        "`len(mc.__wrapped__[p])` (the driver's own group object, internal metadata directories included) is compared between drivers "
        "only - the container code lays out both drivers identically",
        "Lean: `reopen_unobservable` (Props/C09Coherent.lean) holds for every well-formed schema environment (WFEnv) and every history "
        "without a move to an EMPTY node name (OpOK; not expressible in HDF5); it rests on `reopen_unobservable_of_coherent_on` + the C06 "
        "invariant (`cacheCoherent_ok`). Reopen is unobservable up to `CachesEqv` of the caches (literal equality is false in the model: "
        "`literal_coherence_fails`); that `CachesEqv` states are indistinguishable is proved for all ops (`obsEq_congruent`)",
        "`node.meta.get(parent schema)` with several attached child-schema instances returns an unspecified one of them (set iteration "
        "order, documented as unspecified; changes e.g. after reopen): compared as the candidate set",
        "Lean: `container_refines` assumes the driver laws (create/del/move/copy commute with the view, equal outcomes); that IH5 "
        "satisfies them is C01 (`run_refines`) and is exercised here by the lock-step",
    ]
    pending = [
        (PROBE_GET_THROUGH_DATASET, "PENDING FINDING (excluded from the probes until settled; VERIF_C09_PENDING=1 includes it): `group.get(path)` with a "
         "path through a DATASET returns None on h5py.File and raises ValueError on IH5 (corpus/C09/22-*)"),
        (PROBE_H5_COPY_ABS_DEST_COLLISION, "PENDING FINDING, third-party HDF5 (excluded until settled): `copy` on a NON-ROOT group whose raw call "
         "receives an absolute destination name (also the metadata directory of a dataset) is refused by h5py.File when <group>/<that name> exists or "
         "leads through a dataset; such a copy is issued on the root instead (corpus/C09/23-*)"),
        (PROBE_COPY_INTO_ROOT_GROUP_OBJECT, "PENDING FINDING (excluded until settled): `copy(src, <ROOT group object>)` builds the path '//name': ok on "
         "h5py.File, KeyError after the raw copy on IH5; the path form is used for the root (corpus/C09/24-*)"),
    ]
    for on, text in pending:
        if not on:
            ctx.assumptions.append(text)
    C.get_envinfo()
    cases = [c for c in core.load_corpus(ID) if "base" in c]
    ctx.dist["corpus-cases"] = len(cases)
    n = N_CASES["quick" if ctx.quick else "thorough"]
    for _ in range(n):
        cases.append(gen_case(ctx.rng, quick=ctx.quick))
    for _ in range(N_ATTR["quick" if ctx.quick else "thorough"]):
        cases.append(gen_attr_case(ctx.rng, quick=ctx.quick))
    for _ in range(N_RELOC["quick" if ctx.quick else "thorough"]):
        cases.append(gen_relocate_case(ctx.rng, quick=ctx.quick))
    ctx.correspond("lockstep-and-container-model", MOD, cases, lines, "drv_ctr", compare=compare, timeout=420)
    for c in cases:
        ctx.dist["base-len:%02d-%02d" % (len(c["base"]) // 5 * 5, len(c["base"]) // 5 * 5 + 4)] += 1
        ctx.dist["family:" + c.get("family", "container-history")] += 1
        for i, op in enumerate(c["base"]):
            ctx.dist["op:" + op[0]] += 1
            if op[0] in ("ds", "sattr") and is_typed(op[-1]):
                ctx.dist["typed-value:%s:%s" % (op[0], "stored-as-0x7f" if op[-1] in TYPED_NEAR[:3] else "near" if op[-1] in TYPED_NEAR else "other")] += 1
            if op[0] in SHAPED_OPS:
                ctx.dist["call-shape:" + ":".join(call_name(op, call_of(c, i)).split(":")[:2])] += 1
        for v in c["variants"]:
            ctx.dist["variant:" + v["driver"]] += 1
            kinds = [k for _, k in v.get("ins", [])]
            ctx.dist["inserted:patch"] += kinds.count("patch")
            ctx.dist["inserted:reopen"] += kinds.count("reopen")
            ctx.dist["variant-boundaries:%s" % ("0" if not kinds else "1-3" if len(kinds) <= 3 else "4-9" if len(kinds) <= 9 else "10+")] += 1
    ctx.dist["variants-total"] = sum(len(c["variants"]) for c in cases)


# --------------------------------------------------------------------------- verdict helpers
def signature(case, detail):
    if not isinstance(detail, dict):
        return "%s:%s" % (ID, str(detail)[:40])
    op = detail.get("op") or ["?"]
    drv = detail.get("driver", "?")
    if drv == "mf" and detail.get("kind") != "boundary-op-failed":
        drv = "ih5"  # same overlay code; only commit/open differ (manifest sidecar)
    kind = detail.get("kind")
    if kind == "outcome-differs":
        ref, got = str(detail.get("reference", "")), str(detail.get("got", ""))
        way = "refused" if "err" in got and "err" not in ref else "accepted" if "err" in ref and "err" not in got else "other"
        return "%s:%s:%s:%s:%s%s" % (ID, kind, drv, op[0] if op else "?", way, ":dest-group-object" if ":group" in str(detail.get("call", "")) else "")
    if kind == "boundary-op-failed":
        return "%s:%s:%s:%s" % (ID, kind, drv, op[0] if op else "?")
    return "%s:%s:%s" % (ID, kind, drv)  # the op at which a state difference is first seen is incidental


def sub_case(case, keep, variants=None):
    """the case restricted to the base ops with indices `keep` (ascending); insert positions
    are moved to the next kept op"""
    keep = list(keep)
    obs = case.get("obs") or [[] for _ in case["base"]]
    vs = []
    for v in (variants if variants is not None else case["variants"]):
        ins = [[sum(1 for i in keep if i < pos), kind] for pos, kind in v.get("ins", [])]
        vs.append(dict(v, ins=ins))
    out = dict(case, base=[case["base"][i] for i in keep], obs=[obs[i] for i in keep], variants=vs)
    if case.get("call"):
        out["call"] = [call_of(case, i) for i in keep]
    return out


def prune(case):
    c = C.prune_insts(dict(case, ops=case["base"]))
    c["base"] = c.pop("ops")
    return c


_SHRUNK = {}


def shrink(ctx, case, detail):
    from .. import pool

    if not isinstance(detail, dict) or "base" not in case:
        return case, detail
    kind = detail.get("kind")
    if kind in (None, "does-not-terminate") or not case["base"]:
        return case, detail
    key = signature(case, detail)
    if key in _SHRUNK:
        return _SHRUNK[key]
    if len(_SHRUNK) >= 3:
        _SHRUNK[key] = (case, detail)
        return case, detail
    crashy = kind == "unexpected-exception"

    def found(r):
        if crashy:
            return [dict(kind=kind, error=r.get("crash", "")[:300])] if "crash" in r and core.crash_in_real_code(r) else []
        # the same signature (kind, driver family, op kind), so that minimising cannot drift to another difference
        return [d for d in (r.get("ok") or {}).get("oracle", []) if d.get("kind") == kind and signature(None, d) == key] if "ok" in r else []

    def fails_many(cands):
        return [bool(found(r)) for r in pool.run(MOD, "impl", cands, timeout=240, workers=min(8, len(cands)))]

    cur = case
    # 0. only the reference and the failing variant
    vi = detail.get("variant")
    if isinstance(vi, int) and 0 < vi < len(case["variants"]) and len(case["variants"]) > 2:
        cand = dict(cur, variants=[cur["variants"][0], cur["variants"][vi]])
        if fails_many([cand])[0]:
            cur = cand
    # 1. the base history
    idx = C.ddmin_batch(list(range(len(cur["base"]))), lambda cs: fails_many([sub_case(cur, k) for k in cs]))
    if len(idx) < len(cur["base"]):
        cand = sub_case(cur, idx)
        if fails_many([cand])[0]:
            cur = cand
    # 2. the inserted boundaries of the (single remaining) non-reference variants
    for j in range(1, len(cur["variants"])):
        ins = cur["variants"][j].get("ins", [])
        if not ins:
            continue

        def with_ins(sub, j=j):
            vs = list(cur["variants"])
            vs[j] = dict(vs[j], ins=sub)
            return dict(cur, variants=vs)

        if fails_many([with_ins([])])[0]:
            cur = with_ins([])
            continue
        if len(ins) >= 2:
            sub = C.ddmin_batch(ins, lambda cs: fails_many([with_ins(s) for s in cs]))
            if len(sub) < len(ins) and fails_many([with_ins(sub)])[0]:
                cur = with_ins(sub)
    # 2b. call shapes: all default, else one by one
    if any(cur.get("call") or []):
        cl = [call_of(cur, i) for i in range(len(cur["base"]))]
        if fails_many([dict(cur, call=[None] * len(cl))])[0]:
            cur = dict(cur, call=[None] * len(cl))
        else:
            idx = [i for i, c in enumerate(cl) if c and cur["base"][i][0] not in PROBE_OPS]
            cands = [dict(cur, call=[None if j == i else c for j, c in enumerate(cl)]) for i in idx]
            keep = list(cl)
            for i, f in zip(idx, fails_many(cands) if cands else []):
                if f:
                    keep[i] = None
            if keep != cl and fails_many([dict(cur, call=keep)])[0]:
                cur = dict(cur, call=keep)
    # 3. probe items, unused instances
    none = [[] for _ in cur["base"]]
    cands = [dict(cur, obs=none, final=[]), dict(cur, final=[]), dict(cur, obs=none)]
    r0 = pool.run_one(MOD, "impl", cur, timeout=240)
    for d in found(r0):  # only the probe item that shows the difference
        if isinstance(d.get("index"), int) and isinstance(d.get("step"), int):
            st, j = d["step"], d["index"]
            if st < len(cur["base"]) and j < len((cur.get("obs") or none)[st]):
                cands.insert(0, dict(cur, obs=[[cur["obs"][st][j]] if i == st else [] for i in range(len(cur["base"]))], final=[]))
            elif st == len(cur["base"]) and j < len(cur.get("final") or []):
                cands.insert(0, dict(cur, obs=none, final=[cur["final"][j]]))
        break
    for c, f in zip(cands, fails_many(cands)):
        if f:
            cur = c
            break
    try:
        cand = prune(cur)
        if fails_many([cand])[0]:
            cur = cand
    except Exception:  # noqa: BLE001
        pass
    r = pool.run_one(MOD, "impl", cur, timeout=240)
    ds = found(r)
    out = (cur, ds[0]) if ds else (case, detail)
    _SHRUNK[key] = out
    return out


def search(ctx):
    """Failing-input search after a broken obligation / correspondence: more seeds, oracle only."""
    from .. import pool

    for k in range(1, 4):
        sub = core.Ctx(ID, "quick" if k < 3 else "thorough", ctx.seed + 7919 * k)
        cases = ([gen_case(sub.rng, quick=(k < 3)) for _ in range(60)] + [gen_attr_case(sub.rng, quick=(k < 3)) for _ in range(20)]
                 + [gen_relocate_case(sub.rng, quick=(k < 3)) for _ in range(30)])
        res = pool.run(MOD, "impl", cases, timeout=420)
        ctx.search_log.append("seed %d: %d base histories x variants, lock-step oracle only" % (sub.seed, len(cases)))
        for c, r in zip(cases, res):
            if "ok" in r and r["ok"]["oracle"]:
                return shrink(ctx, c, r["ok"]["oracle"][0])
            if "timeout" in r:
                return c, {"kind": "does-not-terminate"}
            if "crash" in r and core.crash_in_real_code(r):
                return shrink(ctx, c, {"kind": "unexpected-exception", "error": r["crash"][:300]})
    return None


def replay(ctx, rep):
    from .. import pool

    case = rep.get("case")
    if not case or "base" not in case:
        print(core.canon(rep)[:3000])
        return 0
    print("base history:")
    for i, op in enumerate(case["base"]):
        cl = call_of(case, i)
        print("  %2d %s%s" % (i, op, "   called as %s %s" % (call_name(op, cl), json.dumps(cl, sort_keys=True)) if cl else ""))
    for vi, v in enumerate(case["variants"]):
        print("variant %d: %s ins=%s" % (vi, v["driver"], v.get("ins", [])))
    r = pool.run_one(MOD, "impl", case, timeout=420)
    if "ok" in r:
        print("implementation (lock-step oracle):", core.canon(r["ok"]["oracle"])[:3000] or "[]")
    else:
        print("implementation:", core.canon(r)[:2000])
    try:
        mo = lean.run_driver("drv_ctr", [lines(case)])[0]
        if "ok" in r:
            print("correspondence with the model:", compare(case, r["ok"], mo))
    except lean.InfraError as e:
        print("model: %s" % e)
    return 1 if ("ok" in r and r["ok"]["oracle"]) or "timeout" in r or ("crash" in r and core.crash_in_real_code(r)) else 0
